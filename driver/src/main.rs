// fvdriver: rustc_private driver that dumps type-checked MIR facts as JSON lines.
//
// Invoked through RUSTC_WORKSPACE_WRAPPER (argv[1] is the real rustc path and is
// dropped).  For crates named in FV_CRATES (comma separated, rustc crate names) it
// writes $FV_OUT/<crate>.facts.jsonl with one JSON object per line:
//   {"k":"crate",...}  {"k":"body",...}  {"k":"adt",...}  {"k":"static",...}
//   {"k":"impl",...}   {"k":"layout",...} {"k":"edge",...} (instance call graph)
// Nothing is executed; everything comes from rustc's analysis results.
#![feature(rustc_private)]
#![allow(clippy::all)]

extern crate rustc_abi;
extern crate rustc_data_structures;
extern crate rustc_driver;
extern crate rustc_hir;
extern crate rustc_interface;
extern crate rustc_middle;
extern crate rustc_session;
extern crate rustc_span;

mod callgraph;
mod json;
mod mirdump;
mod types;

use rustc_driver::Compilation;
use rustc_interface::interface::Compiler;
use rustc_middle::ty::TyCtxt;
use std::io::Write;

struct Cb;

impl rustc_driver::Callbacks for Cb {
    fn after_analysis<'tcx>(&mut self, _c: &Compiler, tcx: TyCtxt<'tcx>) -> Compilation {
        let name = tcx.crate_name(rustc_hir::def_id::LOCAL_CRATE).to_string();
        let want = std::env::var("FV_CRATES").unwrap_or_default();
        if !want.split(',').any(|c| c == name) {
            return Compilation::Continue;
        }
        if tcx.sess.opts.test {
            return Compilation::Continue;
        }
        let _ = mirdump::CRATE_NAME.set(name.clone());
        let out_dir = std::env::var("FV_OUT").expect("FV_OUT not set");
        let mut buf: Vec<u8> = Vec::with_capacity(64 << 20);
        mirdump::dump_crate(tcx, &name, &mut buf);
        types::dump_types(tcx, &name, &mut buf);
        if std::env::var("FV_CALLGRAPH").map(|v| v == "1").unwrap_or(false) {
            callgraph::dump_callgraph(tcx, &name, &mut buf);
        }
        // one write per process: parallel rustc invocations never interleave
        let path = format!("{}/{}.facts.jsonl", out_dir, name);
        let tmp = format!("{}.tmp{}", path, std::process::id());
        let mut f = std::fs::File::create(&tmp).expect("create fact file");
        f.write_all(&buf).expect("write facts");
        drop(f);
        std::fs::rename(&tmp, &path).expect("rename facts");
        Compilation::Continue
    }
}

fn main() {
    let mut args: Vec<String> = std::env::args().collect();
    // RUSTC_WORKSPACE_WRAPPER: argv = [driver, rustc, args...]
    if args.len() > 1 && (args[1].ends_with("rustc") || args[1].contains("/rustc")) {
        args.remove(1);
    }
    rustc_driver::run_compiler(&args, &mut Cb);
}
