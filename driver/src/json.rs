// Minimal JSON writer (no external crates are available to a rustc_private driver here).
use std::fmt::Write;

pub fn esc(s: &str, out: &mut String) {
    out.push('"');
    for c in s.chars() {
        match c {
            '"' => out.push_str("\\\""),
            '\\' => out.push_str("\\\\"),
            '\n' => out.push_str("\\n"),
            '\r' => out.push_str("\\r"),
            '\t' => out.push_str("\\t"),
            c if (c as u32) < 0x20 => {
                let _ = write!(out, "\\u{:04x}", c as u32);
            }
            c => out.push(c),
        }
    }
    out.push('"');
}

pub fn s(v: &str) -> String {
    let mut o = String::with_capacity(v.len() + 2);
    esc(v, &mut o);
    o
}

pub fn arr(items: &[String]) -> String {
    let mut o = String::from("[");
    for (i, it) in items.iter().enumerate() {
        if i > 0 {
            o.push(',');
        }
        o.push_str(it);
    }
    o.push(']');
    o
}

pub fn obj(items: &[(&str, String)]) -> String {
    let mut o = String::from("{");
    for (i, (k, v)) in items.iter().enumerate() {
        if i > 0 {
            o.push(',');
        }
        esc(k, &mut o);
        o.push(':');
        o.push_str(v);
    }
    o.push('}');
    o
}

pub fn b(v: bool) -> String {
    if v { "true".into() } else { "false".into() }
}

pub fn opt_s(v: Option<&str>) -> String {
    match v {
        Some(x) => s(x),
        None => "null".into(),
    }
}
