// Instance-level call graph of the local crate, following generic instantiations into upstream
// workspace crates (their MIR is available through -Zalways-encode-mir).
//
// Nodes are either fully monomorphic instances or "identity" instances (a generic item with its own
// parameters).  A generic callee reached from a generic caller is replaced by its identity instance.
use crate::json::{b, obj, s};
use crate::mirdump::{fix_crate, loc_of, path_of};
use rustc_hir::def::DefKind;
use rustc_hir::def_id::DefId;
use rustc_middle::mir::{Body, Operand, Rvalue, StatementKind, TerminatorKind};
use rustc_middle::ty::adjustment::PointerCoercion;
use rustc_middle::ty::print::{with_crate_prefix, with_no_trimmed_paths, with_no_visible_paths};
use rustc_middle::ty::{self, GenericArgs, GenericArgsRef, Instance, Ty, TyCtxt, TypeVisitableExt, TypingEnv};
use std::collections::HashMap;

#[derive(Clone, Copy, PartialEq, Eq, Hash)]
struct Node<'tcx> {
    did: DefId,
    args: GenericArgsRef<'tcx>,
}

struct Cg<'tcx> {
    tcx: TyCtxt<'tcx>,
    ws: Vec<String>,
    ids: HashMap<Node<'tcx>, usize>,
    nodes: Vec<Node<'tcx>>,
    work: Vec<usize>,
    edges: Vec<(usize, usize, &'static str, usize)>,
    ext_calls: Vec<(usize, String, usize)>,
}

fn args_str<'tcx>(args: GenericArgsRef<'tcx>) -> String {
    fix_crate(with_no_visible_paths!(with_crate_prefix!(with_no_trimmed_paths!(format!("{:?}", args)))))
}

impl<'tcx> Cg<'tcx> {
    fn in_ws(&self, did: DefId) -> bool {
        if did.is_local() {
            return true;
        }
        let n = self.tcx.crate_name(did.krate).to_string();
        self.ws.iter().any(|w| *w == n)
    }

    fn is_mono(args: GenericArgsRef<'tcx>) -> bool {
        !args.has_non_region_param()
    }

    fn node(&mut self, did: DefId, args: GenericArgsRef<'tcx>) -> usize {
        let tcx = self.tcx;
        let args = if Self::is_mono(args) { tcx.erase_and_anonymize_regions(args) } else { GenericArgs::identity_for_item(tcx, did) };
        let n = Node { did, args };
        if let Some(i) = self.ids.get(&n) {
            return *i;
        }
        let i = self.nodes.len();
        self.nodes.push(n);
        self.ids.insert(n, i);
        self.work.push(i);
        i
    }

    fn body_of(&self, did: DefId) -> Option<&'tcx Body<'tcx>> {
        let tcx = self.tcx;
        match tcx.def_kind(did) {
            DefKind::Fn | DefKind::AssocFn | DefKind::Closure => {}
            _ => return None,
        }
        if tcx.is_coroutine(did) {
            return None;
        }
        if !tcx.is_mir_available(did) {
            return None;
        }
        if tcx.is_foreign_item(did) {
            return None;
        }
        Some(tcx.optimized_mir(did))
    }

    // add edges for closures / fn items mentioned in generic arguments (passed to adapters)
    fn fn_types_in(&mut self, from: usize, ty: Ty<'tcx>, line: usize) {
        for ga in ty.walk() {
            if let Some(t) = ga.as_type() {
                match t.kind() {
                    ty::Closure(did, cargs) => {
                        if self.in_ws(*did) {
                            let to = self.node(*did, cargs);
                            self.edges.push((from, to, "closure-arg", line));
                        }
                    }
                    ty::FnDef(did, fargs) => {
                        if self.in_ws(*did) {
                            let to = self.node(*did, fargs);
                            self.edges.push((from, to, "fn-arg", line));
                        }
                    }
                    _ => {}
                }
            }
        }
    }

    fn virtual_targets(&mut self, from: usize, method: DefId, line: usize) {
        let tcx = self.tcx;
        let Some(trait_did) = tcx.trait_of_assoc(method) else { return };
        let impls: Vec<DefId> = tcx.all_impls(trait_did).collect();
        for imp in impls {
            if !self.in_ws(imp) {
                continue;
            }
            let self_ty = tcx.type_of(imp).instantiate_identity().skip_norm_wip();
            let map = tcx.impl_item_implementor_ids(imp);
            if let Some(item) = map.get(&method) {
                let a = GenericArgs::identity_for_item(tcx, *item);
                let to = self.node(*item, a);
                self.edges.push((from, to, "virtual", line));
            } else if tcx.defaultness(method).has_value() {
                // default method instantiated for this implementing type (only when monomorphic)
                let st = tcx.erase_and_anonymize_regions(self_ty);
                if !st.has_non_region_param() && tcx.generics_of(method).count() == 1 {
                    let a = tcx.mk_args(&[st.into()]);
                    let to = self.node(method, a);
                    self.edges.push((from, to, "virtual-default", line));
                } else {
                    let a = GenericArgs::identity_for_item(tcx, method);
                    let to = self.node(method, a);
                    self.edges.push((from, to, "virtual-default", line));
                }
            }
        }
    }

    fn process(&mut self, idx: usize) {
        let tcx = self.tcx;
        let n = self.nodes[idx];
        let Some(body) = self.body_of(n.did) else { return };
        let mono = Self::is_mono(n.args);
        let env = if mono { TypingEnv::fully_monomorphized() } else { TypingEnv::post_analysis(tcx, n.did) };
        let inst = Instance::new_raw(n.did, n.args);
        let subst = |t: Ty<'tcx>| -> Option<Ty<'tcx>> {
            if mono {
                let r = std::panic::catch_unwind(std::panic::AssertUnwindSafe(|| {
                    inst.try_instantiate_mir_and_normalize_erasing_regions(tcx, env, ty::EarlyBinder::bind(t))
                }));
                match r {
                    Ok(Ok(t)) => Some(t),
                    _ => None,
                }
            } else {
                Some(t)
            }
        };
        let sm = tcx.sess.source_map();
        for data in body.basic_blocks.iter() {
            if data.is_cleanup {
                continue;
            }
            for st in data.statements.iter() {
                if let StatementKind::Assign(bx) = &st.kind {
                    if let Rvalue::Cast(kind, op, _) = &bx.1 {
                        if matches!(kind, rustc_middle::mir::CastKind::PointerCoercion(PointerCoercion::ReifyFnPointer(_), _)) {
                            if let Some(t) = subst(op.ty(body, tcx)) {
                                let line = sm.lookup_char_pos(st.source_info.span.source_callsite().lo()).line;
                                self.fn_types_in(idx, t, line);
                            }
                        }
                    }
                }
            }
            let Some(term) = &data.terminator else { continue };
            if let TerminatorKind::Call { func, .. } = &term.kind {
                let line = sm.lookup_char_pos(term.source_info.span.source_callsite().lo()).line;
                let fty = match func {
                    Operand::Constant(c) => c.const_.ty(),
                    o => o.ty(body, tcx),
                };
                let Some(fty) = subst(fty) else { continue };
                let ty::FnDef(cdid, cargs) = fty.kind() else { continue };
                let cargs = if mono {
                    *cargs
                } else {
                    tcx.try_normalize_erasing_regions(env, ty::Unnormalized::new_wip(*cargs)).unwrap_or(*cargs)
                };
                // closures / fn items handed to the callee
                for ga in cargs.iter() {
                    if let Some(t) = ga.as_type() {
                        self.fn_types_in(idx, t, line);
                    }
                }
                let res = std::panic::catch_unwind(std::panic::AssertUnwindSafe(|| Instance::try_resolve(tcx, env, *cdid, cargs)));
                match res {
                    Ok(Ok(Some(ri))) => match ri.def {
                        ty::InstanceKind::Item(rd) => {
                            if self.in_ws(rd) {
                                let to = self.node(rd, ri.args);
                                self.edges.push((idx, to, "call", line));
                            } else {
                                // a call that leaves the workspace (std, bytemuck, ...): recorded by name only
                                let unresolved = tcx.trait_of_assoc(rd).is_some() && rd == *cdid && !tcx.defaultness(rd).has_value();
                                if unresolved && self.in_ws(tcx.trait_of_assoc(rd).unwrap()) {
                                    self.ext_calls.push((idx, format!("unresolved-trait:{}", path_of(tcx, rd)), line));
                                }
                            }
                        }
                        ty::InstanceKind::Virtual(md, _) => {
                            self.virtual_targets(idx, md, line);
                        }
                        ty::InstanceKind::ClosureOnceShim { call_once: _, .. } => {
                            // the closure body itself is attached through fn_types_in above
                        }
                        ty::InstanceKind::FnPtrShim(..) | ty::InstanceKind::ReifyShim(..) => {}
                        _ => {}
                    },
                    _ => {
                        if self.in_ws(*cdid) {
                            // unresolved trait method on a type parameter: A-CB, recorded for evidence
                            self.ext_calls.push((idx, format!("unresolved:{}", path_of(tcx, *cdid)), line));
                        }
                    }
                }
            }
        }
    }
}

// layouts of the type arguments of monomorphic instances of the zero-copy entry points
fn targs_layout<'tcx>(tcx: TyCtxt<'tcx>, n: &Node<'tcx>) -> String {
    if !Cg::is_mono(n.args) {
        return "null".into();
    }
    let Some(name) = tcx.opt_item_name(n.did) else { return "null".into() };
    let name = name.to_string();
    let pats = std::env::var("FV_LAYOUT_FNS").unwrap_or_else(|_| "read_ref_at,read_array,cast_slice,from_bytes,alloc_slice,try_cast_slice_mut,try_cast_slice,try_from_bytes".into());
    // ... and of every generic function of the scratch-memory module (whatever it is called: the carver may be renamed)
    let mods = std::env::var("FV_LAYOUT_MODS").unwrap_or_else(|_| "outline::glyf::memory::".into());
    let in_mod = {
        let p = tcx.def_path_str(n.did);
        mods.split(',').any(|m| !m.is_empty() && p.contains(m))
    };
    if !pats.split(',').any(|p| p == name) && !in_mod {
        return "null".into();
    }
    let mut out: Vec<String> = Vec::new();
    for ga in n.args.iter() {
        if let Some(t) = ga.as_type() {
            let env = TypingEnv::fully_monomorphized();
            let r = std::panic::catch_unwind(std::panic::AssertUnwindSafe(|| tcx.layout_of(env.as_query_input(t))));
            if let Ok(Ok(l)) = r {
                out.push(format!("[{},{},{}]", s(&crate::mirdump::ty_str(t)), l.size.bytes(), l.align.abi.bytes()));
            }
        }
    }
    format!("[{}]", out.join(","))
}

pub fn dump_callgraph<'tcx>(tcx: TyCtxt<'tcx>, krate: &str, out: &mut Vec<u8>) {
    let ws: Vec<String> = std::env::var("FV_CRATES").unwrap_or_default().split(',').map(|x| x.to_string()).collect();
    let mut cg = Cg { tcx, ws, ids: HashMap::new(), nodes: Vec::new(), work: Vec::new(), edges: Vec::new(), ext_calls: Vec::new() };
    let mut keys: Vec<_> = tcx.mir_keys(()).iter().copied().collect();
    keys.sort_by_key(|k| tcx.def_path_hash(k.to_def_id()));
    for ldid in keys {
        let did = ldid.to_def_id();
        match tcx.def_kind(did) {
            DefKind::Fn | DefKind::AssocFn => {}
            _ => continue,
        }
        let a = GenericArgs::identity_for_item(tcx, did);
        cg.node(did, a);
    }
    while let Some(i) = cg.work.pop() {
        cg.process(i);
    }
    let mut push = |line: String| {
        out.extend_from_slice(line.as_bytes());
        out.push(b'\n');
    };
    for (i, n) in cg.nodes.iter().enumerate() {
        let l = loc_of(tcx, tcx.def_span(n.did));
        push(obj(&[
            ("k", "\"cgnode\"".into()),
            ("crate", s(krate)),
            ("id", i.to_string()),
            ("path", s(&path_of(tcx, n.did))),
            ("args", s(&args_str(n.args))),
            ("mono", b(Cg::is_mono(n.args))),
            ("local", b(n.did.is_local())),
            ("has_body", b(cg.body_of(n.did).is_some())),
            ("file", s(&l.file)),
            ("line", l.line.to_string()),
            ("targs", targs_layout(tcx, n)),
        ]));
    }
    let mut e = String::with_capacity(cg.edges.len() * 24);
    e.push_str("{\"k\":\"cgedges\",\"crate\":");
    e.push_str(&s(krate));
    e.push_str(",\"edges\":[");
    for (i, (f, t, k, line)) in cg.edges.iter().enumerate() {
        if i > 0 {
            e.push(',');
        }
        e.push_str(&format!("[{},{},\"{}\",{}]", f, t, k, line));
    }
    e.push_str("],\"unresolved\":[");
    for (i, (f, what, line)) in cg.ext_calls.iter().enumerate() {
        if i > 0 {
            e.push(',');
        }
        e.push_str(&format!("[{},{},{}]", f, s(what), line));
    }
    e.push_str("]}");
    push(e);
}
