use rustc_middle::ty::TyCtxt;
pub fn dump_callgraph<'tcx>(_tcx: TyCtxt<'tcx>, _krate: &str, _out: &mut Vec<u8>) {}
