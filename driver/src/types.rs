// Type-level facts: ADT shapes, statics, impls (with const-evaluated assoc consts), layouts,
// unsafe blocks/impls seen in HIR.
use crate::json::{arr, b, obj, opt_s, s};
use crate::mirdump::{loc_of, path_of, ty_str};
use rustc_hir::def::DefKind;
use rustc_middle::ty::{self, Ty, TyCtxt, TypeVisitableExt, TypingEnv};

fn layout_json<'tcx>(tcx: TyCtxt<'tcx>, ty: Ty<'tcx>) -> Option<(u64, u64)> {
    let env = TypingEnv::fully_monomorphized();
    if ty.has_non_region_param() || ty.has_non_region_infer() {
        return None;
    }
    let r = std::panic::catch_unwind(std::panic::AssertUnwindSafe(|| tcx.layout_of(env.as_query_input(ty))));
    match r {
        Ok(Ok(l)) => Some((l.size.bytes(), l.align.abi.bytes())),
        _ => None,
    }
}

fn only_lifetime_generics(tcx: TyCtxt<'_>, did: rustc_hir::def_id::DefId) -> bool {
    let g = tcx.generics_of(did);
    g.own_params.iter().all(|p| matches!(p.kind, ty::GenericParamDefKind::Lifetime)) && g.parent.is_none()
}

pub fn dump_types<'tcx>(tcx: TyCtxt<'tcx>, krate: &str, out: &mut Vec<u8>) {
    let mut push = |line: String| {
        out.extend_from_slice(line.as_bytes());
        out.push(b'\n');
    };
    for ldid in tcx.hir_crate_items(()).definitions() {
        let did = ldid.to_def_id();
        let dk = tcx.def_kind(did);
        match dk {
            DefKind::Struct | DefKind::Enum | DefKind::Union => {
                let adt = tcx.adt_def(did);
                let l = loc_of(tcx, tcx.def_span(did));
                let mut variants: Vec<String> = Vec::new();
                for v in adt.variants().iter() {
                    let mut fields: Vec<String> = Vec::new();
                    for f in v.fields.iter() {
                        let fty = tcx.type_of(f.did).instantiate_identity().skip_norm_wip();
                        let vis = if f.vis.is_public() { "pub" } else { "restricted" };
                        fields.push(format!("[{},{},\"{}\"]", s(&f.name.to_string()), s(&ty_str(fty)), vis));
                    }
                    variants.push(format!("[{},{}]", s(&v.name.to_string()), arr(&fields)));
                }
                let repr = adt.repr();
                let mut discrs: Vec<String> = Vec::new();
                if adt.is_enum() {
                    let r = std::panic::catch_unwind(std::panic::AssertUnwindSafe(|| {
                        adt.discriminants(tcx).map(|(_, d)| format!("\"{}\"", d.val)).collect::<Vec<String>>()
                    }));
                    if let Ok(v) = r {
                        discrs = v;
                    }
                }
                let mut lay = "null".to_string();
                if only_lifetime_generics(tcx, did) {
                    let t = tcx.type_of(did).instantiate_identity().skip_norm_wip();
                    let t = tcx.erase_and_anonymize_regions(t);
                    if let Some((sz, al)) = layout_json(tcx, t) {
                        lay = format!("[{},{}]", sz, al);
                    }
                }
                let vis = if tcx.visibility(did).is_public() { "pub" } else { "restricted" };
                // nameable from outside the crate (`pub` all the way from the crate root, or re-exported)?
                let reachable = did.as_local().map(|ld| tcx.effective_visibilities(()).is_reachable(ld)).unwrap_or(true);
                push(obj(&[
                    ("k", "\"adt\"".into()),
                    ("crate", s(krate)),
                    ("path", s(&path_of(tcx, did))),
                    ("adt_kind", s(&format!("{:?}", dk))),
                    ("file", s(&l.file)),
                    ("line", l.line.to_string()),
                    ("vis", s(vis)),
                    ("reachable", b(reachable)),
                    ("repr_c", b(repr.c())),
                    ("repr_packed", b(repr.packed())),
                    ("repr_transparent", b(repr.transparent())),
                    ("layout", lay),
                    ("variants", arr(&variants)),
                    ("discrs", arr(&discrs)),
                ]));
            }
            DefKind::TyAlias => {
                // `pub type X<'a> = Y<'a, u16>;` instantiates Y's generic methods without any call in the crate
                let t = tcx.type_of(did).instantiate_identity().skip_norm_wip();
                let l = loc_of(tcx, tcx.def_span(did));
                push(obj(&[
                    ("k", "\"alias\"".into()),
                    ("crate", s(krate)),
                    ("path", s(&path_of(tcx, did))),
                    ("ty", s(&ty_str(t))),
                    ("file", s(&l.file)),
                    ("line", l.line.to_string()),
                ]));
            }
            DefKind::Trait => {
                // can the trait be implemented outside the crate?  (closed world for return summaries of its methods)
                let reachable = did.as_local().map(|ld| tcx.effective_visibilities(()).is_reachable(ld)).unwrap_or(true);
                let l = loc_of(tcx, tcx.def_span(did));
                push(obj(&[
                    ("k", "\"trait\"".into()),
                    ("crate", s(krate)),
                    ("path", s(&path_of(tcx, did))),
                    ("reachable", b(reachable)),
                    ("file", s(&l.file)),
                    ("line", l.line.to_string()),
                ]));
            }
            DefKind::Static { mutability, .. } => {
                let t = tcx.type_of(did).instantiate_identity().skip_norm_wip();
                let env = TypingEnv::fully_monomorphized();
                let freeze = t.is_freeze(tcx, env);
                let l = loc_of(tcx, tcx.def_span(did));
                push(obj(&[
                    ("k", "\"static\"".into()),
                    ("crate", s(krate)),
                    ("path", s(&path_of(tcx, did))),
                    ("ty", s(&ty_str(t))),
                    ("mutable", b(matches!(mutability, rustc_hir::Mutability::Mut))),
                    ("freeze", b(freeze)),
                    ("file", s(&l.file)),
                    ("line", l.line.to_string()),
                    ("exp", b(l.exp)),
                    ("mac", opt_s(l.mac.as_deref())),
                ]));
            }
            DefKind::Impl { of_trait } => {
                let self_ty = tcx.type_of(did).instantiate_identity().skip_norm_wip();
                let l = loc_of(tcx, tcx.def_span(did));
                let mut tr = "null".to_string();
                let mut unsafe_impl = false;
                if of_trait {
                    if let Some(trf) = tcx.impl_opt_trait_ref(did) {
                        let trf = trf.instantiate_identity().skip_norm_wip();
                        tr = s(&path_of(tcx, trf.def_id));
                        unsafe_impl = tcx.trait_def(trf.def_id).safety.is_unsafe();
                    }
                }
                // associated consts, const-evaluated when the impl is monomorphic
                let mut consts: Vec<String> = Vec::new();
                let mut items: Vec<String> = Vec::new();
                let mono = !self_ty.has_non_region_param();
                for it in tcx.associated_items(did).in_definition_order() {
                    let Some(iname) = it.opt_name() else { continue };
                    let iname = iname.to_string();
                    items.push(s(&iname));
                    if matches!(it.kind, ty::AssocKind::Const { .. }) && mono {
                        let r = std::panic::catch_unwind(std::panic::AssertUnwindSafe(|| tcx.const_eval_poly(it.def_id)));
                        if let Ok(Ok(v)) = r {
                            if let Some(si) = v.try_to_scalar_int() {
                                let sz = si.size();
                                consts.push(format!("[{},\"{}\"]", s(&iname), si.to_uint(sz)));
                            }
                        }
                    }
                }
                let mut lay = "null".to_string();
                if mono {
                    let t = tcx.erase_and_anonymize_regions(self_ty);
                    if let Some((sz, al)) = layout_json(tcx, t) {
                        lay = format!("[{},{}]", sz, al);
                    }
                }
                push(obj(&[
                    ("k", "\"impl\"".into()),
                    ("crate", s(krate)),
                    ("trait", tr),
                    ("self_ty", s(&ty_str(self_ty))),
                    ("mono", b(mono)),
                    ("unsafe_impl", b(unsafe_impl)),
                    ("derived", b(tcx.is_automatically_derived(did))),
                    ("file", s(&l.file)),
                    ("line", l.line.to_string()),
                    ("exp", b(l.exp)),
                    ("mac", opt_s(l.mac.as_deref())),
                    ("consts", arr(&consts)),
                    ("items", arr(&items)),
                    ("layout", lay),
                ]));
            }
            _ => {}
        }
    }
    // unsafe blocks in HIR bodies (user-written only)
    for ldid in tcx.hir_body_owners() {
        let body = tcx.hir_body_owned_by(ldid);
        let mut v = UnsafeFinder { tcx, found: Vec::new() };
        rustc_hir::intravisit::Visitor::visit_body(&mut v, body);
        for sp in v.found {
            let l = loc_of(tcx, sp);
            push(obj(&[
                ("k", "\"unsafe_block\"".into()),
                ("crate", s(krate)),
                ("owner", s(&path_of(tcx, ldid.to_def_id()))),
                ("file", s(&l.file)),
                ("line", l.line.to_string()),
                ("exp", b(l.exp)),
                ("mac", opt_s(l.mac.as_deref())),
            ]));
        }
    }
}

struct UnsafeFinder<'tcx> {
    #[allow(dead_code)]
    tcx: TyCtxt<'tcx>,
    found: Vec<rustc_span::Span>,
}

impl<'tcx> rustc_hir::intravisit::Visitor<'tcx> for UnsafeFinder<'tcx> {
    fn visit_block(&mut self, b: &'tcx rustc_hir::Block<'tcx>) {
        if let rustc_hir::BlockCheckMode::UnsafeBlock(src) = b.rules {
            if matches!(src, rustc_hir::UnsafeSource::UserProvided) {
                self.found.push(b.span);
            }
        }
        rustc_hir::intravisit::walk_block(self, b);
    }
}
