// Dump every MIR body of the local crate in a compact JSON form (see fvlib/mir.py).
use crate::json::{arr, b, obj, opt_s, s};
use rustc_hir::def::DefKind;
use rustc_hir::def_id::{DefId, LocalDefId};
use rustc_middle::mir::*;
use rustc_middle::ty::print::{with_crate_prefix, with_no_trimmed_paths, with_no_visible_paths};
use rustc_middle::ty::{self, Instance, Ty, TyCtxt, TypingEnv};
use rustc_span::Span;

pub static CRATE_NAME: std::sync::OnceLock<String> = std::sync::OnceLock::new();

// Local paths are printed as `crate::a::b` and rewritten to `<crate name>::a::b`, so that a
// type or function has the same name whichever crate it is observed from.
pub fn fix_crate(p: String) -> String {
    if p.contains("crate::") {
        let name = CRATE_NAME.get().map(|s| s.as_str()).unwrap_or("crate");
        let mut out = String::with_capacity(p.len() + 16);
        let bytes = p.as_bytes();
        let mut i = 0;
        while i < bytes.len() {
            if p[i..].starts_with("crate::")
                && (i == 0 || !(bytes[i - 1].is_ascii_alphanumeric() || bytes[i - 1] == b'_'))
            {
                out.push_str(name);
                out.push_str("::");
                i += 7;
            } else {
                let c = p[i..].chars().next().unwrap();
                out.push(c);
                i += c.len_utf8();
            }
        }
        out
    } else {
        p
    }
}

pub fn path_of(tcx: TyCtxt<'_>, did: DefId) -> String {
    fix_crate(with_no_visible_paths!(with_crate_prefix!(with_no_trimmed_paths!(tcx.def_path_str(did)))))
}

pub fn ty_str<'tcx>(ty: Ty<'tcx>) -> String {
    fix_crate(with_no_visible_paths!(with_crate_prefix!(with_no_trimmed_paths!(ty.to_string()))))
}

pub struct Loc {
    pub file: String,
    pub line: usize,
    pub col: usize,
    pub exp: bool,
    pub mac: Option<String>,
    pub desugar: Option<String>,
    pub outer_mac: Option<String>,
}

pub fn loc_of(tcx: TyCtxt<'_>, span: Span) -> Loc {
    let exp = span.from_expansion();
    let mut mac = None;
    let mut desugar = None;
    if exp {
        let ed = span.ctxt().outer_expn_data();
        match ed.kind {
            rustc_span::ExpnKind::Macro(_, name) => mac = Some(name.to_string()),
            rustc_span::ExpnKind::Desugaring(k) => desugar = Some(format!("{:?}", k)),
            _ => {}
        }
    }
    // the macro the user wrote (outermost expansion), e.g. `debug_assert` for the panic inside `debug_assert!(..)`
    let mut outer_mac = None;
    if exp {
        for ed in span.macro_backtrace() {
            if let rustc_span::ExpnKind::Macro(_, name) = ed.kind {
                outer_mac = Some(name.to_string());
            }
        }
    }
    let cs = span.source_callsite();
    let sm = tcx.sess.source_map();
    let lo = sm.lookup_char_pos(cs.lo());
    let file = match &lo.file.name {
        rustc_span::FileName::Real(r) => match r.local_path() {
            Some(p) => p.to_string_lossy().to_string(),
            None => format!("{:?}", r),
        },
        other => format!("{:?}", other),
    };
    Loc { file, line: lo.line, col: lo.col.0 + 1, exp, mac, desugar, outer_mac }
}

fn loc_json(l: &Loc) -> String {
    // [line, col, exp(0/1/2), macro-or-desugar name]
    let kind = if !l.exp {
        0
    } else if l.mac.is_some() {
        1
    } else {
        2
    };
    let name = l.mac.as_deref().or(l.desugar.as_deref());
    format!("[{},{},{},{},{}]", l.line, l.col, kind, opt_s(name), opt_s(l.outer_mac.as_deref()))
}

struct Cx<'tcx> {
    tcx: TyCtxt<'tcx>,
    body: &'tcx Body<'tcx>,
    env: TypingEnv<'tcx>,
    def: DefId,
}

impl<'tcx> Cx<'tcx> {
    fn place(&self, p: &Place<'tcx>) -> String {
        let mut projs: Vec<String> = Vec::new();
        let mut pty = rustc_middle::mir::PlaceTy::from_ty(self.body.local_decls[p.local].ty);
        for elem in p.projection.iter() {
            let j = match elem {
                ProjectionElem::Deref => "\"*\"".to_string(),
                ProjectionElem::Field(f, _) => {
                    let mut name = None;
                    let mut adt_path: Option<String> = None;
                    if let ty::Adt(adt, _) = pty.ty.kind() {
                        adt_path = Some(path_of(self.tcx, adt.did()));
                        let vi = pty.variant_index.unwrap_or(rustc_abi::FIRST_VARIANT);
                        if adt.is_enum() || adt.is_struct() || adt.is_union() {
                            if let Some(v) = adt.variants().get(vi) {
                                if let Some(fd) = v.fields.get(f) {
                                    name = Some(fd.name.to_string());
                                }
                            }
                        }
                    }
                    format!("[\"f\",{},{},{}]", f.index(), opt_s(name.as_deref()), opt_s(adt_path.as_deref()))
                }
                ProjectionElem::Index(l) => format!("[\"i\",{}]", l.index()),
                ProjectionElem::ConstantIndex { offset, min_length, from_end } => {
                    format!("[\"c\",{},{},{}]", offset, min_length, b(from_end))
                }
                ProjectionElem::Subslice { from, to, from_end } => {
                    format!("[\"s\",{},{},{}]", from, to, b(from_end))
                }
                ProjectionElem::Downcast(name, vi) => {
                    let n = name.map(|x| x.to_string());
                    format!("[\"d\",{},{}]", vi.index(), opt_s(n.as_deref()))
                }
                _ => "[\"o\"]".to_string(),
            };
            projs.push(j);
            pty = pty.projection_ty(self.tcx, elem);
        }
        format!("[{},{}]", p.local.index(), arr(&projs))
    }

    fn place_ty(&self, p: &Place<'tcx>) -> Ty<'tcx> {
        p.ty(self.body, self.tcx).ty
    }

    fn constant(&self, c: &ConstOperand<'tcx>) -> String {
        let ty = c.const_.ty();
        let tys = ty_str(ty);
        if let ty::FnDef(did, args) = ty.kind() {
            let (p, a, _k, _t) = self.resolve(*did, args);
            return format!("[\"k\",{},[\"fn\",{},{}]]", s(&tys), s(&p), s(&a));
        }
        if let Some(sdid) = c.check_static_ptr(self.tcx) {
            return format!("[\"k\",{},null,{}]", s(&tys), s(&format!("static:{}", path_of(self.tcx, sdid))));
        }
        let mut val = "null".to_string();
        if ty.is_integral() || ty.is_bool() || ty.is_char() {
            if let Some(si) = c.const_.try_eval_scalar_int(self.tcx, self.env) {
                let size = si.size();
                if ty.is_signed() {
                    val = format!("\"{}\"", si.to_int(size));
                } else {
                    val = format!("\"{}\"", si.to_uint(size));
                }
            }
        }
        if val == "null" {
            // unevaluated / parameter constants keep their printed form (e.g. a const generic `BF`)
            let repr = fix_crate(with_no_visible_paths!(with_crate_prefix!(with_no_trimmed_paths!(format!("{}", c.const_)))));
            return format!("[\"k\",{},null,{}]", s(&tys), s(&repr));
        }
        format!("[\"k\",{},{}]", s(&tys), val)
    }

    fn operand(&self, o: &Operand<'tcx>) -> String {
        match o {
            Operand::Copy(p) => format!("[\"c\",{}]", self.place(p)),
            Operand::Move(p) => format!("[\"m\",{}]", self.place(p)),
            Operand::Constant(c) => self.constant(c),
            #[allow(unreachable_patterns)]
            _ => "[\"k\",\"?\",null]".to_string(),
        }
    }

    fn operand_ty(&self, o: &Operand<'tcx>) -> Ty<'tcx> {
        o.ty(self.body, self.tcx)
    }

    fn rvalue(&self, r: &Rvalue<'tcx>) -> String {
        match r {
            Rvalue::Use(o, ..) => format!("[\"use\",{}]", self.operand(o)),
            Rvalue::Ref(_, bk, p) => {
                let k = match bk {
                    BorrowKind::Shared => "shared",
                    BorrowKind::Mut { .. } => "mut",
                    _ => "fake",
                };
                format!("[\"ref\",\"{}\",{}]", k, self.place(p))
            }
            Rvalue::RawPtr(k, p) => format!("[\"raw\",{},{}]", s(&format!("{:?}", k)), self.place(p)),
            Rvalue::BinaryOp(op, ab) => {
                let (a, bb) = &**ab;
                format!(
                    "[\"bin\",\"{:?}\",{},{},{}]",
                    op,
                    self.operand(a),
                    self.operand(bb),
                    s(&ty_str(self.operand_ty(a)))
                )
            }
            Rvalue::UnaryOp(op, a) => format!(
                "[\"un\",\"{:?}\",{},{}]",
                op,
                self.operand(a),
                s(&ty_str(self.operand_ty(a)))
            ),
            Rvalue::Cast(k, o, t) => format!(
                "[\"cast\",{},{},{},{}]",
                s(&format!("{:?}", k)),
                self.operand(o),
                s(&ty_str(*t)),
                s(&ty_str(self.operand_ty(o)))
            ),
            Rvalue::Aggregate(k, ops) => {
                let kd = match &**k {
                    AggregateKind::Array(_) => "[\"array\"]".to_string(),
                    AggregateKind::Tuple => "[\"tuple\"]".to_string(),
                    AggregateKind::Adt(did, vi, _, _, _) => {
                        let adt = self.tcx.adt_def(*did);
                        let vname = adt.variant(*vi).name.to_string();
                        format!("[\"adt\",{},{},{}]", s(&path_of(self.tcx, *did)), vi.index(), s(&vname))
                    }
                    AggregateKind::Closure(did, _) => format!("[\"closure\",{}]", s(&path_of(self.tcx, *did))),
                    _ => "[\"other\"]".to_string(),
                };
                let os: Vec<String> = ops.iter().map(|o| self.operand(o)).collect();
                format!("[\"agg\",{},{}]", kd, arr(&os))
            }
            Rvalue::Discriminant(p) => format!("[\"disc\",{},{}]", self.place(p), s(&ty_str(self.place_ty(p)))),
            Rvalue::Repeat(o, _) => format!("[\"repeat\",{}]", self.operand(o)),
            Rvalue::CopyForDeref(p) => format!("[\"use\",[\"c\",{}]]", self.place(p)),
            other => format!("[\"other\",{}]", s(&format!("{:?}", other))),
        }
    }

    // returns (callee path, generic args string, kind, trait-method path if resolved through a trait)
    fn resolve(&self, did: DefId, args: ty::GenericArgsRef<'tcx>) -> (String, String, &'static str, Option<String>) {
        let tcx = self.tcx;
        let orig = path_of(tcx, did);
        let is_trait_item = tcx.trait_of_assoc(did).is_some();
        let nargs = tcx.try_normalize_erasing_regions(self.env, ty::Unnormalized::new_wip(args)).unwrap_or(args);
        let res = std::panic::catch_unwind(std::panic::AssertUnwindSafe(|| {
            Instance::try_resolve(tcx, self.env, did, nargs)
        }));
        match res {
            Ok(Ok(Some(inst))) => {
                let rd = inst.def_id();
                let kind = match inst.def {
                    ty::InstanceKind::Item(_) => "item",
                    ty::InstanceKind::Virtual(..) => "virtual",
                    ty::InstanceKind::Intrinsic(_) => "intrinsic",
                    ty::InstanceKind::ClosureOnceShim { .. } => "closure_shim",
                    ty::InstanceKind::FnPtrShim(..) => "fnptr_shim",
                    ty::InstanceKind::DropGlue(..) => "drop_glue",
                    ty::InstanceKind::CloneShim(..) => "clone_shim",
                    ty::InstanceKind::ReifyShim(..) => "reify_shim",
                    _ => "shim",
                };
                let p = path_of(tcx, rd);
                let a = fix_crate(with_no_visible_paths!(with_crate_prefix!(with_no_trimmed_paths!(format!("{:?}", inst.args)))));
                let t = if is_trait_item { Some(orig) } else { None };
                // a trait item that resolved to itself (default method or still generic)
                let kind = if is_trait_item && rd == did && !tcx.defaultness(did).has_value() {
                    "trait_unresolved"
                } else {
                    kind
                };
                (p, a, kind, t)
            }
            _ => {
                let a = fix_crate(with_no_visible_paths!(with_crate_prefix!(with_no_trimmed_paths!(format!("{:?}", nargs)))));
                (orig.clone(), a, if is_trait_item { "trait_unresolved" } else { "unresolved" }, if is_trait_item { Some(orig) } else { None })
            }
        }
    }

    fn terminator(&self, t: &Terminator<'tcx>) -> String {
        let l = loc_json(&loc_of(self.tcx, t.source_info.span));
        let unwind_bb = |u: &UnwindAction| match u {
            UnwindAction::Cleanup(bb) => format!("{}", bb.index()),
            _ => "null".to_string(),
        };
        match &t.kind {
            TerminatorKind::Goto { target } => format!("[\"goto\",{}]", target.index()),
            TerminatorKind::SwitchInt { discr, targets } => {
                let ts: Vec<String> = targets.iter().map(|(v, bb)| format!("[\"{}\",{}]", v, bb.index())).collect();
                format!(
                    "[\"switch\",{},{},{},{},{}]",
                    self.operand(discr),
                    arr(&ts),
                    targets.otherwise().index(),
                    s(&ty_str(self.operand_ty(discr))),
                    l
                )
            }
            TerminatorKind::Return => format!("[\"ret\",{}]", l),
            TerminatorKind::Unreachable => "[\"unreachable\"]".to_string(),
            TerminatorKind::UnwindResume => "[\"resume\"]".to_string(),
            TerminatorKind::Drop { place, target, unwind, .. } => {
                format!("[\"drop\",{},{},{},{}]", self.place(place), target.index(), unwind_bb(unwind), s(&ty_str(self.place_ty(place))))
            }
            TerminatorKind::Call { func, args, destination, target, unwind, fn_span, .. } => {
                let fl = loc_json(&loc_of(self.tcx, *fn_span));
                let (callee, cargs, kind, tr) = match func.const_fn_def() {
                    Some((did, ga)) => self.resolve(did, ga),
                    None => (format!("<fnptr:{}>", ty_str(self.operand_ty(func))), String::new(), "fnptr", None),
                };
                let fop = match func {
                    Operand::Constant(_) => "null".to_string(),
                    o => self.operand(o),
                };
                let as_: Vec<String> = args.iter().map(|a| self.operand(&a.node)).collect();
                let atys: Vec<String> = args.iter().map(|a| s(&ty_str(self.operand_ty(&a.node)))).collect();
                obj(&[
                    ("t", "\"call\"".into()),
                    ("callee", s(&callee)),
                    ("cargs", s(&cargs)),
                    ("ck", s(kind)),
                    ("trait", opt_s(tr.as_deref())),
                    ("fop", fop),
                    ("args", arr(&as_)),
                    ("atys", arr(&atys)),
                    ("dest", self.place(destination)),
                    ("dty", s(&ty_str(self.place_ty(destination)))),
                    ("target", target.map(|b| b.index().to_string()).unwrap_or("null".into())),
                    ("unwind", unwind_bb(unwind)),
                    ("loc", l),
                    ("floc", fl),
                ])
            }
            TerminatorKind::Assert { cond, expected, msg, target, unwind } => {
                let (kind, ops): (String, Vec<String>) = match &**msg {
                    AssertKind::BoundsCheck { len, index } => ("bounds".into(), vec![self.operand(len), self.operand(index)]),
                    AssertKind::Overflow(op, a, bb) => (format!("overflow:{:?}", op), vec![self.operand(a), self.operand(bb)]),
                    AssertKind::OverflowNeg(a) => ("overflow_neg".into(), vec![self.operand(a)]),
                    AssertKind::DivisionByZero(a) => ("div_zero".into(), vec![self.operand(a)]),
                    AssertKind::RemainderByZero(a) => ("rem_zero".into(), vec![self.operand(a)]),
                    other => (format!("other:{:?}", std::mem::discriminant(other)), vec![]),
                };
                format!(
                    "[\"assert\",{},{},{},{},{},{},{}]",
                    self.operand(cond),
                    b(*expected),
                    s(&kind),
                    arr(&ops),
                    target.index(),
                    unwind_bb(unwind),
                    l
                )
            }
            other => format!("[\"other\",{}]", s(&format!("{:?}", std::mem::discriminant(other)))),
        }
    }
}

fn body_json<'tcx>(tcx: TyCtxt<'tcx>, krate: &str, ldid: LocalDefId, kind: &str, body: &'tcx Body<'tcx>, promoted: Option<usize>) -> String {
    let did = ldid.to_def_id();
    let env = TypingEnv::post_analysis(tcx, did);
    let cx = Cx { tcx, body, env, def: did };
    let _ = cx.def;
    let l = loc_of(tcx, body.span);
    let sm = tcx.sess.source_map();
    let hi = sm.lookup_char_pos(body.span.source_callsite().hi()).line;
    let dk = tcx.def_kind(did);
    let vis = match dk {
        DefKind::Fn | DefKind::AssocFn => {
            let v = tcx.visibility(did);
            if v.is_public() { "pub" } else { "restricted" }
        }
        _ => "na",
    };
    // enclosing impl / trait
    let mut impl_of = "null".to_string();
    let mut impl_trait = "null".to_string();
    let mut in_trait = "null".to_string();
    let mut automatically_derived = false;
    if matches!(dk, DefKind::AssocFn | DefKind::AssocConst { .. }) {
        let parent = tcx.parent(did);
        match tcx.def_kind(parent) {
            DefKind::Impl { .. } => {
                impl_of = s(&ty_str(tcx.type_of(parent).instantiate_identity().skip_norm_wip()));
                if let Some(tr) = tcx.impl_opt_trait_ref(parent) {
                    let tr = tr.instantiate_identity().skip_norm_wip();
                    impl_trait = s(&path_of(tcx, tr.def_id));
                }
                automatically_derived = tcx.is_automatically_derived(parent);
            }
            DefKind::Trait => in_trait = s(&path_of(tcx, parent)),
            _ => {}
        }
    }
    let mut locals: Vec<String> = Vec::new();
    for (_i, d) in body.local_decls.iter_enumerated() {
        let m = matches!(d.mutability, Mutability::Mut);
        locals.push(format!("[{},{}]", s(&ty_str(d.ty)), b(m)));
    }
    let mut dbg: Vec<String> = Vec::new();
    for v in body.var_debug_info.iter() {
        if let VarDebugInfoContents::Place(p) = &v.value {
            dbg.push(format!("[{},{}]", s(&v.name.to_string()), cx.place(p)));
        }
    }
    let mut blocks: Vec<String> = Vec::new();
    for (_bb, data) in body.basic_blocks.iter_enumerated() {
        let mut stmts: Vec<String> = Vec::new();
        for st in data.statements.iter() {
            match &st.kind {
                StatementKind::Assign(bx) => {
                    let (p, r) = &**bx;
                    let l = loc_of(tcx, st.source_info.span);
                    stmts.push(format!("[\"A\",{},{},{}]", cx.place(p), cx.rvalue(r), loc_json(&l)));
                }
                StatementKind::SetDiscriminant { place, variant_index } => {
                    let l = loc_of(tcx, st.source_info.span);
                    stmts.push(format!("[\"D\",{},{},{}]", cx.place(place), variant_index.index(), loc_json(&l)));
                }
                _ => {}
            }
        }
        let term = match &data.terminator {
            Some(t) => cx.terminator(t),
            None => "[\"none\"]".to_string(),
        };
        blocks.push(format!("{{\"s\":{},\"t\":{},\"c\":{}}}", arr(&stmts), term, b(data.is_cleanup)));
    }
    let generics = tcx.generics_of(did);
    let mut gparams: Vec<String> = Vec::new();
    let mut g = Some(generics);
    while let Some(gg) = g {
        for p in gg.own_params.iter() {
            let k = match p.kind {
                ty::GenericParamDefKind::Lifetime => "lt",
                ty::GenericParamDefKind::Type { .. } => "ty",
                ty::GenericParamDefKind::Const { .. } => "const",
            };
            gparams.push(format!("[{},\"{}\"]", s(&p.name.to_string()), k));
        }
        g = gg.parent.map(|p| tcx.generics_of(p));
    }
    let sig_inputs = if matches!(dk, DefKind::Fn | DefKind::AssocFn) {
        let sig = tcx.fn_sig(did).instantiate_identity().skip_norm_wip().skip_binder();
        let v: Vec<String> = sig.inputs().iter().map(|t| s(&ty_str(*t))).collect();
        format!("{{\"in\":{},\"out\":{}}}", arr(&v), s(&ty_str(sig.output())))
    } else {
        "null".to_string()
    };
    obj(&[
        ("k", "\"body\"".into()),
        ("crate", s(krate)),
        ("path", s(&match promoted { Some(i) => format!("{}::promoted[{}]", path_of(tcx, did), i), None => path_of(tcx, did) })),
        ("kind", s(kind)),
        ("dk", s(&format!("{:?}", dk))),
        ("file", s(&l.file)),
        ("lo", l.line.to_string()),
        ("hi", hi.to_string()),
        ("exp", b(l.exp)),
        ("mac", opt_s(l.mac.as_deref())),
        ("vis", s(vis)),
        ("impl_of", impl_of),
        ("impl_trait", impl_trait),
        ("in_trait", in_trait),
        ("derived", b(automatically_derived)),
        ("argc", body.arg_count.to_string()),
        ("sig", sig_inputs),
        ("generics", arr(&gparams)),
        ("locals", arr(&locals)),
        ("dbg", arr(&dbg)),
        ("blocks", arr(&blocks)),
    ])
}

pub fn dump_crate<'tcx>(tcx: TyCtxt<'tcx>, krate: &str, out: &mut Vec<u8>) {
    // crate-level attributes (forbid(unsafe_code) etc.)
    let mut attrs: Vec<String> = Vec::new();
    for (lint, level) in [("unsafe_code", 0)] {
        let _ = (lint, level);
    }
    let hir_attrs = tcx.hir_krate_attrs();
    for a in hir_attrs.iter() {
        attrs.push(s(&format!("{:?}", a)));
    }
    let head = obj(&[
        ("k", "\"crate\"".into()),
        ("crate", s(krate)),
        ("attrs", arr(&attrs)),
        ("features", s(&std::env::var("CARGO_CFG_FEATURE").unwrap_or_default())),
    ]);
    out.extend_from_slice(head.as_bytes());
    out.push(b'\n');

    let mut keys: Vec<LocalDefId> = tcx.mir_keys(()).iter().copied().collect();
    keys.sort_by_key(|k| tcx.def_path_hash(k.to_def_id()));
    for ldid in keys {
        let did = ldid.to_def_id();
        let dk = tcx.def_kind(did);
        let (kind, body): (&str, &Body<'_>) = match dk {
            DefKind::Fn | DefKind::AssocFn => ("fn", tcx.optimized_mir(did)),
            DefKind::Closure => {
                if tcx.is_coroutine(did) {
                    continue;
                }
                ("closure", tcx.optimized_mir(did))
            }
            DefKind::Const { .. } | DefKind::AssocConst { .. } | DefKind::Static { .. } | DefKind::AnonConst | DefKind::InlineConst => {
                ("const", tcx.mir_for_ctfe(did))
            }
            DefKind::Ctor(..) => continue,
            _ => continue,
        };
        let line = body_json(tcx, krate, ldid, kind, body, None);
        out.extend_from_slice(line.as_bytes());
        out.push(b'\n');
        // promoted constants of functions and closures (`&(0..=6)`, `&[1, 2]` ...): small bodies that build the value
        if kind == "fn" || kind == "closure" {
            let proms = tcx.promoted_mir(did);
            for (i, pb) in proms.iter_enumerated() {
                let line = body_json(tcx, krate, ldid, "promoted", pb, Some(i.as_usize()));
                out.extend_from_slice(line.as_bytes());
                out.push(b'\n');
            }
        }
    }
}
