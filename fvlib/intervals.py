"""Interval analysis with guard refinement over one MIR body (no values from input are ever computed: every
integer is abstracted by a range derived from its type, constants, arithmetic and the branch conditions that
dominate it).  Used to *discharge* panic-capable sites inside declared zones; a site it cannot discharge is
reported, never silently accepted.

Abstract values are attached to *terms*:
  int l                    the MIR local _l (flow sensitive, killed on assignment)
  ('P', root, path)        the integer stored at a memory place: root local + path of '*', ('f', i), ('d', v)
                           (field / deref / enum-payload projections only; killed when an overlapping place is written,
                           mutably borrowed, or handed to a call by `&mut`)
  ('L', root, path)        the length of the slice / Vec / array at that place
Facts: an interval per term, `<` / `<=` relations between terms, "local is a copy of term", comparison results held
in bool locals, overflow tuples, and counting-range iterators (`a..b`).  Loop heads are widened per bound to the next
threshold (type bounds, powers of two, constants of the function), then to the type range.
"""
import re

from .mir import Term, op_place, op_local, op_const

INT_RE = re.compile(r"^(u|i)(8|16|32|64|128|size)$")
INF = float("inf")
ISIZE_MAX = (1 << 63) - 1

# integer-like newtypes of font-types: the integer range their conversions can produce
NEWTYPE_RANGES = {
    "font_types::uint24::Uint24": (0, (1 << 24) - 1),
    "font_types::int24::Int24": (-(1 << 23), (1 << 23) - 1),
    "font_types::glyph_id::GlyphId16": (0, 65535),
    "font_types::fword::FWord": (-32768, 32767),
    "font_types::fword::UfWord": (0, 65535),
    "font_types::offset::Offset16": (0, 65535),
    "font_types::offset::Offset24": (0, (1 << 24) - 1),
    "font_types::offset::Offset32": (0, (1 << 32) - 1),
    "font_types::name_id::NameId": (0, 65535),
    "font_types::fixed::F2Dot14": None,   # conversions scale; not a plain integer view
}
# repo functions that are known (checked by C01-a) to return the length of an in-memory byte slice
KNOWN_LEN_FNS = {"read_fonts::font_data::FontData::<'a>::len"}
CONV_NAMES = ("from", "into", "to_u32", "to_u16", "to_i32", "to_i16", "to_usize", "to_u8", "get", "to_raw")

# struct fields of 64-bit integer type that are only ever written with a constant, a bounded value or `field + small
# constant` and never mutably borrowed ("monotone counters"), filled by callers: (adt path, field name)
COUNTER_FIELDS = set()
COUNTER_STEP = 1 << 16
A_STEPS = ("A-STEPS: a 64-bit counter that starts below 2^62 and grows by at most 2^16 per executed increment cannot "
           "overflow: that would take more than 2^46 increments of one variable")

# inferred struct-field invariants, filled by fieldinv.register(): (adt path, field name) -> (lo, hi)
FIELD_RANGES = {}

# return-range summaries of analysed functions, filled by retsum.register(): callee path -> (lo, hi)
RET_RANGES = {}
NZ = ("C", 0)       # right-hand side of the `term != 0` facts kept in State.rel
# function path -> MIR projection list p such that the function returns `(*arg0).p` (a plain field getter)
GETTERS = {}
# function path -> (success variant, [(payload path, op, other)]) : facts about the Ok/Some payload that hold at every return
# of the function; other = ('Lp', param, path) (a length behind a pointer parameter) | ('Ip', param) (an integer parameter the
# function never assigns) | ('ret', payload path) | ('rng', lo, hi)
RET_FACTS = {}
# promoted constant path -> (start, end, inclusive, type) for `&(a..b)` / `&(a..=b)` with literal bounds
PROMOTED_RANGES = {}
# function path -> entry facts established at every call site (argsum.py); swapped in per Facts object by the census
PARAM_INFO = {}

# ADT facts (enum discriminant values), filled by callers that have a Facts object: path -> [values]
ADT_DISCRS = {}


def register_adts(facts):
    if getattr(facts, "_adts_registered", False):
        return
    for c in facts.crates:
        for r in facts.records("adt", c):
            ds = r.get("discrs") or []
            if ds:
                try:
                    ADT_DISCRS[r["path"]] = [int(x) for x in ds]
                except ValueError:
                    pass
    facts._adts_registered = True


def ty_range(ty):
    m = INT_RE.match(ty)
    if m:
        bits = 64 if m.group(2) == "size" else int(m.group(2))
        if m.group(1) == "u":
            return (0, (1 << bits) - 1)
        return (-(1 << (bits - 1)), (1 << (bits - 1)) - 1)
    if ty == "bool":
        return (0, 1)
    if ty == "char":
        return (0, 0x10FFFF)
    return None


def hull(a, b):
    return (min(a[0], b[0]), max(a[1], b[1]))


def clamp_to(r, tr):
    return (max(r[0], tr[0]), min(r[1], tr[1]))


def fits(r, tr):
    return r[0] >= tr[0] and r[1] <= tr[1]


NEG = {"Lt": "Ge", "Le": "Gt", "Gt": "Le", "Ge": "Lt", "Eq": "Ne", "Ne": "Eq", "InRange": "OutRange", "OutRange": "InRange"}
SWAP = {"Lt": "Gt", "Le": "Ge", "Gt": "Lt", "Ge": "Le", "Eq": "Eq", "Ne": "Ne"}

STD_THRESHOLDS = sorted({0, 1, -1, 2, 127, 128, 255, 256, 32767, 32768, 65535, 65536, (1 << 24) - 1, 1 << 24,
                         (1 << 31) - 1, 1 << 31, (1 << 32) - 1, 1 << 32, ISIZE_MAX, 1 << 63, (1 << 64) - 1,
                         -128, -129, -32768, -32769, -(1 << 31), -(1 << 31) - 1, -(1 << 63)})


def term_root(t):
    return t if isinstance(t, int) else t[1]


class State:
    __slots__ = ("iv", "alias", "cmp", "rel", "ovf", "rngs", "vf", "disc", "diff", "avail", "castof")

    def __init__(self):
        self.iv = {}      # term -> (lo, hi)
        self.alias = {}   # local -> term whose current value the local holds
        self.cmp = {}     # bool local -> (op, a_operand, b_operand, a_term, b_term)
        self.rel = set()  # (a_term, "<"|"<=", b_term)
        self.ovf = {}     # local -> (op, a, b) for *WithOverflow tuples
        self.rngs = {}    # local holding a counting range -> (lo, hi_exclusive_max, end_term or None, inclusive)
        self.vf = {}      # local of enum type -> (variant value, ((a_term, op, b_term), ...), ((term, lo, hi), ...)): facts that
                          # hold whenever the local is that variant (e.g. `slice.get(i)` is Some  =>  i < len)
        self.disc = {}    # local -> the local whose discriminant it holds
        self.diff = {}    # local -> (a_term, b_term): the local holds exactly a - b (the checked subtraction passed)
        self.avail = {}   # (op, a_term, b_term) -> term holding the result of that checked operation (available expression)
        self.castof = {}  # local -> (source term, source type range): the local is `source as T`, T at least as wide

    def copy(self):
        s = State()
        s.iv = dict(self.iv)
        s.alias = dict(self.alias)
        s.cmp = dict(self.cmp)
        s.rel = set(self.rel)
        s.ovf = dict(self.ovf)
        s.rngs = dict(self.rngs)
        s.vf = dict(self.vf)
        s.disc = dict(self.disc)
        s.diff = dict(self.diff)
        s.avail = dict(self.avail)
        s.castof = dict(self.castof)
        return s

    def kill_term(self, t):
        if self.avail:
            # the term holding an available expression's value dies (a temporary going out of scope): keep the value's
            # interval as a snapshot, the operands are still unchanged
            r = self.iv.get(t)
            for k in [k for k, v in self.avail.items() if v == t]:
                if r is not None and k[1] != t and k[2] != t:
                    self.avail[k] = ("R", r[0], r[1])
                else:
                    del self.avail[k]
        self.iv.pop(t, None)
        for k in [k for k, v in self.alias.items() if v == t]:
            del self.alias[k]
        for k in [k for k, v in self.cmp.items() if v[3] == t or v[4] == t]:
            del self.cmp[k]
        if self.rel:
            self.rel = {r for r in self.rel if r[0] != t and r[2] != t}
        for k in [k for k, v in self.rngs.items() if v[2] == t]:
            v = self.rngs[k]
            self.rngs[k] = (v[0], v[1], None, v[3])
        for k in [k for k, v in self.vf.items() if any(t in (r[0], r[2]) for r in v[1]) or any(b[0] == t for b in v[2])]:
            del self.vf[k]
        if self.diff:
            for k in [k for k, v in self.diff.items() if k == t or v[0] == t or v[1] == t]:
                del self.diff[k]
        if self.castof:
            for k in [k for k, v in self.castof.items() if k == t or v[0] == t]:
                del self.castof[k]
        if self.avail:
            for k in [k for k in self.avail if k[1] == t or k[2] == t]:
                del self.avail[k]

    def kill(self, l):
        """local l is (re)assigned"""
        self.alias.pop(l, None)
        self.cmp.pop(l, None)
        self.ovf.pop(l, None)
        self.rngs.pop(l, None)
        self.vf.pop(l, None)
        self.disc.pop(l, None)
        for k in [k for k, v in self.disc.items() if v == l]:
            del self.disc[k]
        self.kill_term(l)
        # (l, field) overflow-tuple keys and memory terms rooted at l
        for k in [k for k in self.iv if isinstance(k, tuple) and (k[0] == l or (k[0] in ("P", "L") and k[1] == l))]:
            self.kill_term(k)
        stale = {r for r in self.rel for t in (r[0], r[2]) if isinstance(t, tuple) and t[0] in ("P", "L") and t[1] == l}
        if stale:
            self.rel -= stale
        for k in [k for k, v in self.alias.items() if isinstance(v, tuple) and v[0] in ("P", "L") and v[1] == l]:
            del self.alias[k]
        if self.diff:
            for k in [k for k, v in self.diff.items() if any(isinstance(x, tuple) and x[0] in ("P", "L") and x[1] == l for x in (k,) + tuple(v))]:
                del self.diff[k]
        if self.castof:
            for k in [k for k, v in self.castof.items() if isinstance(v[0], tuple) and v[0][0] in ("P", "L") and v[0][1] == l]:
                del self.castof[k]
        if self.avail:
            for k in [k for k, v in self.avail.items() if any(isinstance(x, tuple) and x[0] in ("P", "L") and x[1] == l for x in (k[1], k[2], v))]:
                del self.avail[k]
            for k in [k for k, v in self.avail.items() if v == l or k[1] == l or k[2] == l]:
                del self.avail[k]

    def mem_terms(self):
        out = set()
        for k in self.iv:
            if isinstance(k, tuple) and k[0] in ("P", "L"):
                out.add(k)
        for v in self.alias.values():
            if isinstance(v, tuple) and v[0] in ("P", "L"):
                out.add(v)
        for r in self.rel:
            for t in (r[0], r[2]):
                if isinstance(t, tuple) and t[0] in ("P", "L"):
                    out.add(t)
        for v in self.rngs.values():
            if isinstance(v[2], tuple):
                out.add(v[2])
        for k, v in self.diff.items():
            for t in (k,) + tuple(v):
                if isinstance(t, tuple) and t[0] in ("P", "L"):
                    out.add(t)
        for v in self.castof.values():
            if isinstance(v[0], tuple) and v[0][0] in ("P", "L"):
                out.add(v[0])
        for k, v in self.avail.items():
            for t in (k[1], k[2], v):
                if isinstance(t, tuple) and t[0] in ("P", "L") and len(t) == 3 and not isinstance(t[1], str):
                    out.add(t)
        for v in self.vf.values():
            for r in v[1]:
                for t in (r[0], r[2]):
                    if isinstance(t, tuple) and t[0] in ("P", "L"):
                        out.add(t)
            for b in v[2]:
                if isinstance(b[0], tuple) and b[0][0] in ("P", "L"):
                    out.add(b[0])
        return out

    def join(self, o):
        """in-place join with o; returns True if changed"""
        changed = False
        for k in list(self.iv):
            if k in o.iv:
                h = hull(self.iv[k], o.iv[k])
                if h != self.iv[k]:
                    self.iv[k] = h
                    changed = True
            else:
                del self.iv[k]
                changed = True
        for k in list(self.ovf):
            a, b = self.ovf[k], o.ovf.get(k)
            if b is None:
                del self.ovf[k]
                changed = True
            elif a != b:
                # the same operation on the same operand terms with different operand intervals: keep it with the hulls
                if len(a) >= 7 and len(b) >= 7 and a[:5] == b[:5] and a[5] is not None and b[5] is not None \
                        and a[6] is not None and b[6] is not None:
                    n = a[:5] + (hull(a[5], b[5]), hull(a[6], b[6]))
                    if n != a:
                        self.ovf[k] = n
                        changed = True
                else:
                    del self.ovf[k]
                    changed = True
        for d_self, d_o in ((self.alias, o.alias), (self.cmp, o.cmp), (self.vf, o.vf), (self.disc, o.disc),
                            (self.diff, o.diff), (self.avail, o.avail), (self.castof, o.castof)):
            for k in list(d_self):
                if d_o.get(k) != d_self[k]:
                    del d_self[k]
                    changed = True
        for k in list(self.rngs):
            a, b = self.rngs[k], o.rngs.get(k)
            if b is None:
                del self.rngs[k]
                changed = True
            elif a != b:
                n = (min(a[0], b[0]), max(a[1], b[1]), a[2] if a[2] == b[2] else None, a[3] or b[3])
                if n != a:
                    self.rngs[k] = n
                    changed = True
        nr = self.rel & o.rel
        if nr != self.rel:
            self.rel = nr
            changed = True
        return changed


class Intervals:
    def __init__(self, body, param_ranges=None, call_models=None):
        self.body = body
        self.tr = [ty_range(t[0]) for t in body.locals]
        self.param_ranges = param_ranges or {}
        self.call_models = call_models or {}
        self.in_states = {}
        self.visits = {}
        self.term_tr = {}        # memory term -> type range (learned when a typed read is seen)
        self.term_field = {}     # memory term -> (adt, field) of its last projection
        self.converged = True
        self.used_steps_assumption = False
        self.used_param_info = False
        self._counter_cache = {}
        self._place_cache = {}
        self._ptr_cache = {}
        self._uses = None
        self._written = None
        self._canon = None
        self._mutb = None
        self.thresholds = self._collect_thresholds()
        self._run()

    # ---- thresholds ---------------------------------------------------------------------------
    def _collect_thresholds(self):
        th = set(STD_THRESHOLDS)

        def add_op(o):
            if isinstance(o, list) and o and o[0] == "k":
                c = op_const(o)
                if c and c[1] is not None and ty_range(c[0]) is not None and abs(c[1]) < (1 << 64):
                    th.update((c[1] - 1, c[1], c[1] + 1))
        for blk in self.body.blocks:
            if blk.cleanup:
                continue
            for s in blk.stmts:
                if s[0] == "A":
                    for x in s[2][1:]:
                        if isinstance(x, list):
                            add_op(x)
                            if x and isinstance(x[0], list):
                                for y in x:
                                    add_op(y)
            t = blk.term
            if t.kind == "call":
                for a in t.args:
                    add_op(a)
            elif t.kind == "switch":
                for v, _ in t.d[2]:
                    th.update((int(v) - 1, int(v), int(v) + 1))
        # array lengths in local types: [T; N]
        for ty in self.body.locals:
            for m in re.finditer(r"; (\d+)\]", ty[0]):
                n = int(m.group(1))
                th.update((n - 1, n, n + 1))
        return sorted(th)

    def _widen_lo(self, v):
        best = -INF
        for t in self.thresholds:
            if t <= v:
                best = t
            else:
                break
        return best

    def _widen_hi(self, v):
        for t in self.thresholds:
            if t >= v:
                return t
        return INF

    # ---- places -------------------------------------------------------------------------------
    def _stable_local(self, l):
        """l is never assigned (parameter) or assigned exactly once"""
        b = self.body
        ds = b.defs().get(l, [])
        if 0 < l <= b.argc:
            return not ds
        return len(ds) == 1

    PURE_CRATES = ("read_fonts::", "font_types::", "<read_fonts::", "<font_types::")

    def _pure_call_canon(self):
        """locals holding the result of the *same* pure reader call on the same, never reassigned arguments denote the
        same value (read-fonts / font-types have no state and observe nothing but their arguments: C01-f): map each such
        local to the first one.  Only shared-reference results (slices, tables) are unified."""
        if self._canon is not None:
            return self._canon
        self._canon = {}
        b = self.body
        seen = {}
        for bb, t in b.calls():
            if t.dest[1] or not t.callee.startswith(self.PURE_CRATES):
                continue
            dty = b.locals[t.dest[0]][0]
            if not dty.startswith("&") or dty.startswith("&mut"):
                continue
            if b.single_def(t.dest[0]) is None:
                continue
            key = [t.callee, t.d.get("cargs")]
            ok = True
            for a, aty in zip(t.args, t.d.get("atys") or []):
                if aty.startswith("&mut") or aty.startswith("*mut"):
                    ok = False
                    break
                if a[0] == "k":
                    key.append(("k", repr(a[1:3])))
                    continue
                r = self._stable_arg(a)
                if r is None:
                    ok = False
                    break
                key.append(r)
            if not ok:
                continue
            key = tuple(key)
            if key in seen:
                self._canon[t.dest[0]] = seen[key]
            else:
                seen[key] = t.dest[0]
        return self._canon

    def _mut_borrowed_locals(self):
        if self._mutb is None:
            s_ = set()
            for _, _, st in self.body.stmts():
                if st[0] == "A" and st[2][0] in ("ref", "raw") and ((st[2][1] == "mut") if st[2][0] == "ref" else ("Mut" in str(st[2][1]))):
                    s_.add(st[2][2][0])
            self._mutb = s_
        return self._mutb

    def _stable_arg(self, op, depth=0):
        """a description of an argument that denotes the same value wherever it is evaluated: a never-reassigned local, a
        copy of one, or a shared borrow / field path of one"""
        p = op[1]
        l = p[0]
        b = self.body
        if depth > 6:
            return None
        if 0 < l <= b.argc:
            # only parameters that cannot be mutated during the call: by-value data or shared references (what a
            # `&mut` parameter points to may change between two evaluations)
            ty = b.locals[l][0]
            if ty.startswith("&mut") or ty.startswith("*mut") or "&mut" in ty:
                return None
            if l in self._mut_borrowed_locals():
                return None
            return ("param", l, repr(p[1])) if not b.defs().get(l) else None
        sd = b.single_def(l)
        if sd is None or isinstance(sd[2], Term):
            return None
        if p[1]:
            return None
        rv = sd[2]
        if rv[0] == "use" and rv[1][0] in ("c", "m"):
            return self._stable_arg(rv[1], depth + 1)
        if rv[0] == "ref" and rv[1] != "mut":
            inner = rv[2]
            base = self._stable_arg(["c", [inner[0], []]], depth + 1)
            if base is None:
                return None
            if any(not (e == "*" or (isinstance(e, list) and e[0] in ("f", "d"))) for e in inner[1]):
                return None
            return ("ref", base, repr(inner[1]))
        return None

    def _ptr_target(self, l, depth=0):
        """for a pointer/reference local: (root, path, exact) of the place it points to, or None.
        Followed only through single-assignment temporaries."""
        if l in self._ptr_cache:
            return self._ptr_cache[l]
        self._ptr_cache[l] = None
        b = self.body
        res = None
        canon = self._pure_call_canon().get(l)
        if canon is not None and canon != l:
            res = (canon, ("*",), True)
            self._ptr_cache[l] = res
            return res
        if depth < 20 and not (0 < l <= b.argc):
            sd = b.single_def(l)
            if sd is not None:
                rv = sd[2]
                if isinstance(rv, Term):
                    c = rv.callee
                    if rv.args and (c.endswith("as core::ops::deref::Deref>::deref") or c.endswith("as core::ops::deref::DerefMut>::deref_mut")
                                    or c.endswith("::as_slice") or c.endswith("::as_mut_slice")
                                    or c in ("alloc::vec::Vec::<T, A>::as_slice", "alloc::vec::Vec::<T, A>::as_mut_slice")):
                        a = op_local(rv.args[0])
                        if a is not None:
                            res = self._ptr_target(a, depth + 1)
                elif rv[0] in ("ref", "raw"):
                    res = self.resolve_place(rv[2], depth + 1)
                elif rv[0] == "use" and op_place(rv[1]) is not None and op_place(rv[1])[1] and self._is_ref_local(l):
                    # a pointer loaded from memory (`_s = (*self).data`): it points at `*(that place)` as long as the
                    # place holding the pointer is never written in this function
                    r0 = self.resolve_place(op_place(rv[1]), depth + 1)
                    if r0 is not None and r0[2] and r0[1] and self._never_written(r0[0], r0[1]):
                        res = (r0[0], tuple(r0[1]) + ("*",), True)
                elif rv[0] == "use" or (rv[0] == "cast" and str(rv[1]).startswith("PointerCoercion")):
                    src = op_place(rv[1] if rv[0] == "use" else rv[2])
                    if src is not None and not src[1]:
                        res = self._ptr_target(src[0], depth + 1)
                        if res is None and self._stable_local(src[0]) and self._is_ref_local(src[0]):
                            # a copy of a pointer that is never reassigned points where that pointer points
                            res = (src[0], ("*",), True)
        self._ptr_cache[l] = res
        return res

    def _never_written(self, root, path):
        """no statement of this body can write the place (root, path): no store / mutable borrow / call destination
        whose place overlaps it, and `root` (if a `&mut`) is never handed to a call or reborrowed as a whole"""
        if self._written is None:
            w = []
            whole = set()
            b = self.body
            self._written = (w, whole)      # set first: resolve_place below may recurse into pointer loads
            for blk in b.blocks:
                if blk.cleanup:
                    continue
                for st in blk.stmts:
                    if st[0] != "A":
                        continue
                    if st[1][1]:
                        w.append(st[1])
                    rv = st[2]
                    if rv[0] in ("ref", "raw") and ((rv[1] == "mut") if rv[0] == "ref" else ("Mut" in str(rv[1]))):
                        w.append(rv[2])
                t = blk.term
                if t.kind == "call":
                    if t.dest[1]:
                        w.append(t.dest)
                    for a, aty in zip(t.args, t.d.get("atys") or []):
                        l = op_local(a)
                        if l is not None and (aty.startswith("&mut") or aty.startswith("*mut")):
                            whole.add(l)
        w, whole = self._written
        if root in whole:
            return False
        n = len(path)
        for pl in w:
            if pl[0] == root or True:
                r = self._resolve_nofollow(pl)
                if r is None:
                    return False
                if r[0] != root:
                    continue
                # only a write to the place that HOLDS the pointer (or to something containing it) changes the pointer;
                # a write through it (a longer path) changes the pointee
                wl = len(r[1])
                if wl <= n and tuple(r[1]) == tuple(path[:wl]):
                    return False
        return True

    def _resolve_nofollow(self, p):
        """like resolve_place but through `ref`/pointer-copy temporaries only (no memory loads): used to decide what a
        store can touch"""
        l, projs = p[0], p[1]
        for _ in range(12):
            if not (projs and projs[0] == "*") or (0 < l <= self.body.argc):
                break
            sd = self.body.single_def(l)
            if sd is None or isinstance(sd[2], Term):
                break
            rv = sd[2]
            if rv[0] in ("ref", "raw"):
                l, projs = rv[2][0], list(rv[2][1]) + list(projs[1:])
                continue
            if rv[0] == "use" and op_place(rv[1]) is not None and not op_place(rv[1])[1]:
                l = op_place(rv[1])[0]
                continue
            if rv[0] == "use" and op_place(rv[1]) is not None and op_place(rv[1])[1]:
                # pointer loaded from memory: what it points to lies behind that place
                src = op_place(rv[1])
                l, projs = src[0], list(src[1]) + list(projs)
                continue
            break
        path = []
        for e in projs:
            if e == "*":
                path.append("*")
            elif isinstance(e, list) and e[0] == "f":
                path.append(("f", e[1]))
            elif isinstance(e, list) and e[0] == "d":
                path.append(("d", e[1]))
            else:
                break
        return (l, tuple(path))

    def resolve_place(self, p, depth=0):
        """(root local, path tuple, exact) for a MIR place, following reborrows of single-assignment pointer
        temporaries; `exact` is False when the path was cut at an index/subslice projection.  None if unknown."""
        l, projs = p[0], p[1]
        base = None
        rest = projs
        if projs and projs[0] == "*":
            t = self._ptr_target(l, depth)
            if t is not None:
                if not t[2]:
                    return (t[0], t[1], False)
                base = (t[0], list(t[1]))
                rest = projs[1:]
        if base is None and rest and depth < 12 and self.tr[l] is None and not self._is_ref_local(l) and not (0 < l <= self.body.argc):
            # a local that is a one-time copy / move of an aggregate place (`val = move ((_b as Continue).0)`): its fields
            # are the fields of that place, as long as neither side is ever written again or mutably borrowed
            sd = self.body.single_def(l)
            if sd is not None and not isinstance(sd[2], Term) and sd[2][0] == "use":
                q = op_place(sd[2][1])
                if q is not None and (q[1] or q[0] != l):
                    mb = self._mut_borrowed_locals()
                    if self._stable_local(l) and self._stable_local(q[0]) and l not in mb and q[0] not in mb:
                        return self.resolve_place([q[0], list(q[1]) + list(rest)], depth + 1)
        if base is None:
            base = (l, [])
        path = base[1]
        exact = True
        for e in rest:
            if e == "*":
                path.append("*")
            elif isinstance(e, list) and e[0] == "f":
                path.append(("f", e[1]))
            elif isinstance(e, list) and e[0] == "d":
                path.append(("d", e[1]))
            else:
                exact = False
                break
        return (base[0], tuple(path), exact)

    def place_term(self, p):
        """term for reading place p, or None"""
        if not p[1]:
            return p[0]
        key = (p[0], repr(p[1]))
        if key in self._place_cache:
            return self._place_cache[key]
        r = self.resolve_place(p)
        t = None
        if r is not None and r[2] and self._stable_or_tracked(r[0]):
            t = ("P", r[0], r[1]) if r[1] else r[0]
            fk = self.place_field(p)
            if fk is not None and not isinstance(t, int):
                self.term_field.setdefault(t, fk)
        self._place_cache[key] = t
        return t

    def _stable_or_tracked(self, l):
        return True   # terms rooted at a local are killed whenever that local is assigned (State.kill)

    def len_term(self, ptr_op):
        """term for the length of the slice/Vec/array that pointer operand `ptr_op` points to"""
        l = op_local(ptr_op)
        if l is None:
            p = op_place(ptr_op)
            if p is None:
                return None
            r = self.resolve_place([p[0], list(p[1]) + ["*"]])
        else:
            r = self.resolve_place([l, ["*"]])
        if r is None or not r[2]:
            return None
        return ("L", r[0], r[1])

    def term_range(self, t):
        if isinstance(t, int):
            return self.tr[t]
        if t[0] == "K":
            return (0, (1 << 64) - 1) if not t[1].startswith("-") else None
        if t[0] == "L":
            return self.term_tr.get(t, (0, ISIZE_MAX))
        tr = self.term_tr.get(t)
        fk = self.term_field.get(t)
        if fk is not None:
            fr = FIELD_RANGES.get(fk)
            if fr is not None:
                tr = fr if tr is None else (clamp_to(fr, tr) if fr[0] <= tr[1] and fr[1] >= tr[0] else tr)
        return tr

    @staticmethod
    def place_field(p):
        """(adt, field) when the place ends in a named struct field"""
        if p[1]:
            last = p[1][-1]
            if isinstance(last, list) and last[0] == "f" and len(last) > 3 and last[3] and last[2] is not None:
                return (last[3], last[2])
        return None

    def term_of(self, st, op):
        """term whose value the operand currently equals, or None"""
        if op[0] == "k":
            # an unevaluated constant (a const generic parameter such as `N`) is a symbolic term: it has one value
            # throughout the function, so `i < N` then `buf[i]` (array length N) relate through it
            if len(op) > 3 and (len(op) < 3 or not isinstance(op[2], (str, list))) and isinstance(op[3], str) and ty_range(op[1]) is not None:
                return ("K", op[3])
            return None
        p = op[1]
        if not p[1]:
            return st.alias.get(p[0], p[0])
        return self.place_term(p)

    # ---- evaluation -------------------------------------------------------------------------
    def trng(self, st, t):
        tr = self.term_range(t)
        r = st.iv.get(t)
        if r is None:
            return tr
        if tr is not None:
            return clamp_to(r, tr) if r[0] <= tr[1] and r[1] >= tr[0] else r
        return r

    def rng(self, st, op):
        """interval of an operand (None if not an integer)"""
        if op[0] == "k":
            c = op_const(op)
            tr = ty_range(c[0])
            if tr is None:
                return None
            if c[1] is not None:
                return (c[1], c[1])
            return tr
        p = op[1]
        l = p[0]
        if not p[1]:
            tr = self.tr[l]
            if tr is None:
                return None
            r = st.iv.get(l, tr)
            a = st.alias.get(l)
            if a is not None:
                ar = st.iv.get(a)
                if ar is not None and ar[0] <= r[1] and ar[1] >= r[0]:
                    r = clamp_to(r, ar)
            return r
        # overflow tuple fields are kept under (local, field)
        if len(p[1]) == 1 and isinstance(p[1][0], list) and p[1][0][0] == "f":
            k = (l, p[1][0][1])
            if k in st.iv:
                return st.iv[k]
        t = self.place_term(p)
        if t is not None and not isinstance(t, int):
            return self.trng(st, t)
        fk = self.place_field(p)
        if fk is not None:
            return FIELD_RANGES.get(fk)
        return None

    def state_before_stmt(self, bb, idx):
        """state just before statement idx of block bb (None if unreachable)"""
        if bb not in self.in_states:
            return None
        st = self.in_states[bb].copy()
        for j, s in enumerate(self.body.blocks[bb].stmts):
            if j >= idx:
                break
            if s[0] == "A":
                self.assign(st, s[1], s[2], bb, j)
            elif s[0] == "D":
                st.kill(s[1][0])
        return st

    def op_type(self, op):
        if op[0] == "k":
            return op[1]
        p = op[1]
        if not p[1]:
            return self.body.locals[p[0]][0]
        return None

    def binop(self, op, a, b, tr):
        """math result interval (unwrapped) or None"""
        if a is None or b is None:
            return None
        if op == "Add":
            return (a[0] + b[0], a[1] + b[1])
        if op == "Sub":
            return (a[0] - b[1], a[1] - b[0])
        if op == "Mul":
            c = [a[0] * b[0], a[0] * b[1], a[1] * b[0], a[1] * b[1]]
            return (min(c), max(c))
        if op == "BitAnd":
            if a[0] >= 0 and b[0] >= 0:
                return (0, min(a[1], b[1]))
            if b[0] >= 0:
                return (0, b[1])
            if a[0] >= 0:
                return (0, a[1])
            return None
        if op == "BitOr" or op == "BitXor":
            if a[0] >= 0 and b[0] >= 0:
                m = max(a[1], b[1])
                return (0, (1 << m.bit_length()) - 1)
            return None
        if op == "Shr":
            if a[0] >= 0 and b[0] >= 0:
                return (a[0] >> min(b[1], 200), a[1] >> b[0])
            if b[0] >= 0:
                return (a[0] >> b[0] if a[0] < 0 else a[0] >> min(b[1], 200), a[1] >> b[0] if a[1] >= 0 else a[1] >> min(b[1], 200))
            return None
        if op == "Shl":
            if a[0] >= 0 and b[0] >= 0 and b[1] < 128:
                return (a[0] << b[0], a[1] << b[1])
            return None
        if op == "Div":
            if b[0] > 0:
                c = [int(a[0] / b[0]) if abs(a[0]) < (1 << 52) else a[0] // b[0] if a[0] >= 0 else -((-a[0]) // b[0]),
                     a[0] // b[1] if a[0] >= 0 else -((-a[0]) // b[1]),
                     a[1] // b[0] if a[1] >= 0 else -((-a[1]) // b[0]),
                     a[1] // b[1] if a[1] >= 0 else -((-a[1]) // b[1])]
                return (min(c), max(c))
            return None
        if op == "Rem":
            if b[0] > 0:
                if a[0] >= 0:
                    return (0, min(a[1], b[1] - 1))
                return (-(b[1] - 1), b[1] - 1)
            return None
        return None

    # ---- memory effects -------------------------------------------------------------------------
    def _kill_overlap(self, st, root, path, exact, whole_container=True):
        """a write (or mutable borrow) of the place (root, path) invalidates the memory terms it overlaps"""
        n = len(path)
        for t in list(st.mem_terms()):
            if t[1] != root:
                continue
            tp = t[2]
            m = min(n, len(tp))
            if tp[:m] != path[:m]:
                continue
            if t[0] == "L":
                # writing *inside* a container (a longer path, or an element) does not change its length
                if n > len(tp):
                    continue
                if n == len(tp) and not exact:
                    continue
                if n == len(tp) and not whole_container:
                    continue
            st.kill_term(t)

    def _kill_unknown_write(self, st):
        """a store through a pointer of unknown provenance: keep only facts rooted at shared references"""
        for t in list(st.mem_terms()):
            ty = self.body.locals[t[1]][0]
            if ty.startswith("&") and not ty.startswith("&mut"):
                continue
            st.kill_term(t)

    def _uses_of(self, l):
        if self._uses is None:
            u = {}
            b = self.body
            for i, blk in enumerate(b.blocks):
                if blk.cleanup:
                    continue
                for s in blk.stmts:
                    if s[0] != "A":
                        continue
                    rv = s[2]
                    ops = []
                    if rv[0] in ("use", "repeat"):
                        ops = [rv[1]]
                    elif rv[0] == "bin":
                        ops = [rv[2], rv[3]]
                    elif rv[0] in ("un", "cast"):
                        ops = [rv[2]]
                    elif rv[0] == "agg":
                        ops = rv[2]
                    for o in ops:
                        p = op_place(o)
                        if p is not None:
                            u.setdefault(p[0], []).append(("stmt", s))
                    if rv[0] in ("ref", "raw"):
                        u.setdefault(rv[2][0], []).append(("ref", s))
                    if rv[0] == "disc":
                        u.setdefault(rv[1][0], []).append(("disc", s))
                    if s[1][1]:
                        u.setdefault(s[1][0], []).append(("store", s))
                t = blk.term
                if t.kind == "call":
                    for a in t.args:
                        p = op_place(a)
                        if p is not None:
                            u.setdefault(p[0], []).append(("call", t))
                elif t.kind == "switch":
                    p = op_place(t.d[1])
                    if p is not None:
                        u.setdefault(p[0], []).append(("switch", t))
            self._uses = u
        return self._uses.get(l, [])

    RANGE_NEXT = re.compile(r"^core::iter::range::<impl core::iter::traits::(iterator::Iterator|double_ended::DoubleEndedIterator) for "
                            r"core::ops::range::Range(Inclusive)?<A>>::(next|next_back|size_hint|nth)$|"
                            r"^<core::iter::adapters::rev::Rev<I> as core::iter::traits::iterator::Iterator>::next$")

    def _mut_ref_used_only_by_calls(self, l, depth=0):
        if depth > 4:
            return False
        us = self._uses_of(l)
        if not us:
            return True
        for k, t in us:
            if k == "call":
                continue
            if k == "store":
                continue       # `(*l).x = ..`: the store itself kills what it overlaps
            if k == "ref":
                # a reborrow `x = &mut (*l)..` / `&(*l)..`
                if t[2][0] in ("ref", "raw") and t[2][2][0] == l and t[2][2][1] and t[2][2][1][0] == "*" and not t[1][1]:
                    mut = (t[2][1] == "mut") if t[2][0] == "ref" else ("Mut" in str(t[2][1]))
                    if not mut or self._mut_ref_used_only_by_calls(t[1][0], depth + 1):
                        continue
                return False
            if k == "stmt":
                # moved into another local: follow it; anything else (captured, stored) is an escape
                if t[2][0] == "use" and not t[1][1] and op_local(t[2][1]) == l and self._mut_ref_used_only_by_calls(t[1][0], depth + 1):
                    continue
                # reads through the pointer `(*l).f` as an operand are fine
                if t[2][0] in ("use", "bin", "un", "cast") and op_local(t[2][1] if t[2][0] == "use" else t[2][2]) != l:
                    ops = [t[2][1]] if t[2][0] == "use" else ([t[2][2], t[2][3]] if t[2][0] == "bin" else [t[2][2]])
                    if all(op_local(o) != l for o in ops):
                        continue
                return False
            return False
        return True

    def _only_feeds_range_next(self, ref_local, depth=0):
        us = self._uses_of(ref_local)
        if not us or depth > 4:
            return False
        for k, t in us:
            if k == "call" and self.RANGE_NEXT.search(t.callee):
                continue
            if k == "ref" and t[2][0] == "ref" and t[2][2][0] == ref_local and t[2][2][1] == ["*"] and not t[1][1] \
                    and self._only_feeds_range_next(t[1][0], depth + 1):
                continue      # a plain reborrow `&mut *r` that itself only feeds Range::next
            return False
        return True

    # ---- transfer -----------------------------------------------------------------------------
    def assign(self, st, place, rv, bb, idx):
        k = rv[0]
        if place[1]:
            # a store to memory
            r = self.resolve_place(place)
            if r is None:
                self._kill_unknown_write(st)
                return
            root, path, exact = r
            if path and path[0] == "*" and self._ptr_target(root) is None and not (0 < root <= self.body.argc) \
                    and not self._is_ref_local(root):
                self._kill_unknown_write(st)
            if not path:
                # field of a local aggregate (e.g. _21.0 = ..): forget the local
                if not exact or True:
                    st.kill(root)
                return
            self._kill_overlap(st, root, path, exact, whole_container=exact)
            if exact and k == "use":
                t = ("P", root, path)
                v = self.rng(st, rv[1])
                if v is not None:
                    ty = self.op_type(rv[1])
                    tr = ty_range(ty) if ty else None
                    if tr is None and rv[1][0] != "k":
                        # operand is itself a place (e.g. an overflow tuple field): take the interval's hull as is
                        tr = self.term_tr.get(t)
                    if tr is not None:
                        self.term_tr.setdefault(t, tr)
                    if self.term_tr.get(t) is not None:
                        st.iv[t] = v
                        # the stored local now equals the place
                        src = op_local(rv[1])
                        if src is not None and src not in st.alias:
                            st.alias[src] = t
                        # relations of the source carry over
                        srct = self.term_of(st, rv[1])
                        if srct is not None and srct != t:
                            for (a, o, b2) in list(st.rel):
                                if a == srct:
                                    st.rel.add((t, o, b2))
                                if b2 == srct:
                                    st.rel.add((a, o, t))
            return
        l = place[0]
        new_iv = None
        new_alias = None
        new_cmp = None
        new_ovf = None
        new_rng = None
        new_vf = None
        new_disc = None
        new_castof = None
        tr = self.tr[l]
        if k == "use":
            r = self.rng(st, rv[1])
            if r is not None and tr is not None:
                new_iv = clamp_to(r, tr) if r[0] <= tr[1] and r[1] >= tr[0] else tr
            src = op_local(rv[1])
            if src is not None:
                a = st.alias.get(src, src)
                if a != l and not (isinstance(a, tuple) and a[0] in ("P", "L") and a[1] == l):
                    new_alias = a
                if src in st.cmp:
                    new_cmp = st.cmp[src]
                if src in st.ovf:
                    new_ovf = st.ovf[src]
                if src in st.rngs:
                    new_rng = st.rngs[src]
                if src in st.vf:
                    new_vf = st.vf[src]
            else:
                p = op_place(rv[1])
                if p is not None and tr is not None:
                    t = self.place_term(p)
                    if t is not None and not isinstance(t, int) and t[1] != l:
                        self.term_tr.setdefault(t, tr)
                        new_alias = t
                        new_iv = self.trng(st, t) or tr
        elif k == "bin":
            op = rv[1]
            a, b = self.rng(st, rv[2]), self.rng(st, rv[3])
            if op.endswith("WithOverflow"):
                base = op[:-len("WithOverflow")]
                oty = rv[4]
                otr = ty_range(oty)
                # a place operand tells us the place's type
                for o in (rv[2], rv[3]):
                    if o[0] != "k" and o[1][1] and otr is not None:
                        t = self.place_term(o[1])
                        if t is not None and not isinstance(t, int):
                            self.term_tr.setdefault(t, otr)
                a, b = self.rng(st, rv[2]), self.rng(st, rv[3])
                m = self.binop(base, a, b, otr)
                ta, tb = self.term_of(st, rv[2]), self.term_of(st, rv[3])
                st.kill(l)
                if otr is not None:
                    # field 0 is only read after the overflow Assert passed: then it is the mathematical result
                    if m is not None and m[0] <= otr[1] and m[1] >= otr[0]:
                        st.iv[(l, 0)] = clamp_to(m, otr)
                    else:
                        st.iv[(l, 0)] = otr
                    if m is not None and fits(m, otr):
                        st.iv[(l, 1)] = (0, 0)
                    elif m is not None and (m[1] < otr[0] or m[0] > otr[1]):
                        st.iv[(l, 1)] = (1, 1)      # always overflows: the Assert never passes
                    else:
                        st.iv[(l, 1)] = (0, 1)
                    ak = self._avail_key(base, ta, tb)
                    prev = st.avail.get(ak) if ak is not None else None
                    if prev is not None:
                        # the same checked operation on the same (unchanged) operands already passed its Assert: same value
                        pr = self._avail_range(st, prev)
                        if pr is not None:
                            cur = st.iv[(l, 0)]
                            if pr[0] <= cur[1] and pr[1] >= cur[0]:
                                st.iv[(l, 0)] = clamp_to(pr, cur)
                        st.iv[(l, 1)] = (0, 0)
                    if base == "Add" and st.avail and ta is not None and tb is not None:
                        # a + c where a <= x and `x + c` is an available (checked, passed) sum: a + c <= x + c
                        for (kb, kx, ky), kv in st.avail.items():
                            if kb != "Add":
                                continue
                            for (p_, q_) in ((ta, tb), (tb, ta)):
                                for (x_, y_) in ((kx, ky), (ky, kx)):
                                    if q_ == y_ and p_ != x_:
                                        strict = self.has_rel(st, p_, "<", x_)
                                        if strict or self.has_rel(st, p_, "<=", x_):
                                            vr = self._avail_range(st, kv)
                                            if vr is not None:
                                                cur = st.iv[(l, 0)]
                                                hi = vr[1] - (1 if strict else 0)
                                                if hi < cur[1] and cur[0] <= hi:
                                                    st.iv[(l, 0)] = (cur[0], hi)
                                                if vr[1] <= otr[1] and a is not None and b is not None and a[0] >= 0 and b[0] >= 0:
                                                    st.iv[(l, 1)] = (0, 0)
                    if base == "Add":
                        # (x - y) + c with c <= y is at most x: the sum cannot overflow and is bounded by x's range
                        # (only the upper end is bounded this way: both operands must be non-negative)
                        ub = self._diff_upper(st, ta, tb) if (a is not None and b is not None and a[0] >= 0 and b[0] >= 0) else None
                        xr = self._ub_range(st, ub)
                        if xr is not None and xr[1] <= otr[1]:
                            cur = st.iv[(l, 0)]
                            if xr[1] < cur[1] and cur[0] <= xr[1]:
                                st.iv[(l, 0)] = (cur[0], xr[1])
                            st.iv[(l, 1)] = (0, 0)
                st.ovf[l] = (base, rv[2], rv[3], ta, tb, a, b)
                return
            if op in NEG:
                oty = rv[4] if len(rv) > 4 else None
                otr = ty_range(oty) if oty else None
                for o in (rv[2], rv[3]):
                    if o[0] != "k" and o[1][1] and otr is not None:
                        t = self.place_term(o[1])
                        if t is not None and not isinstance(t, int):
                            self.term_tr.setdefault(t, otr)
                a, b = self.rng(st, rv[2]), self.rng(st, rv[3])
                new_cmp = (op, rv[2], rv[3], self.term_of(st, rv[2]), self.term_of(st, rv[3]))
                new_iv = (0, 1)
                if a is not None and b is not None:
                    t = self.decide(op, a, b, st, rv[2], rv[3])
                    if t is not None:
                        new_iv = (1, 1) if t else (0, 0)
            elif tr is not None:
                m = self.binop(op, a, b, tr)
                if m is not None and fits(m, tr):
                    new_iv = m
                elif op in ("Shr", "BitAnd", "Rem", "Div") and m is not None:
                    new_iv = clamp_to(m, tr)
                elif op in ("AddUnchecked", "SubUnchecked", "MulUnchecked"):
                    m = self.binop(op[:3], a, b, tr)
                    if m is not None and fits(m, tr):
                        new_iv = m
        elif k == "un":
            a = self.rng(st, rv[2])
            if rv[1] == "Not" and self.op_type(rv[2]) == "bool":
                src = op_local(rv[2])
                if src is not None and src in st.cmp:
                    c = st.cmp[src]
                    new_cmp = (NEG[c[0]],) + tuple(c[1:])
                if a is not None:
                    new_iv = (1 - a[1], 1 - a[0])
            elif rv[1] == "Neg" and a is not None and tr is not None:
                m = (-a[1], -a[0])
                if fits(m, tr):
                    new_iv = m
            elif rv[1] == "PtrMetadata":
                new_iv = (0, ISIZE_MAX)
                t = self.len_term(rv[2])
                if t is not None and t[1] != l:
                    new_alias = t
                    r0 = st.iv.get(t)
                    if r0 is not None:
                        new_iv = r0
        elif k == "cast":
            a = self.rng(st, rv[2])
            if rv[1] == "IntToInt" and tr is not None:
                if a is not None and fits(a, tr):
                    new_iv = a
                    # a value-preserving cast keeps the identity of the value
                    src = op_local(rv[2])
                    if src is not None:
                        sa = st.alias.get(src, src)
                        if sa != l and not (isinstance(sa, tuple) and sa[0] in ("P", "L") and sa[1] == l):
                            new_alias = sa
                else:
                    new_iv = tr
                    # `x as U` that may change the value (sign reinterpretation / widening of a signed value): remember the
                    # source, a later bound on the result inside the common non-negative range bounds the source too
                    stt = self.term_of(st, rv[2])
                    str_ = self.tr[op_local(rv[2])] if op_local(rv[2]) is not None else (self.term_range(stt) if stt is not None and not isinstance(stt, int) else None)
                    if stt is not None and str_ is not None and stt != l and (tr[1] - tr[0]) >= (str_[1] - str_[0]):
                        new_castof = (stt, str_)
            elif tr is not None:
                new_iv = tr
            elif str(rv[1]).startswith("PointerCoercion") and "Unsize" in str(rv[1]) and len(rv) > 4:
                # &[T; N] -> &[T]: the slice behind the new pointer has the array's length
                m = re.search(r"; (\d+)\]$", rv[4])
                if m:
                    # the length term is keyed by where the *source* pointer points (the destination copies it)
                    lt = self.len_term(rv[2])
                    if lt is not None:
                        n = int(m.group(1))
                        self.term_tr[lt] = (n, n)
        elif k == "disc":
            if not rv[1][1]:
                new_disc = rv[1][0]
            ty = rv[2] if len(rv) > 2 else ""
            base = ty.split("<")[0]
            ds = ADT_DISCRS.get(base)
            if ds and tr is not None and all(0 <= d < (1 << 63) for d in ds):
                new_iv = (min(ds), max(ds))
            # `Err(e)?;` / `None?;` as an early return: the value whose discriminant is read was built as a known variant
            # a few single-assignment temporaries ago (aggregate -> Try::branch), so only one arm of the switch is live
            if not rv[1][1]:
                kv = self._known_variant(rv[1][0])
                if kv is not None:
                    new_iv = (kv, kv)
        elif k == "agg":
            kd = rv[1]
            if kd[0] == "adt" and kd[1] in ("core::ops::range::Range", "core::ops::range::RangeInclusive") and len(rv[2]) == 2:
                a, b = self.rng(st, rv[2][0]), self.rng(st, rv[2][1])
                if a is not None and b is not None:
                    new_rng = (a[0], b[1], self.term_of(st, rv[2][1]), kd[1].endswith("Inclusive"))
        elif k in ("ref", "raw"):
            mut = (rv[1] == "mut") if k == "ref" else ("Mut" in str(rv[1]))
            if mut:
                tgt = rv[2]
                r = self.resolve_place(tgt)
                if r is None:
                    self._kill_unknown_write(st)
                else:
                    root, path, exact = r
                    keep_rng = (not path) and root in st.rngs and self._only_feeds_range_next(l)
                    saved = st.rngs.get(root) if keep_rng else None
                    # a `&mut` that is only ever handed to calls / written through is killed where it is *used* (the
                    # call or the store), not where it is created: nothing can read the place by path in between
                    # except under a two-phase borrow, where the place is still unmodified
                    lazy = self.body.single_def(l) is not None and self._ptr_target(l) is not None and \
                        self._mut_ref_used_only_by_calls(l)
                    slice_like = self.body.locals[l][0].startswith(("&mut [", "*mut ["))
                    if lazy:
                        pass
                    elif not path:
                        if not keep_rng:
                            st.kill(root)
                    else:
                        self._kill_overlap(st, root, path, exact, whole_container=not slice_like)
                    if saved is not None:
                        st.rngs[root] = saved
        st.kill(l)
        if new_iv is not None:
            st.iv[l] = new_iv
        if new_alias is not None and new_alias != l:
            st.alias[l] = new_alias
        if new_cmp is not None:
            st.cmp[l] = new_cmp
        if new_ovf is not None:
            st.ovf[l] = new_ovf
        if new_rng is not None:
            st.rngs[l] = new_rng
        if new_vf is not None:
            st.vf[l] = new_vf
        if new_castof is not None:
            st.castof[l] = new_castof
        if new_disc is not None and new_disc != l:
            st.disc[l] = new_disc
        # field 0 of an overflow tuple moved out
        if k == "use":
            p = op_place(rv[1])
            if p is not None and len(p[1]) == 1 and isinstance(p[1][0], list) and p[1][0][0] == "f":
                key = (p[0], p[1][0][1])
                if key in st.iv and tr is not None:
                    st.iv[l] = clamp_to(st.iv[key], tr)
                    ov = st.ovf.get(p[0])
                    if ov is not None and p[1][0][1] == 0 and len(ov) >= 7:
                        self._result_relations(st, l, ov)

    def _is_ref_local(self, l):
        ty = self.body.locals[l][0]
        return ty.startswith("&") or ty.startswith("*")

    def _avail_range(self, st, prev):
        if isinstance(prev, tuple) and prev[0] == "R":
            return (prev[1], prev[2])
        if isinstance(prev, int):
            return st.iv.get(prev, self.tr[prev])
        return self.trng(st, prev)

    @staticmethod
    def _avail_key(base, ta, tb):
        if ta is None or tb is None or base not in ("Add", "Sub", "Mul"):
            return None
        if base in ("Add", "Mul") and repr(tb) < repr(ta):
            ta, tb = tb, ta
        return (base, ta, tb)

    def _ub_range(self, st, ub):
        if ub is None:
            return None
        if isinstance(ub, tuple) and ub[0] == "C":
            return (ub[1], ub[1])
        if isinstance(ub, int):
            return st.iv.get(ub, self.tr[ub])
        return self.trng(st, ub)

    def _diff_upper(self, st, ta, tb):
        """for a sum ta + tb: a term x with ta + tb <= x, when one operand is a recorded difference x - y and the other is
        y itself or is known to be <= y"""
        for tx, tc in ((ta, tb), (tb, ta)):
            df = st.diff.get(tx) if tx is not None else None
            if df is not None and tc is not None:
                if tc == df[1] or self.has_rel(st, tc, "<=", df[1]):
                    return df[0]
        # y + c with c <= (x - y): at most x
        if ta is not None and tb is not None and st.diff:
            for d, (x, y) in st.diff.items():
                for ty, tc in ((ta, tb), (tb, ta)):
                    if y == ty and (tc == d or self.has_rel(st, tc, "<=", d)):
                        return x
        return None

    def _result_relations(self, st, l, ov):
        """l = a (op) b did not overflow: order facts between the result and its operands"""
        base, oa, ob, ta, tb, ra, rb = ov
        if ra is None or rb is None:
            return
        ak = self._avail_key(base, ta, tb)
        if ak is not None:
            prev = st.avail.get(ak)
            if prev is not None and prev != l and prev != st.alias.get(l):
                pr = self._avail_range(st, prev)
                if pr is not None and isinstance(l, int) and self.tr[l] is not None:
                    cur = st.iv.get(l, self.tr[l])
                    if pr[0] <= cur[1] and pr[1] >= cur[0]:
                        st.iv[l] = clamp_to(pr, cur)
                        al = st.alias.get(l)
                        if al is not None and not isinstance(al, int):
                            st.iv[al] = st.iv[l]
                if not (isinstance(prev, tuple) and prev[0] == "R"):
                    lt = st.alias.get(l, l)
                    st.rel.add((lt, "<=", prev))
                    st.rel.add((prev, "<=", lt))
            elif prev is None:
                st.avail[ak] = st.alias.get(l, l)
        l = st.alias.get(l, l)      # the term operands reading this local resolve to
        if base == "Add":
            if rb[0] >= 1 and ta is not None and ta != l:
                st.rel.add((ta, "<", l))
            elif rb[0] >= 0 and ta is not None and ta != l:
                st.rel.add((ta, "<=", l))
            if ra[0] >= 1 and tb is not None and tb != l:
                st.rel.add((tb, "<", l))
            elif ra[0] >= 0 and tb is not None and tb != l:
                st.rel.add((tb, "<=", l))
            # (x - y) + c with c <= y stays at or below x; with c == y it is x again (the window idiom
            # `start = len - n; end = start + m`)
            ub = self._diff_upper(st, ta, tb)
            if ub is not None and ub != l:
                if isinstance(ub, tuple) and ub[0] == "C":
                    self._narrow_term(st, l, (-INF, ub[1]))
                else:
                    self.add_rel(st, l, "<=", ub)
        elif base == "Sub":
            if rb[0] >= 1 and ta is not None and ta != l:
                st.rel.add((l, "<", ta))
            elif rb[0] >= 0 and ta is not None and ta != l:
                st.rel.add((l, "<=", ta))
            xa = ta
            if xa is None and oa is not None and oa[0] == "k":
                ca = op_const(oa)
                if ca and ca[1] is not None:
                    xa = ("C", ca[1])      # a constant minuend: `available = MAX - used`
            if xa is not None and tb is not None and xa != l and tb != l:
                st.diff[l] = (xa, tb)
        elif base == "Mul":
            # a * b did not overflow: with b >= 1 (and a >= 0) the product is at least a
            if rb[0] >= 1 and ra[0] >= 0 and ta is not None and ta != l:
                st.rel.add((ta, "<=", l))
            if ra[0] >= 1 and rb[0] >= 0 and tb is not None and tb != l:
                st.rel.add((tb, "<=", l))

    def decide(self, op, a, b, st=None, oa=None, ob=None):
        if op == "Lt":
            if a[1] < b[0]:
                return True
            if a[0] >= b[1]:
                return False
        elif op == "Le":
            if a[1] <= b[0]:
                return True
            if a[0] > b[1]:
                return False
        elif op == "Gt":
            if a[0] > b[1]:
                return True
            if a[1] <= b[0]:
                return False
        elif op == "Ge":
            if a[0] >= b[1]:
                return True
            if a[1] < b[0]:
                return False
        elif op == "Eq":
            if a[0] == a[1] == b[0] == b[1]:
                return True
            if a[1] < b[0] or b[1] < a[0]:
                return False
        elif op == "Ne":
            if a[1] < b[0] or b[1] < a[0]:
                return True
            if a[0] == a[1] == b[0] == b[1]:
                return False
        if st is not None and oa is not None and ob is not None:
            la, lb = self.term_of(st, oa), self.term_of(st, ob)
            if la is not None and lb is not None:
                lt = self.has_rel(st, la, "<", lb)
                le = lt or self.has_rel(st, la, "<=", lb)
                gt = self.has_rel(st, lb, "<", la)
                ge = gt or self.has_rel(st, lb, "<=", la)
                if op == "Lt":
                    return True if lt else (False if ge else None)
                if op == "Le":
                    return True if le else (False if gt else None)
                if op == "Gt":
                    return True if gt else (False if le else None)
                if op == "Ge":
                    return True if ge else (False if lt else None)
                if op == "Ne" and (lt or gt):
                    return True
                if op == "Eq" and (lt or gt):
                    return False
        return None

    def has_rel(self, st, a, o, b):
        if a == b:
            return o == "<="
        if (a, "<", b) in st.rel:
            return True
        if o == "<=" and (a, "<=", b) in st.rel:
            return True
        # one transitive step
        for (x, o1, y) in st.rel:
            if x == a and y != b:
                if (y, "<", b) in st.rel or (y, "<=", b) in st.rel:
                    strict = o1 == "<" or (y, "<", b) in st.rel
                    if o == "<=" or strict:
                        return True
        return False

    def canon(self, st, l):
        if l is None:
            return None
        return st.alias.get(l, l)

    def _narrow_term(self, st, t, r):
        tr = self.term_range(t)
        cur = st.iv.get(t, tr)
        if cur is None:
            cur = (-INF, INF)
        n = (max(cur[0], r[0]), min(cur[1], r[1]))
        if n[0] > n[1]:
            return False
        if n[0] == -INF or n[1] == INF:
            if tr is None:
                return True
            n = clamp_to(n, tr)
        st.iv[t] = n
        return True

    def narrow(self, st, op, r):
        if op[0] == "k":
            c = op_const(op)
            if c and c[1] is not None:
                return r[0] <= c[1] <= r[1]
            return True
        p = op[1]
        if p[1]:
            t = self.place_term(p)
            if t is None or isinstance(t, int):
                return True
            return self._narrow_term(st, t, r)
        l = p[0]
        if self.tr[l] is None:
            return True
        if not self._narrow_term(st, l, r):
            return False
        n = st.iv[l]
        co = st.castof.get(l)
        if co is not None and n[0] >= 0 and n[1] <= co[1][1]:
            # l = src as U (U at least as wide): a result within [0, src::MAX] is the source value itself
            if isinstance(co[0], int):
                if self.tr[co[0]] is not None:
                    self._narrow_term(st, co[0], n)
            else:
                self._narrow_term(st, co[0], n)
        root = st.alias.get(l, l)
        targets = {root}
        for k, v in st.alias.items():
            if v == root:
                targets.add(k)
        targets.discard(l)
        for t in targets:
            if isinstance(t, int) and self.tr[t] is None:
                continue
            self._narrow_term(st, t, n)   # same value: an empty meet cannot happen on a feasible path
        return True

    def refine(self, st, cmpop, oa, ob, truth, ta=None, tb=None):
        """returns False if the edge is infeasible"""
        op = cmpop if truth else NEG[cmpop]
        if op in ("InRange", "OutRange"):
            # oa: the tested operand; ob = (start operand, end operand, inclusive)
            a = self.rng(st, oa)
            lo_r, hi_r = self.rng(st, ob[0]), self.rng(st, ob[1])
            if a is None or lo_r is None or hi_r is None:
                return True
            d = 0 if ob[2] else 1
            if op == "InRange":
                # start <= x <= end (x < end for a half-open range)
                return self.narrow(st, oa, (lo_r[0], hi_r[1] - d))
            # outside: decidable only when one side is excluded by what is already known about x
            if a[0] >= lo_r[1]:
                return self.narrow(st, oa, (hi_r[0] + 1 - d, INF))
            if a[1] <= hi_r[0] - d:
                return self.narrow(st, oa, (-INF, lo_r[1] - 1))
            return True
        a, b = self.rng(st, oa), self.rng(st, ob)
        if a is None or b is None:
            return True
        ok = True
        if op == "Lt":
            ok = self.narrow(st, oa, (-INF, b[1] - 1)) and self.narrow(st, ob, (a[0] + 1, INF))
        elif op == "Le":
            ok = self.narrow(st, oa, (-INF, b[1])) and self.narrow(st, ob, (a[0], INF))
        elif op == "Gt":
            ok = self.narrow(st, oa, (b[0] + 1, INF)) and self.narrow(st, ob, (-INF, a[1] - 1))
        elif op == "Ge":
            ok = self.narrow(st, oa, (b[0], INF)) and self.narrow(st, ob, (-INF, a[1]))
        elif op == "Eq":
            ok = self.narrow(st, oa, b) and self.narrow(st, ob, a)
        elif op == "Ne":
            if b[0] == b[1]:
                if a[0] == b[0]:
                    ok = self.narrow(st, oa, (a[0] + 1, INF))
                elif a[1] == b[0]:
                    ok = self.narrow(st, oa, (-INF, a[1] - 1))
            elif a[0] == a[1]:
                if b[0] == a[0]:
                    ok = self.narrow(st, ob, (b[0] + 1, INF))
                elif b[1] == a[0]:
                    ok = self.narrow(st, ob, (-INF, b[1] - 1))
        if not ok:
            return False
        la = ta if ta is not None else self.term_of(st, oa)
        lb = tb if tb is not None else self.term_of(st, ob)
        if op == "Ne":
            # `x != 0` on a range that spans zero cannot be expressed as an interval: remember it as a fact about the term
            # (and the locals currently equal to it), for the division-by-zero obligations
            for lt, other in ((la, b), (lb, a)):
                if lt is not None and other[0] == other[1] == 0:
                    st.rel.add((lt, "!=", NZ))
                    for k, v in list(st.alias.items())[:64]:
                        if v == lt:
                            st.rel.add((k, "!=", NZ))
        if la is not None and lb is not None and la != lb:
            # the fact is recorded for the canonical terms and for the locals currently known to hold the same values: which
            # term is canonical can differ from one fixpoint round to the next (an alias dropped at a join), and a relation
            # keyed only by the canonical terms would then be lost in the intersection
            ea = [la] + sorted(k for k, v in st.alias.items() if v == la)[:3]
            eb = [lb] + sorted(k for k, v in st.alias.items() if v == lb)[:3]
            for xa in ea:
                for xb in eb:
                    if xa == xb:
                        continue
                    if op == "Lt":
                        st.rel.add((xa, "<", xb))
                    elif op == "Le":
                        st.rel.add((xa, "<=", xb))
                    elif op == "Gt":
                        st.rel.add((xb, "<", xa))
                    elif op == "Ge":
                        st.rel.add((xb, "<=", xa))
                    elif op == "Eq":
                        st.rel.add((xa, "<=", xb))
                        st.rel.add((xb, "<=", xa))
        return True

    # ---- calls --------------------------------------------------------------------------------
    def _payload(self, dest_local, *path):
        return ("P", dest_local, tuple(path))

    def call(self, st, t):
        d = t.d
        dest = d["dest"]
        c = d["callee"]
        args_ops = d["args"]
        atys = d.get("atys") or []
        args = [self.rng(st, a) for a in args_ops]
        arg_terms = [self.term_of(st, a) for a in args_ops]
        short = c.split("::")[-1]
        is_range_next = bool(self.RANGE_NEXT.search(c))
        # ---- effects on memory: every `&mut` argument may write what it points to
        rng_src = None
        for a, aty in zip(args_ops, atys):
            l = op_local(a)
            if l is None:
                continue
            if aty.startswith("&mut") or aty.startswith("*mut"):
                tgt = self._ptr_target(l)
                if tgt is None:
                    # a `&mut` parameter (or a pointer we cannot follow) handed on: everything under it may change
                    for tm in list(st.mem_terms()):
                        if tm[1] == l:
                            st.kill_term(tm)
                    continue
                root, path, exact = tgt
                if not path:
                    if is_range_next and root in st.rngs:
                        rng_src = root
                        continue
                    st.kill(root)
                else:
                    self._kill_overlap(st, root, path, exact, whole_container=not aty.startswith(("&mut [", "*mut [")))
            elif l in st.rngs and not (short in ("into_iter", "rev", "clone", "len", "is_empty")):
                pass
        if dest[1]:
            r = self.resolve_place(dest)
            if r is None:
                self._kill_unknown_write(st)
            elif not r[1]:
                st.kill(r[0])
            else:
                self._kill_overlap(st, r[0], r[1], r[2], whole_container=True)
            return
        l = dest[0]
        tr = self.tr[l]
        new = None
        new_alias = None
        new_rng = None
        rels = []          # (term_a, op, term_b) with 'D' standing for the destination local
        payloads = []      # (path, interval, type range, [(op, term)]) facts about Option/Result payloads
        if tr is not None:
            if (c.startswith("core::cmp::Ord::min") or c.endswith("::min")) and len(args) == 2:
                if args[0] is not None and args[1] is not None:
                    new = (min(args[0][0], args[1][0]), min(args[0][1], args[1][1]))
                    rels += [("D", "<=", arg_terms[0]), ("D", "<=", arg_terms[1])]
            elif (c.startswith("core::cmp::Ord::max") or c.endswith("::max")) and len(args) == 2:
                if args[0] is not None and args[1] is not None:
                    new = (max(args[0][0], args[1][0]), max(args[0][1], args[1][1]))
                    rels += [(arg_terms[0], "<=", "D"), (arg_terms[1], "<=", "D")]
            elif c.endswith("::clamp") and len(args) == 3 and args[1] is not None and args[2] is not None:
                new = (args[1][0], args[2][1])
            elif short == "len" and len(args_ops) == 1 and (re.match(r"^<?(core|alloc|std)::", c) or c in KNOWN_LEN_FNS):
                # lengths of std containers / slices are at most isize::MAX (a user-defined `len` promises nothing)
                new = (0, ISIZE_MAX)
                if short == "len" and len(args_ops) == 1 and (c == "core::slice::<impl [T]>::len" or c == "alloc::vec::Vec::<T, A>::len"
                                                             or c == "core::str::<impl str>::len"):
                    lt = self.len_term(args_ops[0])
                    if lt is not None:
                        new_alias = lt
                        r0 = st.iv.get(lt)
                        if r0 is not None:
                            new = r0
            elif short in ("count_ones", "count_zeros", "leading_zeros", "trailing_zeros", "leading_ones", "trailing_ones"):
                new = (0, 128)
            elif short in ("saturating_sub", "wrapping_sub", "saturating_add", "wrapping_add", "wrapping_mul", "saturating_mul") and len(args) == 2:
                base = {"sub": "Sub", "add": "Add", "mul": "Mul"}[short.split("_")[1]]
                m = self.binop(base, args[0], args[1], tr)
                if m is not None:
                    if short.startswith("saturating"):
                        new = clamp_to(m, tr) if m[0] <= tr[1] and m[1] >= tr[0] else tr
                    elif fits(m, tr):
                        new = m
                if short == "saturating_sub" and tr[0] == 0:
                    rels.append(("D", "<=", arg_terms[0]))
            elif short == "unsigned_abs" and args and args[0] is not None:
                a = args[0]
                new = (0 if a[0] <= 0 <= a[1] else min(abs(a[0]), abs(a[1])), max(abs(a[0]), abs(a[1])))
            elif short in ("rem_euclid",) and len(args) == 2 and args[1] is not None and args[1][0] > 0:
                new = (0, args[1][1] - 1)
            elif short == "abs_diff" and len(args) == 2 and args[0] is not None and args[1] is not None:
                new = (0, max(args[0][1] - args[1][0], args[1][1] - args[0][0]))
            elif short in CONV_NAMES and len(args) == 1:
                if args[0] is not None and fits(args[0], tr):
                    if short in ("from", "into"):
                        new = args[0]
                        if arg_terms[0] is not None:
                            new_alias = arg_terms[0]
                elif atys and atys[0].lstrip("&") in NEWTYPE_RANGES and NEWTYPE_RANGES[atys[0].lstrip("&")] is not None:
                    nr = NEWTYPE_RANGES[atys[0].lstrip("&")]
                    if nr[0] <= tr[1] and nr[1] >= tr[0]:
                        new = clamp_to(nr, tr)
            elif c.endswith("as core::default::Default>::default") and not args_ops:
                new = (0, 0)
            elif short == "clone" and "Clone" in c and len(args_ops) == 1 and op_local(args_ops[0]) is not None:
                # clone of an integer behind a reference: the value stored there
                tgt = self._ptr_target(op_local(args_ops[0]))
                if tgt is not None and tgt[2]:
                    pt = ("P", tgt[0], tgt[1]) if tgt[1] else tgt[0]
                    if not isinstance(pt, int):
                        # learn the field from the reference's definition
                        sdr = self.body.single_def(op_local(args_ops[0]))
                        cur = op_local(args_ops[0])
                        for _ in range(5):
                            sdr = self.body.single_def(cur)
                            if sdr is None or isinstance(sdr[2], Term) or sdr[2][0] != "ref":
                                break
                            fk = self.place_field(sdr[2][2])
                            if fk is not None:
                                self.term_field.setdefault(pt, fk)
                                break
                            if sdr[2][2][1] == ["*"]:
                                cur = sdr[2][2][0]
                            else:
                                break
                        self.term_tr.setdefault(pt, tr)
                    r0 = self.trng(st, pt) if not isinstance(pt, int) else st.iv.get(pt, self.tr[pt])
                    if r0 is not None:
                        new = r0
            elif short in ("pow",) and len(args) == 2 and args[0] is not None and args[1] is not None and args[0][0] >= 0 and args[1][1] < 200:
                try:
                    new = (args[0][0] ** args[1][0], args[0][1] ** args[1][1])
                    if not fits(new, tr):
                        new = None
                except OverflowError:
                    new = None
            m = self.call_models.get(c)
            if m is not None:
                new = m(args, tr)
            rr = RET_RANGES.get(c)
            if rr is not None:
                new = rr if new is None else ((max(new[0], rr[0]), min(new[1], rr[1])) if rr[0] <= new[1] and rr[1] >= new[0] else new)
            if c == "core::option::Option::<T>::unwrap_or" and len(args_ops) == 2 and op_local(args_ops[0]) is not None:
                # the payload of the option, or the default: bounded by whatever bounds both
                pt = ("P", op_local(args_ops[0]), (("d", 1), ("f", 0)))
                pr = st.iv.get(pt) or self.term_tr.get(pt)
                dr = args[1]
                if pr is not None and dr is not None:
                    new = hull(pr, dr)
                dterm = arg_terms[1]
                for (a, o, b2) in list(st.rel):
                    if a == pt and dterm is not None and (b2 == dterm or self.has_rel(st, dterm, "<=", b2)):
                        rels.append(("D", "<=", b2))
            gp = GETTERS.get(c)
            if gp is not None and len(args_ops) == 1 and op_local(args_ops[0]) is not None:
                # `fn len(&self) -> usize { self.top }`: the result is the current value of that field
                gt = self.place_term([op_local(args_ops[0]), gp])
                if gt is not None and not isinstance(gt, int):
                    self.term_tr.setdefault(gt, tr)
                    fk = self.place_field([op_local(args_ops[0]), gp])
                    if fk is not None:
                        self.term_field.setdefault(gt, fk)
                    new_alias = gt
                    r0 = self.trng(st, gt)
                    if r0 is not None:
                        new = r0 if new is None else ((max(new[0], r0[0]), min(new[1], r0[1])) if r0[0] <= new[1] and r0[1] >= new[0] else new)
        else:
            dty = self.body.locals[l][0]
            # ---- counting ranges ------------------------------------------------------------
            if short in ("into_iter", "rev", "clone") and len(args_ops) == 1:
                src = op_local(args_ops[0])
                if src is not None and src in st.rngs and "Range" in dty:
                    new_rng = st.rngs[src]
            elif c == "core::ops::range::RangeInclusive::<Idx>::new" and len(args) == 2 and args[0] is not None and args[1] is not None:
                new_rng = (args[0][0], args[1][1], arg_terms[1], True)
            if is_range_next and rng_src is not None and short in ("next", "next_back", "nth"):
                lo, hi, endt, incl = st.rngs[rng_src]
                itr = None
                m = re.match(r"core::option::Option<(\w+)>$", dty)
                if m:
                    itr = ty_range(m.group(1))
                if itr is not None:
                    top = hi if incl else hi - 1
                    iv = clamp_to((lo, top), itr) if lo <= itr[1] and top >= itr[0] else itr
                    payloads.append(((("d", 1), ("f", 0)), iv, itr, [("<=" if incl else "<", endt)] if endt is not None else []))
            # ---- checked arithmetic / conversions ---------------------------------------------
            m = re.match(r"core::option::Option<((?:u|i)(?:8|16|32|64|128|size))>$", dty)
            if m and short in ("checked_add", "checked_sub", "checked_mul") and len(args) == 2:
                itr = ty_range(m.group(1))
                base = {"add": "Add", "sub": "Sub", "mul": "Mul"}[short.split("_")[1]]
                mm = self.binop(base, args[0], args[1], itr)
                iv = itr
                if mm is not None and mm[0] <= itr[1] and mm[1] >= itr[0]:
                    iv = clamp_to(mm, itr)
                rl = []
                if short == "checked_sub" and args[1] is not None and args[1][0] >= 0 and arg_terms[0] is not None:
                    rl.append(("<=", arg_terms[0]))
                payloads.append(((("d", 1), ("f", 0)), iv, itr, rl))
            elif m and short in ("position", "rposition") and "slice::iter::Iter" in (d.get("cargs") or "") + c:
                rl = []
                lt = self._iter_source_len(args_ops[0]) if args_ops else None
                if lt is not None:
                    rl.append(("<", lt))
                payloads.append(((("d", 1), ("f", 0)), (0, ISIZE_MAX - 1), ty_range(m.group(1)), rl))
            m2 = re.match(r"core::result::Result<((?:u|i)(?:8|16|32|64|128|size)), ", dty)
            if m2 and short in ("try_from", "try_into") and len(args) == 1 and args[0] is not None:
                itr = ty_range(m2.group(1))
                if args[0][0] <= itr[1] and args[0][1] >= itr[0]:
                    payloads.append(((("d", 0), ("f", 0)), clamp_to(args[0], itr), itr, []))
            if dty.startswith("core::result::Result<usize, usize>") and c.startswith("core::slice::<impl [T]>::binary_search"):
                lt = self.len_term(args_ops[0]) if args_ops else None
                payloads.append(((("d", 0), ("f", 0)), (0, ISIZE_MAX - 1), (0, (1 << 64) - 1), [("<", lt)] if lt is not None else []))
                payloads.append(((("d", 1), ("f", 0)), (0, ISIZE_MAX), (0, (1 << 64) - 1), [("<=", lt)] if lt is not None else []))
            if short == "next" and "Enumerate" in c and "slice::iter::Iter" in (d.get("cargs") or "") and dty.startswith("core::option::Option<(usize,"):
                payloads.append(((("d", 1), ("f", 0), ("f", 0)), (0, ISIZE_MAX - 1), (0, (1 << 64) - 1), []))
        new_vf = self._variant_facts(st, c, short, args_ops, atys, args, arg_terms, self.body.locals[l][0])
        carry = self._payload_carry(st, c, short, args_ops, atys, self.body.locals[l][0])
        in_range = self._contains_fact(c, args_ops) if short == "contains" else None
        st.kill(l)
        if in_range is not None:
            st.cmp[l] = in_range
        if short in ("index", "index_mut") and tr is None:
            self._subslice_len_facts(st, t, l)
        if carry is not None:
            pairs, dv = carry
            mp = {ts: ("P", l, (("d", dv), ("f", 0)) + rest) for ts, rest in pairs}
            for ts, td in mp.items():
                self.term_tr[td] = self.term_tr[ts]
                if ts in st.iv:
                    st.iv[td] = st.iv[ts]
            for (a, o, b2) in list(st.rel):
                if a in mp or b2 in mp:
                    st.rel.add((mp.get(a, a), o, mp.get(b2, b2)))
                    if a in mp and b2 not in mp:
                        pass
            for ts, td in mp.items():
                st.rel.add((td, "<=", ts))
                st.rel.add((ts, "<=", td))
        if new_vf is not None:
            st.vf[l] = new_vf
        if new is not None and tr is not None:
            n = clamp_to(new, tr)
            if n[0] <= n[1]:
                st.iv[l] = n
        if new_alias is not None and new_alias != l and not (isinstance(new_alias, tuple) and new_alias[1] == l):
            st.alias[l] = new_alias
        if new_rng is not None:
            st.rngs[l] = new_rng
        for a, o, b in rels:
            a = l if a == "D" else a
            b = l if b == "D" else b
            if a is not None and b is not None and a != b:
                self.add_rel(st, a, o, b)
        for path, iv, itr, rl in payloads:
            t = ("P", l, path)
            self.term_tr[t] = itr
            st.iv[t] = iv
            for o, other in rl:
                if other is not None:
                    self.add_rel(st, t, o, other)
        rf = RET_FACTS.get(c)
        if rf is not None and tr is None:
            # facts the callee establishes about its Ok / Some payload at every return (retsum.ret_facts)
            for path, o, other in rf[1]:
                t = ("P", l, path)
                self.term_tr.setdefault(t, (0, (1 << 64) - 1))
                if other[0] == "rng":
                    self.term_tr[t] = (other[1], other[2]) if fits((other[1], other[2]), self.term_tr[t]) else self.term_tr[t]
                    self._narrow_term(st, t, (other[1], other[2]))
                elif other[0] == "ret":
                    t2 = ("P", l, other[1])
                    self.term_tr.setdefault(t2, (0, (1 << 64) - 1))
                    self.add_rel(st, t, o, t2)
                elif other[0] == "Ip":
                    # relation with an integer parameter of the callee: the argument passed for it at this call
                    pi = other[1]
                    if pi - 1 < len(arg_terms) and arg_terms[pi - 1] is not None:
                        self.add_rel(st, t, o, arg_terms[pi - 1])
                elif other[0] == "Lp":
                    pi = other[1]
                    if pi - 1 < len(args_ops):
                        al = op_local(args_ops[pi - 1])
                        if al is not None:
                            tgt = self._ptr_target(al)
                            if tgt is not None and tgt[2]:
                                lt = ("L", tgt[0], tuple(tgt[1]) + tuple(other[2][1:]))
                            else:
                                lt = ("L", al, tuple(other[2]))
                            self.add_rel(st, t, o, lt)

    def _iter_source_len(self, it_ref_op):
        """length term of the slice a `slice::Iter` was created from: `s.iter()` assigned once to the iterator local"""
        rl = op_local(it_ref_op)
        if rl is None:
            return None
        tgt = self._ptr_target(rl)
        if tgt is None or tgt[1] or not tgt[2]:
            return None
        sd = self.body.single_def(tgt[0])
        if sd is None or not isinstance(sd[2], Term):
            return None
        t = sd[2]
        if t.callee in ("core::slice::<impl [T]>::iter", "core::slice::<impl [T]>::iter_mut") and t.args:
            return self.len_term(t.args[0])
        return None

    INDEX_RE = re.compile(r"^(core::slice::index::<impl core::ops::index::Index(Mut)?<I> for \[T\]>::index(_mut)?|"
                          r"core::array::<impl core::ops::index::Index(Mut)?<I> for \[T; N\]>::index(_mut)?)$")

    def _subslice_len_facts(self, st, t, l):
        """`&s[..n]`, `&s[a..b]`, `&s[a..]`: what is known about the length of the resulting slice"""
        if not self.INDEX_RE.match(t.callee) or len(t.args) != 2:
            return
        rl = op_local(t.args[1])
        if rl is None:
            return
        sd = self.body.single_def(rl)
        if sd is None or isinstance(sd[2], Term):
            return
        rv = sd[2]
        if rv[0] == "use" and op_local(rv[1]) is not None:
            sd = self.body.single_def(op_local(rv[1]))
            if sd is None or isinstance(sd[2], Term):
                return
            rv = sd[2]
        if rv[0] != "agg" or rv[1][0] != "adt" or not rv[1][1].startswith("core::ops::range::Range"):
            return
        kind = rv[1][1].split("::")[-1]
        lt = ("L", l, ("*",))
        src_lt = self.len_term(t.args[0])
        if kind == "RangeTo" and len(rv[2]) == 1:
            e = rv[2][0]
            er = self.rng(st, e)
            if er is not None:
                st.iv[lt] = (max(er[0], 0), min(er[1], ISIZE_MAX))
            et = self.term_of(st, e)
            if et is not None:
                st.rel.add((lt, "<=", et))
                st.rel.add((et, "<=", lt))
        elif kind == "Range" and len(rv[2]) == 2:
            e = rv[2][1]
            er = self.rng(st, e)
            if er is not None:
                st.iv[lt] = (0, min(er[1], ISIZE_MAX))
            et = self.term_of(st, e)
            if et is not None:
                st.rel.add((lt, "<=", et))
        if src_lt is not None and src_lt != lt:
            st.rel.add((lt, "<=", src_lt))

    CONTAINS_RE = re.compile(r"^core::ops::range::(Range|RangeInclusive)::<Idx>::contains$")

    def _contains_fact(self, c, args_ops):
        """`(a..=b).contains(&x)` / `(a..b).contains(&x)` on integers: a comparison-like fact for the bool result"""
        m = self.CONTAINS_RE.match(c)
        if not m or len(args_ops) != 2:
            return None
        rl, xl = op_local(args_ops[0]), op_local(args_ops[1])
        if rl is None or xl is None:
            return None
        rt, xt = self._ptr_target(rl), self._ptr_target(xl)
        if xt is None or xt[1] or not xt[2]:
            return None
        if self.tr[xt[0]] is None:
            return None          # not a plain integer (a newtype compares through its own PartialOrd)
        sd = self.body.single_def(rt[0]) if (rt is not None and not rt[1] and rt[2] and not (0 < rt[0] <= self.body.argc)) else None
        if sd is None or (not isinstance(sd[2], Term) and sd[2][0] == "use" and sd[2][1][0] == "k"):
            # `&(0..=6)` with literal bounds is a promoted constant: the pointer local is `const &Range promoted[k]`
            sdp = self.body.single_def(rl)
            for _ in range(3):
                if sdp is None or isinstance(sdp[2], Term):
                    break
                rvp = sdp[2]
                if rvp[0] == "use" and rvp[1][0] == "k" and len(rvp[1]) > 3 and isinstance(rvp[1][3], str) and rvp[1][3] in PROMOTED_RANGES:
                    a, b2, incl, ty = PROMOTED_RANGES[rvp[1][3]]
                    return ("InRange", ["c", [xt[0], []]], (["k", ty, str(a)], ["k", ty, str(b2)], incl), xt[0], None)
                nxt = None
                if rvp[0] in ("ref", "raw") and rvp[2][1] == ["*"]:
                    nxt = rvp[2][0]
                elif rvp[0] == "use" and op_local(rvp[1]) is not None:
                    nxt = op_local(rvp[1])
                if nxt is None:
                    break
                sdp = self.body.single_def(nxt)
            return None
        rv = sd[2]
        if isinstance(rv, Term):
            if not rv.callee.endswith("RangeInclusive::<Idx>::new") or len(rv.args) != 2:
                return None
            a, b, incl = rv.args[0], rv.args[1], True
        elif rv[0] == "agg" and rv[1][0] == "adt" and rv[1][1] in ("core::ops::range::Range", "core::ops::range::RangeInclusive") and len(rv[2]) == 2:
            a, b, incl = rv[2][0], rv[2][1], rv[1][1].endswith("Inclusive")
        else:
            return None
        for o in (a, b):
            if o[0] != "k":
                ol = op_local(o)
                if ol is None or self.body.single_def(ol) is None or self.tr[ol] is None:
                    return None
        return ("InRange", ["c", [xt[0], []]], (a, b, incl), xt[0], None)

    GET_RE = re.compile(r"^core::slice::<impl \[T\]>::(get|get_mut)$")
    READ_AT_RE = re.compile(r"^read_fonts::font_data::FontData::<'a>::(read_at|read_be_at|read_ref_at)$")

    def _variant_facts(self, st, c, short, args_ops, atys, args, arg_terms, dty):
        """facts that hold when the call's enum result is a particular variant"""
        def some_or_ok(ty):
            if ty.startswith("core::option::Option<"):
                return 1
            if ty.startswith("core::result::Result<"):
                return 0
            if ty.startswith("core::ops::control_flow::ControlFlow<"):
                return 0
            return None
        if self.GET_RE.match(c) and len(args_ops) == 2 and len(atys) == 2 and atys[1] == "usize":
            it = arg_terms[1]
            lt = self.len_term(args_ops[0])
            rels = ((it, "<", lt),) if it is not None and lt is not None else ()
            bnds = ((it, 0, ISIZE_MAX - 1),) if it is not None else ()
            if rels or bnds:
                return (1, rels, bnds)
            return None
        if self.READ_AT_RE.match(c) and len(args_ops) == 2 and arg_terms[1] is not None:
            return (0, (), ((arg_terms[1], 0, ISIZE_MAX - 1),))
        # propagation through the usual adapters
        if len(args_ops) >= 1:
            src = op_local(args_ops[0])
            if src is not None and src not in st.vf and atys and atys[0].startswith("&"):
                # `opt.is_some()` / `res.as_ref()` take a reference to the enum local
                sd = self.body.single_def(src)
                if sd is not None and not isinstance(sd[2], Term) and sd[2][0] == "ref" and not sd[2][2][1] and sd[2][2][0] in st.vf:
                    src = sd[2][2][0]
                    atys = [atys[0].lstrip("&").replace("mut ", "", 1)] + list(atys[1:])
            if src is not None and src in st.vf and atys:
                v = st.vf[src]
                sv = some_or_ok(atys[0])
                dv = some_or_ok(dty)
                if sv is not None and v[0] == sv:
                    if c.endswith("as core::ops::try_trait::Try>::branch") and dv is not None:
                        return (0, v[1], v[2])
                    if short in ("ok_or", "ok_or_else", "map", "copied", "cloned", "map_err", "ok", "as_ref", "as_deref", "inspect",
                                 "and_then_never") and dv is not None:
                        return (dv, v[1], v[2])
                    if short in ("is_some", "is_ok") and dty == "bool":
                        return (1, v[1], v[2])
        return None

    def add_rel(self, st, a, o, b):
        """record a (o) b and tighten the two intervals accordingly; False if that is contradictory"""
        if a is None or b is None or a == b:
            return True
        st.rel.add((a, o, b))
        ra, rb = self.trng(st, a) if not isinstance(a, int) else st.iv.get(a, self.tr[a]), \
            self.trng(st, b) if not isinstance(b, int) else st.iv.get(b, self.tr[b])
        d = 1 if o == "<" else 0
        ok = True
        if rb is not None:
            ok = self._narrow_term(st, a, (-INF, rb[1] - d)) and ok
        if ra is not None:
            ok = self._narrow_term(st, b, (ra[0] + d, INF)) and ok
        return ok

    def _payload_carry(self, st, c, short, args_ops, atys, dty):
        """`opt.ok_or(e)`, `res?` (Try::branch), `map_err`, `ok()`: the integer payload of the success variant is the same
        value in the result -> (source payload term, success variant of the result)"""
        if not args_ops or not atys:
            return None
        src = op_local(args_ops[0])
        if src is None:
            return None

        def succ(ty):
            if ty.startswith("core::option::Option<"):
                return 1
            if ty.startswith("core::result::Result<") or ty.startswith("core::ops::control_flow::ControlFlow<"):
                return 0
            return None
        sv, dv = succ(atys[0]), succ(dty)
        if sv is None or dv is None:
            return None
        if not (c.endswith("as core::ops::try_trait::Try>::branch") or short in ("ok_or", "ok_or_else", "map_err", "ok")):
            return None
        pre = (("d", sv), ("f", 0))
        pairs = []
        for t in list(self.term_tr):
            if isinstance(t, tuple) and t[0] == "P" and t[1] == src and tuple(t[2][:2]) == pre:
                pairs.append((t, tuple(t[2][2:])))
        if not pairs:
            return None
        return pairs, dv

    def _apply_variant_facts(self, st, v):
        for (a, o, b) in v[1]:
            if not self.add_rel(st, a, o, b):
                return False
        for (t, lo, hi) in v[2]:
            if not self._narrow_term(st, t, (lo, hi)):
                return False
        return True

    # ---- fixpoint -----------------------------------------------------------------------------
    def _run(self):
        body = self.body
        init = State()
        for i, r in self.param_ranges.items():
            init.iv[i] = r
        pi = PARAM_INFO.get(body.path)
        if pi:
            self.used_param_info = True
            for i, r in pi.get("ranges", {}).items():
                cur = init.iv.get(i)
                init.iv[i] = r if cur is None or not (cur[0] <= r[1] and cur[1] >= r[0]) else clamp_to(r, cur)
            for j, lo in pi.get("lenlo", {}).items():
                lt = self.len_term(["c", [j, []]])
                if lt is not None:
                    init.iv[lt] = (lo, ISIZE_MAX)
            for (a, o, b) in pi.get("rels", []):
                tb = b if isinstance(b, int) else self.len_term(["c", [b[1], []]])
                if tb is not None:
                    self.add_rel(init, a, o, tb)
        self.in_states[0] = init
        work = [0]
        steps = 0
        limit = 400 * max(1, len(body.blocks))
        while work:
            steps += 1
            if steps > limit:
                # did not converge: nothing may be discharged from these states
                self.converged = False
                self.in_states = {}
                return
            bb = work.pop()
            st = self.in_states[bb].copy()
            blk = body.blocks[bb]
            if blk.cleanup:
                continue
            for j, s in enumerate(blk.stmts):
                if s[0] == "A":
                    self.assign(st, s[1], s[2], bb, j)
                elif s[0] == "D":
                    st.kill(s[1][0])
            t = blk.term
            outs = []
            if t.kind == "call":
                self.call(st, t)
                outs = [(x, st) for x in t.targets]
            elif t.kind == "switch":
                outs = self.switch(st, t)
            elif t.kind == "assert":
                # after a passed assert the condition holds
                s2 = st
                cl = op_local(t.d[1])
                cr0 = self.rng(st, t.d[1])
                if cr0 is not None and cr0[0] == cr0[1] and cr0[0] != (1 if t.d[2] else 0):
                    continue      # the assertion fails on every path reaching it: no successor
                if cl is not None and cl in st.cmp:
                    s2 = st.copy()
                    c = st.cmp[cl]
                    if not self.refine(s2, c[0], c[1], c[2], bool(t.d[2]), c[3], c[4]):
                        s2 = None
                elif t.d[3] == "bounds" and len(t.d[4]) == 2:
                    # Assert(Lt(index, len)) passed
                    s2 = st.copy()
                    if not self.refine(s2, "Lt", t.d[4][1], t.d[4][0], True):
                        s2 = None
                if s2 is not None:
                    outs = [(x, s2) for x in t.targets]
            elif t.kind in ("goto", "drop"):
                if t.kind == "drop":
                    pl = t.d[1]
                    if not pl[1]:
                        st.kill(pl[0])
                outs = [(x, st) for x in t.targets]
            for x, s2 in outs:
                if x not in self.in_states:
                    self.in_states[x] = s2.copy()
                    work.append(x)
                else:
                    cur = self.in_states[x]
                    before = dict(cur.iv)
                    if cur.join(s2):
                        n = self.visits.get(x, 0) + 1
                        self.visits[x] = n
                        if n > 3:
                            for k in list(cur.iv):
                                old = before.get(k)
                                new = cur.iv[k]
                                if old == new or old is None:
                                    continue
                                tr = self.term_range(k) if not (isinstance(k, tuple) and isinstance(k[0], int)) else None
                                if n > 12:
                                    if tr is not None:
                                        cur.iv[k] = tr
                                    else:
                                        del cur.iv[k]
                                    continue
                                lo, hi = new
                                if new[0] < old[0]:
                                    lo = self._widen_lo(new[0])
                                if new[1] > old[1]:
                                    hi = self._widen_hi(new[1])
                                if tr is not None:
                                    lo, hi = max(lo, tr[0]), min(hi, tr[1])
                                elif lo == -INF or hi == INF:
                                    del cur.iv[k]
                                    continue
                                cur.iv[k] = (lo, hi)
                        work.append(x)

    def switch(self, st, t):
        d = t.d
        op = d[1]
        l = op_local(op)
        arms = [(int(v), bb) for v, bb in d[2]]
        # switch values are printed as unsigned bit patterns: reinterpret for signed operand types (Ordering::Less is -1)
        sm = re.match(r"^i(8|16|32|64|128|size)$", d[4] or "")
        if sm:
            bits = 64 if sm.group(1) == "size" else int(sm.group(1))
            arms = [((v - (1 << bits)) if v >= (1 << (bits - 1)) else v, bb) for v, bb in arms]
        otherwise = d[3]
        outs = []
        cmp = st.cmp.get(l) if l is not None else None
        r = self.rng(st, op)
        for val, bb in arms:
            if r is not None and not (r[0] <= val <= r[1]):
                continue
            s2 = st.copy()
            if cmp is not None and d[4] == "bool":
                if not self.refine(s2, cmp[0], cmp[1], cmp[2], val != 0, cmp[3], cmp[4]):
                    continue
            if not self.narrow(s2, op, (val, val)):
                continue
            vfl = st.disc.get(l, l) if l is not None else None
            if vfl is not None and vfl in st.vf and st.vf[vfl][0] == val:
                if not self._apply_variant_facts(s2, st.vf[vfl]):
                    continue
            outs.append((bb, s2))
        # otherwise
        s2 = st.copy()
        feasible = True
        if d[4] == "bool" and len(arms) == 1:
            other = 1 - arms[0][0]
            if r is not None and not (r[0] <= other <= r[1]):
                feasible = False
            if feasible and cmp is not None:
                if not self.refine(s2, cmp[0], cmp[1], cmp[2], other != 0, cmp[3], cmp[4]):
                    feasible = False
            if feasible:
                self.narrow(s2, op, (other, other))
                if l is not None and l in st.vf and st.vf[l][0] == other:
                    feasible = self._apply_variant_facts(s2, st.vf[l])
        elif r is not None:
            vals = sorted(v for v, _ in arms)
            lo, hi = r
            while lo in vals:
                lo += 1
            while hi in vals:
                hi -= 1
            if lo > hi:
                feasible = False
            else:
                self.narrow(s2, op, (lo, hi))
        if feasible:
            outs.append((otherwise, s2))
        return outs

    _KV_TYPES = ("core::result::Result", "core::option::Option", "core::ops::control_flow::ControlFlow")

    def _known_variant(self, l, depth=0):
        """variant index (== discriminant for Result / Option / ControlFlow) of the compiler temporary `l`, if it is assigned
        exactly once, never borrowed mutably, and that assignment builds a fixed variant: an aggregate, a move of such a
        temporary, or `Try::branch` of one (Ok -> Continue, Err -> Break, Some -> Continue, None -> Break)"""
        b = self.body
        if depth > 4 or l is None or l <= b.argc or not str(b.local_name(l)).startswith("_"):
            return None
        if not b.locals[l][0].startswith(self._KV_TYPES):
            return None
        sd = b.single_def(l)
        if sd is None:
            return None
        for blk in b.blocks:
            for st_ in blk.stmts:
                if st_[0] == "A" and st_[2][0] in ("ref", "raw") and (st_[2][1] == "mut" or "Mut" in str(st_[2][1])) and st_[2][2][0] == l:
                    return None
                if st_[0] == "A" and st_[1][0] == l and st_[1][1]:
                    return None     # a write through a projection of l
        rv = sd[2]
        if hasattr(rv, "callee"):
            c = rv.callee
            if c.endswith(" as core::ops::try_trait::Try>::branch") and len(rv.args) == 1:
                a = op_local(rv.args[0])
                p = op_place(rv.args[0])
                if a is None or p is None or p[1]:
                    return None
                v = self._known_variant(a, depth + 1)
                if v is None:
                    return None
                if c.startswith("<core::result::Result<"):
                    return v            # Ok(0) -> Continue(0), Err(1) -> Break(1)
                if c.startswith("<core::option::Option<"):
                    return 1 - v        # None(0) -> Break(1), Some(1) -> Continue(0)
            return None
        if rv[0] == "agg" and rv[1][0] == "adt" and rv[1][1] in self._KV_TYPES:
            return int(rv[1][2])
        if rv[0] == "use" and rv[1][0] in ("c", "m") and not rv[1][1][1]:
            return self._known_variant(rv[1][1][0], depth + 1)
        return None

    # ---- site queries -------------------------------------------------------------------------
    def state_at_term(self, bb):
        """state just before the terminator of bb (None if unreachable)"""
        if bb not in self.in_states:
            return None if self.converged else State()
        st = self.in_states[bb].copy()
        for j, s in enumerate(self.body.blocks[bb].stmts):
            if s[0] == "A":
                self.assign(st, s[1], s[2], bb, j)
            elif s[0] == "D":
                st.kill(s[1][0])
        return st

    def check_assert(self, bb):
        """(discharged, why) for the Assert terminator of bb"""
        t = self.body.blocks[bb].term
        if not self.converged:
            return False, "analysis did not converge"
        st = self.state_at_term(bb)
        if st is None:
            return True, "unreachable (dead by intervals)"
        kind = t.d[3]
        ops = t.d[4]
        cond = t.d[1]
        cr = self.rng(st, cond)
        want = 1 if t.d[2] else 0
        if cr is not None and cr[0] == cr[1] == want and not (kind.startswith("overflow:") and len(ops) == 2):
            return True, "condition is constant by intervals"
        if kind.startswith("overflow:") and len(ops) == 2:
            base = kind.split(":")[1]
            ak = self._avail_key(base, self.term_of(st, ops[0]), self.term_of(st, ops[1]))
            if ak is not None and ak in st.avail:
                return True, "the same checked operation on the same unchanged operands already passed"
            ty = self.op_type(ops[0]) or self.op_type(ops[1])
            if ty is None:
                # both operands are places/constants: the overflow tuple's local knows the type
                cl = op_place(cond)
                if cl is not None:
                    mty = re.match(r"\((\w+), bool\)$", self.body.locals[cl[0]][0])
                    if mty:
                        ty = mty.group(1)
            if base in ("Shl", "Shr"):
                ty = self.op_type(ops[0]) or ty
                b = self.rng(st, ops[1])
                tr = ty_range(ty) if ty else None
                if b is not None and tr is not None:
                    bits = (tr[1] - tr[0]).bit_length()
                    if 0 <= b[0] and b[1] < bits:
                        return True, f"shift amount in [{b[0]}, {b[1]}] < {bits}"
                return False, f"shift amount {b}"
            tr = ty_range(ty) if ty else None
            a, b = self.rng(st, ops[0]), self.rng(st, ops[1])
            if base in ("Div", "Rem") and tr is not None and a is not None and b is not None:
                # the only overflowing signed division is MIN / -1 (MIN % -1)
                if a[0] > tr[0] or b[0] > -1 or b[1] < -1:
                    return True, "dividend excludes MIN or divisor excludes -1"
            m = self.binop(base, a, b, tr)
            if m is not None and tr is not None and fits(m, tr):
                return True, f"{base} of [{a[0]}, {a[1]}] and [{b[0]}, {b[1]}] stays in {ty}"
            ta, tb = self.term_of(st, ops[0]), self.term_of(st, ops[1])
            if base == "Sub" and tr is not None and tr[0] == 0:
                if ta is not None and tb is not None and self.has_rel(st, tb, "<=", ta):
                    return True, "subtrahend <= minuend on this path"
            if base == "Sub" and tr is not None and b is not None and a is not None and b[0] >= 0 and a[0] >= 0 and tr[0] < 0:
                return True, "difference of two non-negative values fits the signed type"
            if base == "Add" and ty in ("usize", "u64", "i64", "isize") and a is not None and b is not None:
                for x, y in ((ops[0], b), (ops[1], a)):
                    if 0 <= y[0] and y[1] <= COUNTER_STEP and self.is_counter(x):
                        self.used_steps_assumption = True
                        return True, "64-bit monotone counter (assumption A-STEPS)"
            if base == "Add" and tr is not None and a is not None and b is not None and a[0] >= 0 and b[0] >= 0:
                ub = self._diff_upper(st, ta, tb)
                if ub is not None:
                    xr = self._ub_range(st, ub)
                    if xr is not None and xr[1] <= tr[1]:
                        return True, "(x - y) + c with c <= y stays at or below x"
            if base == "Add" and tr is not None and b is not None and a is not None:
                # a + c where a < x for some x of the same type: a <= MAX - 1 (and transitively for small constants)
                for (x, o, y) in st.rel:
                    if o == "<" and ((x == ta and b[1] <= 1 and b[0] >= 0) or (x == tb and a[1] <= 1 and a[0] >= 0)):
                        yr = self.trng(st, y)
                        if yr is not None and yr[1] <= tr[1]:
                            return True, "operand is strictly below another value of the same type, so +1 cannot overflow"
            return False, f"{base} of {a} and {b} may leave {ty}"
        if kind == "overflow_neg" and ops:
            a = self.rng(st, ops[0])
            ty = self.op_type(ops[0])
            tr = ty_range(ty) if ty else None
            if a is not None and tr is not None and a[0] > tr[0]:
                return True, f"operand in [{a[0]}, {a[1]}] excludes {ty}::MIN"
            return False, f"operand {a} may be {ty}::MIN"
        if kind in ("div_zero", "rem_zero"):
            # the Assert's operand is the *dividend*; the divisor is the operand the condition `Eq(divisor, 0)` tests
            cl = op_local(cond)
            c = st.cmp.get(cl) if cl is not None else None
            if c is not None and c[0] in ("Eq", "Ne"):
                d_op = None
                for x, y in ((c[1], c[2]), (c[2], c[1])):
                    k = op_const(y) if y[0] == "k" else None
                    if k is not None and k[1] == 0:
                        d_op = x
                if d_op is not None:
                    b = self.rng(st, d_op)
                    if b is not None and (b[0] > 0 or b[1] < 0):
                        return True, f"divisor in [{b[0]}, {b[1]}] excludes 0"
                    td = self.term_of(st, d_op)
                    if td is not None and ((td, "!=", NZ) in st.rel or
                                           any((k, "!=", NZ) in st.rel for k, v in st.alias.items() if v == td)):
                        return True, "divisor was tested != 0 on this path and not changed since"
                    return False, f"divisor {b} may be 0"
            return False, "divisor not identified"
        if kind == "bounds" and len(ops) == 2:
            ln, ix = self.rng(st, ops[0]), self.rng(st, ops[1])
            if ln is not None and ix is not None and ix[1] < ln[0]:
                return True, f"index <= {ix[1]} < len >= {ln[0]}"
            ti, tl = self.term_of(st, ops[1]), self.term_of(st, ops[0])
            if ti is not None and tl is not None and self.has_rel(st, ti, "<", tl):
                return True, "index < len on this path"
            return False, f"index {ix} vs len {ln}"
        return False, kind

    # ---- monotone counters ------------------------------------------------------------------------
    def is_counter(self, op):
        """operand reads a 64-bit variable whose every write is a constant, a value below 2^62, or itself + c with
        0 <= c <= 2^16 (a local of this function, or a struct field registered in COUNTER_FIELDS)"""
        if op[0] == "k":
            return False
        p = op[1]
        if p[1]:
            last = p[1][-1]
            return isinstance(last, list) and last[0] == "f" and len(last) > 3 and (last[3], last[2]) in COUNTER_FIELDS
        return self._counter_local(p[0], 0)

    def _counter_local(self, l, depth):
        if l in self._counter_cache:
            return self._counter_cache[l]
        self._counter_cache[l] = False
        b = self.body
        if depth > 6 or self.body.locals[l][0] not in ("usize", "u64", "i64", "isize"):
            return False
        if 0 < l <= b.argc:
            return False
        # a mutable borrow of the local lets someone else write it
        for k, s in self._uses_of(l):
            if k == "ref" and (s[2][1] == "mut" if s[2][0] == "ref" else "Mut" in str(s[2][1])):
                return False
        ds = b.defs().get(l, [])
        if not ds:
            return False
        self._counter_cache[l] = True    # optimistic for self-reference
        ok = True
        for (bb, j, rv) in ds:
            if isinstance(rv, Term):
                c = rv.callee
                short = c.split("::")[-1]
                if short == "len" and re.match(r"^<?(core|alloc|std)::", c):
                    continue
                ok = False
                break
            k = rv[0]
            if k == "use":
                o = rv[1]
                if o[0] == "k":
                    c = op_const(o)
                    if c and c[1] is not None and 0 <= c[1] < (1 << 62):
                        continue
                    ok = False
                    break
                pl = o[1]
                if len(pl[1]) == 1 and isinstance(pl[1][0], list) and pl[1][0][0] == "f" and pl[1][0][1] == 0:
                    sd = b.single_def(pl[0])
                    if sd is not None and not isinstance(sd[2], Term) and sd[2][0] == "bin" and sd[2][1] == "AddWithOverflow":
                        x, y = sd[2][2], sd[2][3]
                        for u, v in ((x, y), (y, x)):
                            cv = op_const(v) if v[0] == "k" else None
                            ul = op_local(u)
                            if cv and cv[1] is not None and 0 <= cv[1] <= COUNTER_STEP and ul is not None and \
                                    (ul == l or self._counter_local(ul, depth + 1)):
                                break
                        else:
                            ok = False
                            break
                        continue
                    ok = False
                    break
                if not pl[1] and self._counter_local(pl[0], depth + 1):
                    continue
                if pl[1] and self.is_counter(o):
                    continue
                ok = False
                break
            elif k == "cast" and rv[1] == "IntToInt" and rv[4] in ("u8", "u16", "u32", "i8", "i16", "i32") and False:
                continue
            else:
                ok = False
                break
        self._counter_cache[l] = ok
        return ok

    # ---- slice operations ------------------------------------------------------------------------
    def slice_len(self, st, ptr_op, aty=None):
        """(term, interval) for the length of the slice/array/Vec behind pointer operand"""
        t = self.len_term(ptr_op)
        r = None
        if aty:
            m = re.search(r"\[.*; (\d+)\]$", aty.lstrip("&").replace("mut ", "", 1) if aty.startswith("&") else aty)
            if m:
                n = int(m.group(1))
                r = (n, n)
        if t is not None:
            r2 = self.trng(st, t)
            if r2 is not None:
                r = r2 if r is None else (clamp_to(r, r2) if r2[0] <= r[1] and r2[1] >= r[0] else r)
        if r is None:
            r = (0, ISIZE_MAX)
        return t, r

    def le_len(self, st, op, lt, lr):
        """operand <= length (term lt, interval lr)?"""
        r = self.rng(st, op)
        if r is not None and r[1] <= lr[0]:
            return True
        t = self.term_of(st, op)
        if t is not None and lt is not None and self.has_rel(st, t, "<=", lt):
            return True
        return False

    def lt_len(self, st, op, lt, lr):
        """operand < length (term lt, interval lr)?"""
        r = self.rng(st, op)
        if r is not None and r[1] < lr[0]:
            return True
        t = self.term_of(st, op)
        return t is not None and lt is not None and self.has_rel(st, t, "<", lt)

    def le(self, st, oa, ob):
        a, b = self.rng(st, oa), self.rng(st, ob)
        if a is not None and b is not None and a[1] <= b[0]:
            return True
        ta, tb = self.term_of(st, oa), self.term_of(st, ob)
        return ta is not None and tb is not None and self.has_rel(st, ta, "<=", tb)
