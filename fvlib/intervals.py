"""Interval analysis with guard refinement over one MIR body (no values from input are ever computed: every
integer is abstracted by a range derived from its type, constants, arithmetic and the branch conditions that
dominate it).  Used to *discharge* panic-capable sites inside declared zones; a site it cannot discharge is
reported, never silently accepted."""
import re

from .mir import Term, op_place, op_local, op_const

INT_RE = re.compile(r"^(u|i)(8|16|32|64|128|size)$")
INF = float("inf")


def ty_range(ty):
    m = INT_RE.match(ty)
    if m:
        bits = 64 if m.group(2) == "size" else int(m.group(2))
        if m.group(1) == "u":
            return (0, (1 << bits) - 1)
        return (-(1 << (bits - 1)), (1 << (bits - 1)) - 1)
    if ty == "bool":
        return (0, 1)
    if ty == "char":
        return (0, 0x10FFFF)
    return None


def hull(a, b):
    return (min(a[0], b[0]), max(a[1], b[1]))


def clamp_to(r, tr):
    return (max(r[0], tr[0]), min(r[1], tr[1]))


def fits(r, tr):
    return r[0] >= tr[0] and r[1] <= tr[1]


NEG = {"Lt": "Ge", "Le": "Gt", "Gt": "Le", "Ge": "Lt", "Eq": "Ne", "Ne": "Eq"}
SWAP = {"Lt": "Gt", "Le": "Ge", "Gt": "Lt", "Ge": "Le", "Eq": "Eq", "Ne": "Ne"}


class State:
    __slots__ = ("iv", "alias", "cmp", "rel", "ovf")

    def __init__(self):
        self.iv = {}      # local or (local, field) -> (lo, hi)
        self.alias = {}   # tmp -> source local (tmp is a plain copy of source)
        self.cmp = {}     # bool local -> (op, a_operand, b_operand)
        self.rel = set()  # (a_local, "<"|"<=", b_local)
        self.ovf = {}     # local -> (op, a, b) for *WithOverflow tuples / checked results

    def copy(self):
        s = State()
        s.iv = dict(self.iv)
        s.alias = dict(self.alias)
        s.cmp = dict(self.cmp)
        s.rel = set(self.rel)
        s.ovf = dict(self.ovf)
        return s

    def kill(self, l):
        self.iv.pop(l, None)
        for k in [k for k in self.iv if isinstance(k, tuple) and k[0] == l]:
            del self.iv[k]
        self.alias.pop(l, None)
        for k in [k for k, v in self.alias.items() if v == l]:
            del self.alias[k]
        self.cmp.pop(l, None)
        for k in [k for k, v in self.cmp.items() if op_local(v[1]) == l or op_local(v[2]) == l]:
            del self.cmp[k]
        self.ovf.pop(l, None)
        self.rel = {r for r in self.rel if r[0] != l and r[2] != l}

    def join(self, o, body):
        """in-place join with o; returns True if changed"""
        changed = False
        for k in list(self.iv):
            if k in o.iv:
                h = hull(self.iv[k], o.iv[k])
                if h != self.iv[k]:
                    self.iv[k] = h
                    changed = True
            else:
                del self.iv[k]
                changed = True
        for d_self, d_o in ((self.alias, o.alias), (self.cmp, o.cmp), (self.ovf, o.ovf)):
            for k in list(d_self):
                if d_o.get(k) != d_self[k]:
                    del d_self[k]
                    changed = True
        nr = self.rel & o.rel
        if nr != self.rel:
            self.rel = nr
            changed = True
        return changed


class Intervals:
    def __init__(self, body, param_ranges=None, call_models=None):
        self.body = body
        self.tr = [ty_range(t[0]) for t in body.locals]
        self.param_ranges = param_ranges or {}
        self.call_models = call_models or {}
        self.in_states = {}
        self.visits = {}
        self.site_results = {}   # (bb, 'term'|idx) -> (ok, description)
        self._run()

    # ---- evaluation -------------------------------------------------------------------------
    def rng(self, st, op):
        """interval of an operand (None if not an integer)"""
        if op[0] == "k":
            c = op_const(op)
            tr = ty_range(c[0])
            if tr is None:
                return None
            if c[1] is not None:
                return (c[1], c[1])
            return tr
        p = op[1]
        l = p[0]
        if not p[1]:
            tr = self.tr[l]
            if tr is None:
                return None
            r = st.iv.get(l, tr)
            a = st.alias.get(l)
            if a is not None and a in st.iv:
                r = clamp_to(r, st.iv[a]) if st.iv[a][0] <= r[1] and st.iv[a][1] >= r[0] else r
            return r
        if len(p[1]) == 1 and isinstance(p[1][0], list) and p[1][0][0] == "f":
            k = (l, p[1][0][1])
            if k in st.iv:
                return st.iv[k]
        return None

    def op_type(self, op):
        if op[0] == "k":
            return op[1]
        p = op[1]
        if not p[1]:
            return self.body.locals[p[0]][0]
        return None

    def binop(self, op, a, b, tr):
        """math result interval (unwrapped) or None"""
        if a is None or b is None:
            return None
        if op == "Add":
            return (a[0] + b[0], a[1] + b[1])
        if op == "Sub":
            return (a[0] - b[1], a[1] - b[0])
        if op == "Mul":
            c = [a[0] * b[0], a[0] * b[1], a[1] * b[0], a[1] * b[1]]
            return (min(c), max(c))
        if op == "BitAnd":
            if a[0] >= 0 and b[0] >= 0:
                return (0, min(a[1], b[1]))
            if b[0] >= 0:
                return (0, b[1])
            if a[0] >= 0:
                return (0, a[1])
            return None
        if op == "BitOr" or op == "BitXor":
            if a[0] >= 0 and b[0] >= 0:
                m = max(a[1], b[1])
                return (0, (1 << m.bit_length()) - 1)
            return None
        if op == "Shr":
            if a[0] >= 0 and b[0] >= 0:
                return (a[0] >> min(b[1], 200), a[1] >> b[0])
            if b[0] >= 0:
                return (a[0] >> b[0] if a[0] < 0 else a[0] >> min(b[1], 200), a[1] >> b[0] if a[1] >= 0 else a[1] >> min(b[1], 200))
            return None
        if op == "Shl":
            if a[0] >= 0 and b[0] >= 0 and b[1] < 128:
                return (a[0] << b[0], a[1] << b[1])
            return None
        if op == "Div":
            if b[0] > 0:
                c = [int(a[0] / b[0]), int(a[0] / b[1]), int(a[1] / b[0]), int(a[1] / b[1])]
                return (min(c), max(c))
            return None
        if op == "Rem":
            if b[0] > 0:
                if a[0] >= 0:
                    return (0, min(a[1], b[1] - 1))
                return (-(b[1] - 1), b[1] - 1)
            return None
        return None

    # ---- transfer -----------------------------------------------------------------------------
    def assign(self, st, place, rv, bb, idx):
        if place[1]:
            # field write to a tracked tuple? just forget the local
            if not (place[1][0] == "*"):
                st.kill(place[0])
            return
        l = place[0]
        k = rv[0]
        new_iv = None
        new_alias = None
        new_cmp = None
        new_ovf = None
        tr = self.tr[l]
        if k == "use":
            r = self.rng(st, rv[1])
            if r is not None and tr is not None:
                new_iv = clamp_to(r, tr)
            src = op_local(rv[1])
            if src is not None:
                new_alias = st.alias.get(src, src)
                if src in st.cmp:
                    new_cmp = st.cmp[src]
                if src in st.ovf:
                    new_ovf = st.ovf[src]
            else:
                p = op_place(rv[1])
                if p is not None and len(p[1]) == 1 and isinstance(p[1][0], list) and p[1][0][0] == "f" and p[1][0][1] == 0:
                    # (_t.0) of a WithOverflow tuple
                    pass
        elif k == "bin":
            op = rv[1]
            a, b = self.rng(st, rv[2]), self.rng(st, rv[3])
            if op.endswith("WithOverflow"):
                base = op[:-len("WithOverflow")]
                oty = rv[4]
                otr = ty_range(oty)
                m = self.binop(base, a, b, otr)
                st.kill(l)
                if otr is not None:
                    st.iv[(l, 0)] = m if (m is not None and fits(m, otr)) else otr
                    st.iv[(l, 1)] = (0, 0) if (m is not None and fits(m, otr)) else (0, 1)
                st.ovf[l] = (base, rv[2], rv[3])
                return
            if op in NEG:
                new_cmp = (op, rv[2], rv[3])
                new_iv = (0, 1)
                if a is not None and b is not None:
                    t = self.decide(op, a, b, st, rv[2], rv[3])
                    if t is not None:
                        new_iv = (1, 1) if t else (0, 0)
            elif tr is not None:
                m = self.binop(op, a, b, tr)
                if m is not None and fits(m, tr):
                    new_iv = m
                elif op in ("Shr", "BitAnd", "Rem", "Div") and m is not None:
                    new_iv = clamp_to(m, tr)
        elif k == "un":
            a = self.rng(st, rv[2])
            if rv[1] == "Not" and self.op_type(rv[2]) == "bool":
                src = op_local(rv[2])
                if src is not None and src in st.cmp:
                    c = st.cmp[src]
                    new_cmp = (NEG[c[0]], c[1], c[2])
                if a is not None:
                    new_iv = (1 - a[1], 1 - a[0])
            elif rv[1] == "Neg" and a is not None and tr is not None:
                m = (-a[1], -a[0])
                if fits(m, tr):
                    new_iv = m
            elif rv[1] == "PtrMetadata":
                new_iv = (0, (1 << 63) - 1)
        elif k == "cast":
            a = self.rng(st, rv[2])
            if rv[1] == "IntToInt" and tr is not None:
                if a is not None and fits(a, tr):
                    new_iv = a
                    src = op_local(rv[2])
                else:
                    new_iv = tr
            elif tr is not None:
                new_iv = tr
        elif k == "disc":
            new_iv = None
        st.kill(l)
        if new_iv is not None:
            st.iv[l] = new_iv
        if new_alias is not None and new_alias != l:
            st.alias[l] = new_alias
        if new_cmp is not None:
            st.cmp[l] = new_cmp
        if new_ovf is not None:
            st.ovf[l] = new_ovf
        # field 0 of an overflow tuple moved out
        if k == "use":
            p = op_place(rv[1])
            if p is not None and len(p[1]) == 1 and isinstance(p[1][0], list) and p[1][0][0] == "f":
                key = (p[0], p[1][0][1])
                if key in st.iv and tr is not None:
                    st.iv[l] = clamp_to(st.iv[key], tr)

    def decide(self, op, a, b, st=None, oa=None, ob=None):
        if op == "Lt":
            if a[1] < b[0]:
                return True
            if a[0] >= b[1]:
                return False
        elif op == "Le":
            if a[1] <= b[0]:
                return True
            if a[0] > b[1]:
                return False
        elif op == "Gt":
            if a[0] > b[1]:
                return True
            if a[1] <= b[0]:
                return False
        elif op == "Ge":
            if a[0] >= b[1]:
                return True
            if a[1] < b[0]:
                return False
        elif op == "Eq":
            if a[0] == a[1] == b[0] == b[1]:
                return True
            if a[1] < b[0] or b[1] < a[0]:
                return False
        elif op == "Ne":
            if a[1] < b[0] or b[1] < a[0]:
                return True
            if a[0] == a[1] == b[0] == b[1]:
                return False
        if st is not None and oa is not None and ob is not None:
            la, lb = self.canon(st, op_local(oa)), self.canon(st, op_local(ob))
            if la is not None and lb is not None:
                if op == "Lt" and (la, "<", lb) in st.rel:
                    return True
                if op == "Le" and ((la, "<", lb) in st.rel or (la, "<=", lb) in st.rel):
                    return True
                if op == "Ge" and (la, "<", lb) in st.rel:
                    return False
                if op == "Gt" and ((la, "<", lb) in st.rel or (la, "<=", lb) in st.rel):
                    return False
                if op == "Gt" and (lb, "<", la) in st.rel:
                    return True
                if op == "Ge" and ((lb, "<", la) in st.rel or (lb, "<=", la) in st.rel):
                    return True
        return None

    def canon(self, st, l):
        if l is None:
            return None
        return st.alias.get(l, l)

    def narrow(self, st, op, r):
        l = op_local(op)
        if l is None or self.tr[l] is None:
            return True
        cur = st.iv.get(l, self.tr[l])
        n = (max(cur[0], r[0]), min(cur[1], r[1]))
        if n[0] > n[1]:
            return False
        st.iv[l] = n
        a = st.alias.get(l)
        targets = {l}
        if a is not None:
            targets.add(a)
        root = a if a is not None else l
        for k, v in st.alias.items():
            if v == root:
                targets.add(k)
        targets.add(root)
        for t in targets:
            if self.tr[t] is None:
                continue
            c = st.iv.get(t, self.tr[t])
            m = (max(c[0], n[0]), min(c[1], n[1]))
            if m[0] <= m[1]:
                st.iv[t] = m
        return True

    def refine(self, st, cmpop, oa, ob, truth):
        """returns False if the edge is infeasible"""
        op = cmpop if truth else NEG[cmpop]
        a, b = self.rng(st, oa), self.rng(st, ob)
        if a is None or b is None:
            return True
        ok = True
        if op == "Lt":
            ok = self.narrow(st, oa, (-INF, b[1] - 1)) and self.narrow(st, ob, (a[0] + 1, INF))
        elif op == "Le":
            ok = self.narrow(st, oa, (-INF, b[1])) and self.narrow(st, ob, (a[0], INF))
        elif op == "Gt":
            ok = self.narrow(st, oa, (b[0] + 1, INF)) and self.narrow(st, ob, (-INF, a[1] - 1))
        elif op == "Ge":
            ok = self.narrow(st, oa, (b[0], INF)) and self.narrow(st, ob, (-INF, a[1]))
        elif op == "Eq":
            ok = self.narrow(st, oa, b) and self.narrow(st, ob, a)
        elif op == "Ne":
            if b[0] == b[1]:
                if a[0] == b[0]:
                    ok = self.narrow(st, oa, (a[0] + 1, INF))
                elif a[1] == b[0]:
                    ok = self.narrow(st, oa, (-INF, a[1] - 1))
        la, lb = self.canon(st, op_local(oa)), self.canon(st, op_local(ob))
        if la is not None and lb is not None and la != lb:
            if op == "Lt":
                st.rel.add((la, "<", lb))
            elif op == "Le":
                st.rel.add((la, "<=", lb))
            elif op == "Gt":
                st.rel.add((lb, "<", la))
            elif op == "Ge":
                st.rel.add((lb, "<=", la))
        return ok

    def call(self, st, t):
        d = t.d
        dest = d["dest"]
        c = d["callee"]
        if dest[1]:
            st.kill(dest[0])
            return
        l = dest[0]
        tr = self.tr[l]
        args = [self.rng(st, a) for a in d["args"]]
        new = None
        short = c.split("::")[-1]
        if tr is not None:
            if c.startswith("core::cmp::Ord::min") or re.search(r"core::cmp::(impls::)?.*Ord.*>::min$", c) or c.endswith("::min") and len(args) == 2:
                if args[0] is not None and args[1] is not None:
                    new = (min(args[0][0], args[1][0]), min(args[0][1], args[1][1]))
            elif (c.startswith("core::cmp::Ord::max") or c.endswith("::max")) and len(args) == 2:
                if args[0] is not None and args[1] is not None:
                    new = (max(args[0][0], args[1][0]), max(args[0][1], args[1][1]))
            elif c.endswith("::clamp") and len(args) == 3 and args[1] is not None and args[2] is not None:
                new = (args[1][0], args[2][1])
            elif short in ("len", "count", "count_ones", "leading_zeros", "trailing_zeros") or c.endswith("::len"):
                new = (0, (1 << 63) - 1) if short in ("len", "count") else (0, 128)
            elif short in ("saturating_sub", "wrapping_sub", "saturating_add", "wrapping_add", "wrapping_mul", "saturating_mul") and len(args) == 2:
                base = {"sub": "Sub", "add": "Add", "mul": "Mul"}[short.split("_")[1]]
                m = self.binop(base, args[0], args[1], tr)
                if m is not None:
                    if short.startswith("saturating"):
                        new = clamp_to(m, tr) if m[0] <= tr[1] and m[1] >= tr[0] else tr
                    elif fits(m, tr):
                        new = m
            elif short == "unsigned_abs" and args and args[0] is not None:
                a = args[0]
                new = (0 if a[0] <= 0 <= a[1] else min(abs(a[0]), abs(a[1])), max(abs(a[0]), abs(a[1])))
            elif short == "rem_euclid" and len(args) == 2 and args[1] is not None and args[1][0] > 0:
                new = (0, args[1][1] - 1)
            elif short in ("from", "into") and args and args[0] is not None and fits(args[0], tr):
                new = args[0]
            elif short == "abs_diff" and len(args) == 2 and args[0] is not None and args[1] is not None:
                new = (0, max(args[0][1] - args[1][0], args[1][1] - args[0][0]))
            m = self.call_models.get(c)
            if m is not None:
                new = m(args, tr)
        st.kill(l)
        if new is not None and tr is not None:
            n = clamp_to(new, tr)
            if n[0] <= n[1]:
                st.iv[l] = n

    # ---- fixpoint -----------------------------------------------------------------------------
    def _run(self):
        body = self.body
        init = State()
        for i, r in self.param_ranges.items():
            init.iv[i] = r
        self.in_states[0] = init
        work = [0]
        while work:
            bb = work.pop()
            st = self.in_states[bb].copy()
            blk = body.blocks[bb]
            if blk.cleanup:
                continue
            for j, s in enumerate(blk.stmts):
                if s[0] == "A":
                    self.assign(st, s[1], s[2], bb, j)
                elif s[0] == "D":
                    st.kill(s[1][0])
            t = blk.term
            outs = []
            if t.kind == "call":
                self.call(st, t)
                outs = [(x, st) for x in t.targets]
            elif t.kind == "switch":
                outs = self.switch(st, t)
            elif t.kind == "assert":
                # after a passed assert the condition holds
                s2 = st
                cl = op_local(t.d[1])
                if cl is not None and cl in st.cmp:
                    s2 = st.copy()
                    c = st.cmp[cl]
                    self.refine(s2, c[0], c[1], c[2], bool(t.d[2]))
                kind = t.d[3]
                if kind.startswith("overflow:") and len(t.d[4]) == 2:
                    pass
                outs = [(x, s2) for x in t.targets]
            elif t.kind in ("goto", "drop"):
                outs = [(x, st) for x in t.targets]
            for x, s2 in outs:
                if x not in self.in_states:
                    self.in_states[x] = s2.copy()
                    work.append(x)
                else:
                    cur = self.in_states[x]
                    before = dict(cur.iv)
                    if cur.join(s2, body):
                        n = self.visits.get(x, 0) + 1
                        self.visits[x] = n
                        if n > 3:
                            # widen: anything that moved goes to its type range
                            for k in list(cur.iv):
                                if before.get(k) != cur.iv[k]:
                                    l = k[0] if isinstance(k, tuple) else k
                                    tr = self.tr[l] if not isinstance(k, tuple) else None
                                    if tr is not None:
                                        cur.iv[k] = tr
                                    else:
                                        del cur.iv[k]
                        if n < 60:
                            work.append(x)

    def switch(self, st, t):
        d = t.d
        op = d[1]
        l = op_local(op)
        arms = [(int(v), bb) for v, bb in d[2]]
        otherwise = d[3]
        outs = []
        cmp = st.cmp.get(l) if l is not None else None
        r = self.rng(st, op)
        for val, bb in arms:
            if r is not None and not (r[0] <= val <= r[1]):
                continue
            s2 = st.copy()
            if cmp is not None and d[4] == "bool":
                if not self.refine(s2, cmp[0], cmp[1], cmp[2], val != 0):
                    continue
            self.narrow(s2, op, (val, val))
            outs.append((bb, s2))
        # otherwise
        s2 = st.copy()
        feasible = True
        if d[4] == "bool" and len(arms) == 1:
            other = 1 - arms[0][0]
            if r is not None and not (r[0] <= other <= r[1]):
                feasible = False
            if feasible and cmp is not None:
                if not self.refine(s2, cmp[0], cmp[1], cmp[2], other != 0):
                    feasible = False
            if feasible:
                self.narrow(s2, op, (other, other))
        elif r is not None:
            vals = sorted(v for v, _ in arms)
            lo, hi = r
            while lo in vals:
                lo += 1
            while hi in vals:
                hi -= 1
            if lo > hi:
                feasible = False
            else:
                self.narrow(s2, op, (lo, hi))
        if feasible:
            outs.append((otherwise, s2))
        return outs

    # ---- site queries -------------------------------------------------------------------------
    def state_at_term(self, bb):
        """state just before the terminator of bb (None if unreachable)"""
        if bb not in self.in_states:
            return None
        st = self.in_states[bb].copy()
        for j, s in enumerate(self.body.blocks[bb].stmts):
            if s[0] == "A":
                self.assign(st, s[1], s[2], bb, j)
            elif s[0] == "D":
                st.kill(s[1][0])
        return st

    def check_assert(self, bb):
        """(discharged, why) for the Assert terminator of bb"""
        t = self.body.blocks[bb].term
        st = self.state_at_term(bb)
        if st is None:
            return True, "unreachable (dead by intervals)"
        kind = t.d[3]
        ops = t.d[4]
        cond = t.d[1]
        cr = self.rng(st, cond)
        want = 1 if t.d[2] else 0
        if cr is not None and cr[0] == cr[1] == want:
            return True, "condition is constant by intervals"
        if kind.startswith("overflow:") and len(ops) == 2:
            base = kind.split(":")[1]
            ty = self.op_type(ops[0]) or self.op_type(ops[1])
            if base in ("Shl", "Shr"):
                ty = self.op_type(ops[0])
                b = self.rng(st, ops[1])
                tr = ty_range(ty) if ty else None
                if b is not None and tr is not None:
                    bits = (tr[1] - tr[0]).bit_length()
                    if 0 <= b[0] and b[1] < bits:
                        return True, f"shift amount in [{b[0]}, {b[1]}] < {bits}"
                return False, f"shift amount {b}"
            tr = ty_range(ty) if ty else None
            a, b = self.rng(st, ops[0]), self.rng(st, ops[1])
            m = self.binop(base, a, b, tr)
            if m is not None and tr is not None and fits(m, tr):
                return True, f"{base} of [{a[0]}, {a[1]}] and [{b[0]}, {b[1]}] stays in {ty}"
            # relational: a - b with b <= a
            if base == "Sub" and tr is not None and tr[0] == 0:
                la, lb = self.canon(st, op_local(ops[0])), self.canon(st, op_local(ops[1]))
                if la is not None and lb is not None and ((lb, "<", la) in st.rel or (lb, "<=", la) in st.rel):
                    return True, "subtrahend <= minuend on this path"
            return False, f"{base} of {a} and {b} may leave {ty}"
        if kind == "overflow_neg" and ops:
            a = self.rng(st, ops[0])
            ty = self.op_type(ops[0])
            tr = ty_range(ty) if ty else None
            if a is not None and tr is not None and a[0] > tr[0]:
                return True, f"operand in [{a[0]}, {a[1]}] excludes {ty}::MIN"
            return False, f"operand {a} may be {ty}::MIN"
        if kind in ("div_zero", "rem_zero") and ops:
            b = self.rng(st, ops[0])
            if b is not None and (b[0] > 0 or b[1] < 0):
                return True, f"divisor in [{b[0]}, {b[1]}] excludes 0"
            return False, f"divisor {b} may be 0"
        if kind == "bounds" and len(ops) == 2:
            ln, ix = self.rng(st, ops[0]), self.rng(st, ops[1])
            if ln is not None and ix is not None and ix[1] < ln[0]:
                return True, f"index <= {ix[1]} < len >= {ln[0]}"
            la, lb = self.canon(st, op_local(ops[1])), self.canon(st, op_local(ops[0]))
            if la is not None and lb is not None and (la, "<", lb) in st.rel:
                return True, "index < len on this path"
            return False, f"index {ix} vs len {ln}"
        return False, kind
