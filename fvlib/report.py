"""Findings, known-findings matching, evidence files, exit codes."""
import json
import os
import sys
import time

from .facts import VERIF

KNOWN_PATH = os.path.join(VERIF, "known_findings.json")
EVDIR = os.environ.get("FV_EVIDENCE_DIR", os.path.join(VERIF, "evidence"))


class AnchorMissing(Exception):
    pass


class Check:
    def __init__(self, pid, tier, seed=0):
        self.pid = pid
        self.tier = tier
        self.seed = seed
        self.t0 = time.time()
        self.findings = []       # dicts
        self.rules = {}          # rule id -> {"obligations": n, "discharged": n, "instances": [...], ...}
        self.samples = []
        self.assumptions = []
        self.configs = []
        self.notes = []
        self.stats = {}

    # ---- recording ------------------------------------------------------------------
    def rule(self, rid, text):
        r = self.rules.setdefault(rid, {"rule": text, "obligations": 0, "discharged": 0,
                                        "instances": []})
        return r

    def ob(self, rid, desc, ok, *, key=None, file=None, line=None, fn=None, detail=None, why=None):
        """One obligation of rule `rid`.  ok=False makes it a finding."""
        r = self.rules[rid]
        r["obligations"] += 1
        if ok:
            r["discharged"] += 1
            if len(r["instances"]) < 400:
                r["instances"].append(desc if why is None else f"{desc} -- {why}")
        else:
            self.finding(rid, key or desc, desc, file=file, line=line, fn=fn, detail=detail)
        return ok

    def finding(self, rid, key, msg, *, file=None, line=None, fn=None, detail=None):
        f = {"property": self.pid, "rule": rid, "key": f"{rid}|{key}", "message": msg,
             "file": file, "line": line, "function": fn, "detail": detail,
             "config": self.configs[-1] if self.configs else None}
        # same key from several configurations is one finding
        for g in self.findings:
            if g["key"] == f["key"]:
                return
        self.findings.append(f)

    def floor(self, rid, what, count, minimum):
        """Fail closed when a rule matches far fewer instances than were confirmed by hand.  The effective floor is half
        the confirmed count (at least 1): it exists to catch a rule that silently stopped matching, not to freeze
        today's numbers -- removing an arithmetic site or merging two call sites is not a violation."""
        confirmed = minimum
        minimum = max(1, minimum // 2) if minimum > 1 else minimum
        r = self.rules[rid]
        r.setdefault("floors", []).append({"what": what, "count": count, "floor": minimum, "confirmed_by_hand": confirmed})
        if count < minimum:
            self.finding(rid, f"floor|{what}", f"{what}: found {count}, confirmed floor is {minimum} "
                         f"(rule would pass vacuously)")
            r["obligations"] += 1
        else:
            r["obligations"] += 1
            r["discharged"] += 1

    def anchor(self, rid, what, value):
        if value is None or value == [] or value is False:
            self.rule(rid, self.rules.get(rid, {}).get("rule", rid))
            self.finding(rid, f"anchor|{what}", f"anchor not found: {what} (fail closed; if this is a rename, "
                         f"update the rule configuration)")
            raise AnchorMissing(what)
        return value

    def sample(self, s):
        if len(self.samples) < 40:
            self.samples.append(s)

    def assume(self, a):
        if a not in self.assumptions:
            self.assumptions.append(a)

    # ---- finishing ------------------------------------------------------------------
    def finish(self):
        known = {"known": [], "fixed": []}
        if os.path.exists(KNOWN_PATH):
            known = json.load(open(KNOWN_PATH))
        known_keys = {(k["property"], k["key"]): k for k in known.get("known", [])}
        os.makedirs(os.path.join(EVDIR, "replay"), exist_ok=True)
        # remove stale replay files of this property
        rdir = os.path.join(EVDIR, "replay")
        for f in os.listdir(rdir):
            if f.startswith(self.pid + "-"):
                os.remove(os.path.join(rdir, f))
        violations = 0
        known_hits = 0
        for i, f in enumerate(self.findings):
            kk = (self.pid, f["key"])
            if kk in known_keys:
                known_hits += 1
                print(f"KNOWN-FINDING: property={self.pid} {known_keys[kk]['what']} [{f['key']}]")
                continue
            violations += 1
            rp = os.path.join(rdir, f"{self.pid}-{i}.json")
            with open(rp, "w") as fh:
                json.dump(f, fh, indent=1)
            where = f"{f['file']}:{f['line']}" if f.get("file") else ""
            print(f"VIOLATION property={self.pid} replay={rp}")
            print(f"  rule={f['rule']} {where} fn={f.get('function')}\n  {f['message']}")
            if f.get("detail"):
                print(f"  detail: {f['detail']}")
        obligations = sum(r["obligations"] for r in self.rules.values())
        discharged = sum(r["discharged"] for r in self.rules.values())
        rule_summ = {}
        for rid, r in self.rules.items():
            rr = dict(r)
            rr["instances_total"] = r["discharged"]
            rr["instances"] = r["instances"][:25]
            rule_summ[rid] = rr
        ev = {
            "property_id": self.pid,
            "tier": self.tier,
            "seed": self.seed,
            "level": "other",
            "coverage": {
                "explanation": ("static analysis of /repo's current source (type-checked MIR via a rustc_private "
                                "driver, syn-level analysis of generated files, rustc-compiled type witnesses); "
                                "no library code is executed.  Each rule below decides a structural clause that "
                                "is a necessary condition of the property, for all paths of the analysed code; "
                                "it does not decide the value-level behaviour."),
                "obligations": obligations,
                "discharged": discharged,
                "evaluations": max(obligations, 1),
                "distinct_nontrivial": max(discharged, 0),
                "rule": "one obligation = one rule instance (call site / CFG path set / type fact / table) "
                        "found in the current tree; distinct by finding key",
                "samples": self.samples[:40] or ["(none)"],
                "rules": rule_summ,
                "configurations": self.configs,
                "stats": self.stats,
                "known_findings_matched": known_hits,
                "checker_cmd": f"./fv check {self.pid} --tier {self.tier}",
                "trusted_base": ["rustc nightly type checker / MIR builder", "fvdriver fact dumper",
                                 "fvlib analyses"],
                "exhaustive": False,
            },
            "assumptions": self.assumptions,
            "wall_s": round(time.time() - self.t0, 2),
            "violations": violations,
            "notes": self.notes,
        }
        os.makedirs(EVDIR, exist_ok=True)
        with open(os.path.join(EVDIR, f"{self.pid}.json"), "w") as fh:
            json.dump(ev, fh, indent=1)
        print(f"[fv] {self.pid} tier={self.tier}: {obligations} obligations, {discharged} discharged, "
              f"{violations} violations, {known_hits} known findings, {ev['wall_s']}s", file=sys.stderr)
        return 1 if violations else 0
