"""Parameter preconditions established by *all* call sites (top-down summaries; the dual of retsum).

A function f is *closed* when every way of entering it is a direct call visible in the analysed crates:
  - f is a free function or an inherent method (not a trait method, not a trait impl item, not a closure),
  - its visibility is restricted (private / pub(crate) / pub(super)): no code outside the crate can name it,
  - its path never appears as a function *value* (fn pointer, `map(Self::f)`, ...) in any analysed body, and
  - it has at least one call site.
For a closed f, a fact about its parameters that holds at every (reachable) call site in the caller's interval state
holds on entry to f.  The facts are drawn from a fixed template family:
      lo <= p_i <= hi                        (hull over the call sites)
      p_i <  p_j,   p_i <= p_j                (integer parameters)
      p_i <  len(p_j),  p_i <= len(p_j)       (p_j a slice / array / Vec reference)
      lo <= len(p_j)
Callers are analysed with their own preconditions (demand driven, depth limited; a call-graph cycle is cut by assuming
nothing for the function in progress), so every summary is sound on its own; together with the field invariants and
the return summaries this is an assume/guarantee induction over execution steps: the first step that violated any of
the three kinds of fact would have to be computed from values that all still satisfy them.

What this buys: a panic site whose safety rests on a guard in the *caller* (`if start > end { return }` before
`page.insert_range(start, end)`) is proved instead of being tolerated by the baseline, so removing that guard is
reported as a new unproven site.
"""
import re

from . import intervals
from .intervals import Intervals, hull, ty_range
from .mir import Term, op_local

MAX_DEPTH = 3
MAX_BLOCKS = 600
INT_TYS = ("u8", "u16", "u32", "u64", "usize", "i8", "i16", "i32", "i64", "isize")
SLICE_RE = re.compile(r"^&(mut )?(\[.*\]|alloc::vec::Vec<.*>)$")


def _fn_consts(o, out):
    if isinstance(o, list) and o and o[0] == "k" and len(o) > 2 and isinstance(o[2], list) and o[2] and o[2][0] == "fn":
        out.add(o[2][1])


class ArgSum:
    def __init__(self, facts):
        self.facts = facts
        self.callers = {}      # callee path -> [(caller path, bb)]
        self.fnref = set()     # paths used as function values
        self.info = {}         # path -> info dict (possibly empty) ; absent = not computed
        self.reg = {}          # path -> non-empty info: what intervals.PARAM_INFO points at while this Facts is analysed
        self.inprogress = set()
        self.tainted = set()   # iv computed while its own info was in progress
        self.iv_cache = {}
        self.iv_order = []
        self.stats = {"closed": 0, "with_facts": 0, "callsites": 0}
        for c in facts.crates:
            for b in facts.all_bodies(c, kinds=("fn", "closure", "const")):
                for bi, blk in enumerate(b.blocks):
                    for st in blk.stmts:
                        if st[0] != "A":
                            continue
                        rv = st[2]
                        for x in rv[1:]:
                            if isinstance(x, list):
                                _fn_consts(x, self.fnref)
                                if x and isinstance(x[0], list):
                                    for y in x:
                                        _fn_consts(y, self.fnref)
                    t = blk.term
                    if t.kind == "call":
                        for a in t.args:
                            _fn_consts(a, self.fnref)
                        if t.d.get("ck") == "item":
                            self.callers.setdefault(t.callee, []).append((b.path, bi))
                        elif t.d.get("ck") != "item":
                            # a call through a function value / virtual call: whatever path it names is "used as a value"
                            self.fnref.add(t.callee)
        from .mir import strip_generics
        self.fnref |= {strip_generics(p) for p in self.fnref}

    # ---- closedness -------------------------------------------------------------------------------
    def closed(self, b):
        d = b.d
        return (b.kind == "fn" and d.get("vis") == "restricted" and not d.get("impl_trait") and not d.get("in_trait")
                and b.path not in self.fnref and bool(self.callers.get(b.path)) and b.argc > 0)

    # ---- analyses ---------------------------------------------------------------------------------
    def iv_of(self, b, depth=0):
        p = b.path
        iv = self.iv_cache.get(p)
        if iv is not None:
            return iv
        if len(b.blocks) > MAX_BLOCKS:
            return None
        self.ensure(b, depth)
        iv = self._mk(b)
        if p in self.inprogress:
            return iv          # analysed without its own (unfinished) summary: do not cache
        self.iv_cache[p] = iv
        self.iv_order.append(p)
        if len(self.iv_order) > 2500:
            old = self.iv_order.pop(0)
            self.iv_cache.pop(old, None)
        return iv

    def _mk(self, b):
        saved = intervals.PARAM_INFO
        intervals.PARAM_INFO = self.reg
        try:
            return Intervals(b)
        finally:
            intervals.PARAM_INFO = saved

    def ensure(self, b, depth=0):
        """compute (once) and register the entry facts of b"""
        p = b.path
        if p in self.info or p in self.inprogress:
            return
        if not self.closed(b) or depth > MAX_DEPTH:
            if depth <= MAX_DEPTH:
                self.info[p] = {}
            return
        self.inprogress.add(p)
        try:
            info = self._summarise(b, depth)
        finally:
            self.inprogress.discard(p)
        self.info[p] = info
        self.stats["closed"] += 1
        if info:
            self.stats["with_facts"] += 1
            self.reg[p] = info
        self.iv_cache.pop(p, None)

    def _summarise(self, b, depth):
        ints = [i for i in range(1, b.argc + 1) if b.locals[i][0] in INT_TYS]
        slices = [i for i in range(1, b.argc + 1) if SLICE_RE.match(b.locals[i][0])]
        if not ints and not slices:
            return {}
        ext = [(cp, bb) for cp, bb in self.callers[b.path] if cp != b.path]
        own = [bb for cp, bb in self.callers[b.path] if cp == b.path]
        if not ext:
            return {}
        acc = None
        n = 0
        for cp, bb in ext:
            cb = self.facts.body(cp, _fuzzy=False)
            if cb is None:
                return {}
            iv = self.iv_of(cb, depth + 1)
            if iv is None or not iv.converged:
                return {}
            site = self._site_facts(b, ints, slices, cb, iv, bb)
            if site is False:
                return {}
            if site is None:
                continue      # this call is dead
            n += 1
            acc = site if acc is None else self._meet(acc, site)
        if acc is None:
            return {}         # every call site is dead: claim nothing
        info = self._pack(b, acc, n)
        if own and info:
            # direct recursion: the facts must be preserved by the function's own calls, assuming them on entry
            # (induction over the call depth); shrink until they are, give up after a few rounds
            if len(b.blocks) > MAX_BLOCKS:
                return {}
            for _ in range(4):
                self.reg[b.path] = info
                try:
                    iv = self._mk(b)
                finally:
                    self.reg.pop(b.path, None)
                if not iv.converged:
                    return {}
                acc2 = acc
                for bb in own:
                    site = self._site_facts(b, ints, slices, b, iv, bb)
                    if site is False:
                        return {}
                    if site is not None:
                        acc2 = self._meet(acc2, site)
                info2 = self._pack(b, acc2, n + len(own))
                if info2 == dict(info, sites=info2.get("sites")):
                    info = info2
                    break
                acc, info = acc2, info2
                if not info:
                    return {}
            else:
                return {}
        self.stats["callsites"] += n
        return info

    def _site_facts(self, b, ints, slices, cb, iv, bb):
        """facts about the arguments of the call in block bb of caller cb: (ranges, rels, lenlo); None if the call is
        dead, False if it cannot be evaluated"""
        if cb.blocks[bb].cleanup:
            return False      # the interval analysis does not follow unwinding paths
        st = iv.state_at_term(bb)
        if st is None:
            return None
        t = cb.blocks[bb].term
        if len(t.args) != b.argc:
            return False      # e.g. a spread ("rust-call") signature
        atys = t.d.get("atys") or [None] * b.argc
        r_here = {}
        for i in ints:
            r = iv.rng(st, t.args[i - 1])
            if r is not None:
                r_here[i] = r
        rel_here = set()
        for i in ints:
            for j in ints:
                if i == j:
                    continue
                if self._lt(iv, st, t.args[i - 1], t.args[j - 1]):
                    rel_here.add((i, "<", j))
                    rel_here.add((i, "<=", j))
                elif iv.le(st, t.args[i - 1], t.args[j - 1]):
                    rel_here.add((i, "<=", j))
        len_here = {}
        for j in slices:
            lt, lr = iv.slice_len(st, t.args[j - 1], atys[j - 1])
            len_here[j] = lr[0]
            for i in ints:
                if iv.lt_len(st, t.args[i - 1], lt, lr):
                    rel_here.add((i, "<", ("len", j)))
                    rel_here.add((i, "<=", ("len", j)))
                elif iv.le_len(st, t.args[i - 1], lt, lr):
                    rel_here.add((i, "<=", ("len", j)))
        return (r_here, rel_here, len_here)

    @staticmethod
    def _meet(a, s):
        return ({i: hull(a[0][i], s[0][i]) for i in a[0] if i in s[0]}, a[1] & s[1],
                {j: min(a[2][j], s[2][j]) for j in a[2] if j in s[2]})

    @staticmethod
    def _pack(b, acc, n):
        ranges, rels, lenlo = acc
        info = {}
        rr = {i: r for i, r in ranges.items() if r != ty_range(b.locals[i][0])}
        if rr:
            info["ranges"] = rr
        if rels:
            info["rels"] = sorted(rels, key=repr)
        ll = {j: v for j, v in lenlo.items() if v > 0}
        if ll:
            info["lenlo"] = ll
        if info:
            info["sites"] = n
        return info

    @staticmethod
    def _lt(iv, st, oa, ob):
        a, b = iv.rng(st, oa), iv.rng(st, ob)
        if a is not None and b is not None and a[1] < b[0]:
            return True
        ta, tb = iv.term_of(st, oa), iv.term_of(st, ob)
        return ta is not None and tb is not None and ta != tb and iv.has_rel(st, ta, "<", tb)


def get(facts):
    a = getattr(facts, "_argsum", None)
    if a is None:
        a = facts._argsum = ArgSum(facts)
    return a
