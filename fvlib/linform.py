"""Linear forms Σ coeff·field along CFG paths (for sibling agreement of size computations)."""
from .mir import op_place, op_const
from .typestate import Explorer, ret_class


def f_add(a, b):
    if a is None or b is None:
        return None
    d = dict(a)
    for k, v in b:
        d[k] = d.get(k, 0) + v
    return tuple(sorted((k, v) for k, v in d.items() if v != 0))


def f_scale(a, c):
    if a is None:
        return None
    return tuple(sorted((k, v * c) for k, v in a if v * c != 0))


def f_const(a):
    """value if the form is a pure constant"""
    if a is None:
        return None
    if a == ():
        return 0
    if len(a) == 1 and a[0][0] == "1":
        return a[0][1]
    return None


class LinEval:
    """on_stmt/on_call callbacks that keep {local: form} inside the explorer state (state = (labels, forms))"""

    def __init__(self, body, self_param, sizes, label_of_switch):
        self.body = body
        self.self_param = self_param
        self.sizes = sizes          # type string -> (size, align)
        self.label_of_switch = label_of_switch

    def form_of(self, forms, op):
        if op[0] == "k":
            c = op_const(op)
            return (("1", c[1]),) if c[1] is not None and c[1] != 0 else (() if c[1] == 0 else None)
        p = op[1]
        l, pr = p[0], p[1]
        if not pr:
            return forms.get(l)
        # (*self).field
        if l == self.self_param and len(pr) == 2 and pr[0] == "*" and pr[1][0] == "f":
            return ((pr[1][2], 1),)
        # overflow tuple .0
        if len(pr) == 1 and isinstance(pr[0], list) and pr[0][0] == "f" and pr[0][1] == 0:
            return forms.get(l)
        return None

    def on_stmt(self, bb, j, st, state, env, trace):
        if st[0] != "A" or st[1][1]:
            return None
        labels, forms = state
        forms = dict(forms)
        l = st[1][0]
        rv = st[2]
        new = None
        if rv[0] == "use":
            new = self.form_of(forms, rv[1])
        elif rv[0] == "bin":
            op = rv[1].replace("WithOverflow", "")
            a, b = self.form_of(forms, rv[2]), self.form_of(forms, rv[3])
            if op == "Add":
                new = f_add(a, b)
            elif op == "Mul":
                ca, cb = f_const(a), f_const(b)
                if cb is not None:
                    new = f_scale(a, cb)
                elif ca is not None:
                    new = f_scale(b, ca)
        elif rv[0] == "cast":
            new = self.form_of(forms, rv[2])
        if new is None:
            forms.pop(l, None)
        else:
            forms[l] = new
        return (labels, tuple(sorted(forms.items())))

    def on_call(self, bb, t, state, env, trace):
        labels, forms = state
        c = t.callee
        if c in ("core::mem::size_of", "core::mem::align_of") and not t.dest[1]:
            ty = t.d["cargs"].strip("[]")
            sz = self.sizes.get(ty)
            forms = dict(forms)
            if sz is None:
                forms.pop(t.dest[0], None)
            else:
                forms[t.dest[0]] = (("1", sz[0] if c.endswith("size_of") else sz[1]),)
            return [((labels, tuple(sorted(forms.items()))), None)]
        return None
