"""E2 — agreement between generated reader / shape marker / getters (and writers): interprets the generated files'
functions in the finite grammar font-codegen emits and fails closed on anything else."""
import json
import os
import re
import subprocess
import tempfile

from .facts import VERIF, REPO

BIN = os.path.join(VERIF, "gencheck", "target", "debug", "gencheck")


def ensure_built():
    r = subprocess.run(["bash", os.path.join(VERIF, "gencheck", "build.sh")], stdout=subprocess.PIPE, stderr=subprocess.STDOUT, text=True)
    if r.returncode or not os.path.exists(BIN):
        raise SystemExit("fv: gencheck build failed\n" + r.stdout)


def dump(files):
    ensure_built()
    with tempfile.NamedTemporaryFile(suffix=".jsonl", delete=False) as tf:
        out = tf.name
    r = subprocess.run([BIN, out] + files, stdout=subprocess.PIPE, stderr=subprocess.STDOUT, text=True)
    if r.returncode:
        raise SystemExit("fv: gencheck failed: " + r.stdout[-2000:])
    res = [json.loads(l) for l in open(out)]
    os.unlink(out)
    return res


def generated_files(sub):
    d = os.path.join(REPO, sub, "generated")
    return sorted(os.path.join(d, f) for f in os.listdir(d) if f.startswith("generated_") and f.endswith(".rs"))


def norm_ty(t):
    t = re.sub(r"\s+", "", t)
    t = t.replace("'a,", "").replace("<'a>", "").replace("<'_>", "")
    m = re.match(r"^(Nullable|BigEndian)<(.*)>$", t)
    if m:
        return norm_ty(m.group(2))
    return t


# ---- marker range functions --------------------------------------------------------------------
R_START_ZERO = re.compile(r"^let start = 0 ;$")
R_START_PREV = re.compile(r"^let start = self \. (\w+)_byte_range \(\) \. end ;$")
R_START_FIELD = re.compile(r"^let start = self \. (\w+)_byte_start \? ;$")
R_START_CHAIN = re.compile(r"^let start = (self \. \w+_byte_range \(\) \. map \(\| range \| range \. end\) \. unwrap_or_else \(\| \| .*\)) ;$")
R_RANGE_TY = re.compile(r"^(Some \()?\s*start \.\. start \+ ([\w<>:, ]+?) :: RAW_BYTE_LEN\s*\)?$")
R_RANGE_LEN = re.compile(r"^(Some \()?\s*start \.\. start \+ self \. (\w+)_byte_len( \?)?\s*\)?$")


def parse_chain(s):
    """self.A_byte_range().map(|range| range.end).unwrap_or_else(|| <rest>)  ->  [A, ...optional..., base]"""
    out = []
    while True:
        m = re.match(r"^\{?\s*self \. (\w+)_byte_range \(\) \. map \(\| range \| range \. end\) \. unwrap_or_else \(\| \| (.*)\)\s*\}?$", s)
        if m:
            out.append(("opt", m.group(1)))
            s = m.group(2).strip()
            continue
        m = re.match(r"^\{?\s*self \. (\w+)_byte_range \(\) \. end\s*\}?$", s)
        if m:
            out.append(("req", m.group(1)))
            return out
        if re.match(r"^\{?\s*0\s*\}?$", s):
            out.append(("zero", None))
            return out
        return None


def parse_range_fn(f):
    name = f["name"][:-len("_byte_range")]
    st = f["stmts"]
    if len(st) != 2:
        return None
    opt = f["ret"].startswith("Option")
    start = None
    if R_START_ZERO.match(st[0]):
        start = ("zero",)
    else:
        m = R_START_PREV.match(st[0])
        if m:
            start = ("prev", m.group(1))
        else:
            m = R_START_FIELD.match(st[0])
            if m:
                start = ("field", m.group(1))
            else:
                m = R_START_CHAIN.match(st[0])
                if m:
                    ch = parse_chain(m.group(1))
                    if ch:
                        start = ("chain", ch)
    if start is None:
        return None
    m = R_RANGE_TY.match(st[1])
    if m:
        ln = ("ty", norm_ty(m.group(2)))
    else:
        m = R_RANGE_LEN.match(st[1])
        if not m:
            return None
        ln = ("len", m.group(2), bool(m.group(3)))
    wrapped = st[1].startswith("Some")
    if wrapped != opt:
        return None
    return {"name": name, "start": start, "len": ln, "optional": opt, "line": f["line"]}


# ---- read() bodies -----------------------------------------------------------------------------------
S_CURSOR = re.compile(r"^let (mut )?cursor = data \. cursor \(\) ;$")
S_ARGS = re.compile(r"^let (\w+|\([\w ,]+\)) = \* args ;$")
S_READ = re.compile(r"^let (\w+) : ([\w<>:, ']+) = cursor \. read \(\) \? ;$")
S_ADV = re.compile(r"^cursor \. advance :: < ([\w<>:, ']+) > \(\) ;$")
S_ADVBY = re.compile(r"^cursor \. advance_by \((\w+)_byte_len\) ;$")
S_LEN = re.compile(r"^let (\w+)_byte_len = (.*) ;$")
S_START = re.compile(r"^let (\w+)_byte_start = (.+?) \. then \(\| \| cursor \. position \(\)\) \. transpose \(\) \? ;$")
S_CADV = re.compile(r"^(.+?) \. then \(\| \| cursor \. advance :: < ([\w<>:, ']+) > \(\)\) ;$")
S_CREAD = re.compile(r"^let (\w+) = (.+?) \. then \(\| \| cursor \. read :: < ([\w<>:, ']+) > \(\)\) \. transpose \(\) \?( \. unwrap_or_default \(\))? ;$")
S_CADVBY = re.compile(r"^if let Some \((\w+)\) = (\w+)_byte_len \{ cursor \. advance_by \(\1\) ; \}$")
S_FINISH = re.compile(r"^cursor \. finish \((\w+) \{(.*)\}\)$")
S_PEEK = re.compile(r"^let (\w+) : ([\w<>:, ']+) = data \. read_at \((\w+)\) \? ;$")


def parse_read(f):
    """returns (steps, finish_marker, finish_fields, problems)"""
    steps = []
    problems = []
    finish = None
    lens = {}
    for s in f["stmts"]:
        if S_CURSOR.match(s) or S_ARGS.match(s):
            continue
        m = S_READ.match(s)
        if m:
            steps.append({"k": "adv", "ty": norm_ty(m.group(2)), "bind": m.group(1), "cond": None})
            continue
        m = S_ADV.match(s)
        if m:
            steps.append({"k": "adv", "ty": norm_ty(m.group(1)), "bind": None, "cond": None})
            continue
        m = S_ADVBY.match(s)
        if m:
            steps.append({"k": "advby", "len": m.group(1), "cond": None})
            continue
        m = S_START.match(s)
        if m:
            steps.append({"k": "start", "name": m.group(1), "cond": m.group(2)})
            continue
        m = S_CREAD.match(s)
        if m:
            steps.append({"k": "adv", "ty": norm_ty(m.group(3)), "bind": m.group(1), "cond": m.group(2)})
            continue
        m = S_CADV.match(s)
        if m:
            steps.append({"k": "adv", "ty": norm_ty(m.group(2)), "bind": None, "cond": m.group(1)})
            continue
        m = S_CADVBY.match(s)
        if m:
            steps.append({"k": "advby", "len": m.group(2), "cond": "len-is-some"})
            continue
        m = S_LEN.match(s)
        if m:
            lens[m.group(1)] = m.group(2)
            continue
        m = S_FINISH.match(s)
        if m:
            finish = (m.group(1), [x.strip().split(":")[0].strip() for x in m.group(2).split(",") if x.strip()])
            continue
        problems.append(s)
    return steps, finish, lens, problems


# ---- getters -----------------------------------------------------------------------------------------
G_RANGE = re.compile(r"^let range = self \. shape \. (\w+)_byte_range \(\)( \?)? ;$")
G_READ_AT = re.compile(r"^(Some \()?\s*self \. data \. read_at \(range \. start\) \. unwrap \(\)\s*\)?$")
G_READ_ARRAY = re.compile(r"^(Some \()?\s*self \. data \. read_array \(range\) \. unwrap \(\)\s*\)?$")
G_READ_ARGS = re.compile(r"^(Some \()?\s*self \. data \. read_with_args \(range , .*\) \. unwrap \(\)\s*,?\s*\)?$")
G_SPLIT_READ = re.compile(r"^(Some \()?\s*([\w:]+) :: read \(self \. data \. split_off \(range \. start\) \. unwrap \(\)\) \. unwrap \(\)\s*\)?$")
G_SLICE_READ = re.compile(r"^(Some \()?\s*([\w:]+) :: read \(self \. data \. slice \(range\) \. unwrap \(\)\) \. unwrap \(\)\s*\)?$")
G_SHAPE_FIELD = re.compile(r"^self \. shape \. (\w+)$")


def parse_getter(f):
    st = f["stmts"]
    if len(st) == 1:
        m = G_SHAPE_FIELD.match(st[0])
        if m:
            return {"name": f["name"], "kind": "shape_field", "field": m.group(1), "unwraps": f["unwraps"]}
        return None
    if len(st) != 2:
        return None
    m = G_RANGE.match(st[0])
    if not m:
        return None
    field, opt = m.group(1), bool(m.group(2))
    body = st[1]
    for rx, kind in ((G_READ_AT, "read_at"), (G_READ_ARRAY, "read_array"), (G_READ_ARGS, "read_with_args"),
                     (G_SPLIT_READ, "split_off_read"), (G_SLICE_READ, "slice_read")):
        mm = rx.match(body)
        if mm:
            if body.startswith("Some") != opt:
                return None
            return {"name": f["name"], "kind": kind, "field": field, "optional": opt, "ret": f["ret"], "unwraps": f["unwraps"],
                    "line": f["line"]}
    return None


def table_model(file_items):
    """collect markers with their range fns, read fns and getters"""
    structs = {it["name"]: it for it in file_items if it["k"] == "struct"}
    aliases = {}
    for it in file_items:
        if it["k"] == "type":
            m = re.match(r"^TableRef < 'a , (\w+)(?: < .* >)? >$", it["ty"])
            if m:
                aliases[it["name"]] = m.group(1)
    markers = {}
    for name, st in structs.items():
        if name.endswith("Marker"):
            markers[name] = {"struct": st, "ranges": [], "read": None, "getters": [], "other_fns": []}
    for it in file_items:
        if it["k"] != "impl":
            continue
        self_ty = it["self_ty"]
        base = re.sub(r"\s*<.*$", "", self_ty).strip()
        if base in markers and it["trait"] is None:
            for f in it["fns"]:
                if f["name"].endswith("_byte_range"):
                    markers[base]["ranges"].append(f)
                else:
                    markers[base]["other_fns"].append(f)
        elif it["trait"] and re.match(r"^FontRead(WithArgs)? < 'a >$", it["trait"]) and base in aliases:
            mk = aliases[base]
            for f in it["fns"]:
                if f["name"] in ("read", "read_with_args"):
                    markers[mk]["read"] = f
        elif it["trait"] is None and base in aliases:
            mk = aliases[base]
            for f in it["fns"]:
                markers[mk]["getters"].append(f)
    return markers, aliases


# ---- agreement ---------------------------------------------------------------------------------------
def fields_from_read(steps):
    out = []
    pending = None
    problems = []
    for s in steps:
        if s["k"] == "start":
            if pending is not None:
                problems.append(f"two position captures in a row ({pending['name']}, {s['name']})")
            pending = s
        elif s["k"] == "adv":
            if s["cond"]:
                if pending is None or pending["cond"] != s["cond"]:
                    problems.append(f"conditional advance::<{s['ty']}> under `{s['cond']}` without a matching position capture")
                    out.append({"start": ("seq",), "len": ("ty", s["ty"]), "optional": True, "cond": s["cond"], "bind": s.get("bind")})
                else:
                    out.append({"start": ("field", pending["name"]), "len": ("ty", s["ty"]), "optional": True, "cond": s["cond"], "bind": s.get("bind")})
                pending = None
            else:
                if pending is not None:
                    problems.append(f"position capture {pending['name']} not followed by its conditional step")
                    pending = None
                out.append({"start": ("seq",), "len": ("ty", s["ty"]), "optional": False, "cond": None, "bind": s.get("bind")})
        elif s["k"] == "advby":
            if s["cond"]:
                if pending is None:
                    problems.append(f"conditional advance_by({s['len']}) without a position capture")
                    out.append({"start": ("seq",), "len": ("len", s["len"]), "optional": True, "cond": "?"})
                else:
                    out.append({"start": ("field", pending["name"]), "len": ("len", s["len"]), "optional": True, "cond": pending["cond"]})
                pending = None
            else:
                if pending is not None:
                    problems.append(f"position capture {pending['name']} not followed by its conditional step")
                    pending = None
                out.append({"start": ("seq",), "len": ("len", s["len"]), "optional": False, "cond": None})
    if pending is not None:
        problems.append(f"dangling position capture {pending['name']}")
    return out, problems


def check_marker(mname, m, report):
    """report(ok, key, msg, line) for each obligation.  Returns counts."""
    ranges = []
    for f in m["ranges"]:
        r = parse_range_fn(f)
        if r is None:
            report(False, f"{mname}|range-grammar|{f['name']}", f"{mname}::{f['name']}: statement shape outside the generated grammar: {f['stmts']}", f["line"])
            return None
        ranges.append(r)
    if m["read"] is None:
        # no generated read(): nothing to agree with (hand-written read)
        return {"ranges": ranges, "fields": None, "lens": {}, "noread": True}
    steps, finish, lens, problems = parse_read(m["read"])
    for p in problems:
        report(False, f"{mname}|read-grammar|{p[:40]}", f"{mname}::read: statement outside the generated grammar: `{p}`", m["read"]["line"])
    if finish is None:
        report(False, f"{mname}|no-finish", f"{mname}::read does not end in cursor.finish(..)", m["read"]["line"])
        return None
    report(finish[0] == mname, f"{mname}|finish-marker", f"{mname}::read finishes with {finish[0]}", m["read"]["line"])
    fields, fprob = fields_from_read(steps)
    for p in fprob:
        report(False, f"{mname}|read-seq|{p[:50]}", f"{mname}::read: {p}", m["read"]["line"])
    if problems or fprob:
        return None
    ok_len = len(fields) == len(ranges)
    report(ok_len, f"{mname}|field-count", f"{mname}: read() walks {len(fields)} fields, marker has {len(ranges)} byte ranges", m["read"]["line"])
    if not ok_len:
        return None
    for i, (fd, rg) in enumerate(zip(fields, ranges)):
        nm = rg["name"]
        # lengths
        if fd["len"][0] == "ty":
            okl = rg["len"] == ("ty", fd["len"][1])
        else:
            okl = rg["len"][0] == "len" and rg["len"][1] == fd["len"][1] and fd["len"][1] == nm
        report(okl, f"{mname}|len|{nm}", f"{mname}.{nm}: read() advances {fd['len']}, marker range is start + {rg['len']}", rg["line"])
        # optionality
        report(fd["optional"] == rg["optional"], f"{mname}|optional|{nm}",
               f"{mname}.{nm}: read() treats the field as {'conditional' if fd['optional'] else 'unconditional'}, marker returns {'Option' if rg['optional'] else 'Range'}", rg["line"])
        # start
        if fd["start"][0] == "field":
            oks = rg["start"] == ("field", fd["start"][1]) and fd["start"][1] == nm
        else:
            if i == 0:
                oks = rg["start"] == ("zero",)
            elif rg["start"][0] == "prev":
                oks = rg["start"][1] == ranges[i - 1]["name"] and not ranges[i - 1]["optional"]
            elif rg["start"][0] == "chain":
                ch = rg["start"][1]
                oks = True
                j = i - 1
                for kind, a in ch:
                    if kind == "zero":
                        oks = oks and j == -1
                        break
                    if j < 0 or ranges[j]["name"] != a:
                        oks = False
                        break
                    if kind == "opt":
                        oks = oks and ranges[j]["optional"]
                        j -= 1
                    else:
                        oks = oks and not ranges[j]["optional"]
                        break
            else:
                oks = False
        report(oks, f"{mname}|start|{nm}", f"{mname}.{nm}: range starts at {rg['start']}; read() reaches it {'at a captured position' if fd['start'][0] == 'field' else 'right after field ' + (ranges[i - 1]['name'] if i else '<start>')}", rg["line"])
    # finish(...) passes exactly the marker's fields
    sf = [f["name"] for f in m["struct"]["fields"]]
    report(sorted(sf) == sorted(finish[1]), f"{mname}|finish-fields", f"{mname}: finish passes {sorted(finish[1])}, struct has {sorted(sf)}", m["read"]["line"])
    return {"ranges": ranges, "fields": fields, "lens": lens, "noread": False}


def check_getters(mname, m, model, report):
    ranges = {r["name"]: r for r in model["ranges"]}
    order = [r["name"] for r in model["ranges"]]
    lens = model["lens"]
    n = 0
    unwraps = 0
    for f in m["getters"]:
        if not f["stmts"] or "self . shape ." not in f["stmts"][0]:
            if f["unwraps"] or f["expects"] or f["panics"]:
                # offset resolvers etc. must not unwrap
                report(False, f"{mname}|stray-unwrap|{f['name']}", f"{mname}::{f['name']} contains unwrap/expect/panic outside a recognised getter form", f["line"])
            continue
        g = parse_getter(f)
        n += 1
        if g is None:
            report(False, f"{mname}|getter-grammar|{f['name']}", f"{mname}::{f['name']}: getter shape outside the generated grammar: {f['stmts']}", f["line"])
            continue
        unwraps += g["unwraps"]
        if g["kind"] == "shape_field":
            continue
        rg = ranges.get(g["field"])
        if rg is None:
            report(False, f"{mname}|getter-field|{f['name']}", f"{mname}::{f['name']} reads range `{g['field']}` which the marker does not define", f["line"])
            continue
        report(g["optional"] == rg["optional"], f"{mname}|getter-optional|{f['name']}",
               f"{mname}::{f['name']}: getter {'propagates None' if g['optional'] else 'assumes presence'}, marker range is {'Option' if rg['optional'] else 'plain'}", f["line"])
        ret = re.sub(r"^Option\s*<\s*(.*)\s*>$", r"\1", g["ret"].strip()) if g["optional"] else g["ret"]
        if g["kind"] == "read_at":
            ok = rg["len"][0] == "ty" and norm_ty(ret) == rg["len"][1]
            report(ok, f"{mname}|getter-width|{f['name']}", f"{mname}::{f['name']} reads a `{norm_ty(ret)}` from a slot of {rg['len']}", f["line"])
            report(g["unwraps"] == 1, f"{mname}|getter-unwraps|{f['name']}", f"{mname}::{f['name']}: {g['unwraps']} unwrap(s) in a read_at getter", f["line"])
        elif g["kind"] == "read_array":
            mm = re.match(r"^& 'a \[(.*)\]$", ret.strip())
            elem = norm_ty(mm.group(1)) if mm else None
            le = lens.get(rg["len"][1], "") if rg["len"][0] == "len" else ""
            le_n = re.sub(r"\s+", "", le)
            ok = rg["len"][0] == "len" and elem is not None and (f"{elem}::RAW_BYTE_LEN" in le_n or f"<{elem}asFixedSize>" in le_n or "RAW_BYTE_LEN" not in le_n and elem == "u8")
            report(ok, f"{mname}|getter-elem|{f['name']}", f"{mname}::{f['name']} reads [{elem}] from a range sized by `{le[:80]}`", f["line"])
            report(g["unwraps"] == 1, f"{mname}|getter-unwraps|{f['name']}", f"{mname}::{f['name']}: {g['unwraps']} unwrap(s) in a read_array getter", f["line"])
        elif g["kind"] == "split_off_read":
            last = order and order[-1] == g["field"]
            report(last, f"{mname}|getter-unbounded|{f['name']}",
                   f"{mname}::{f['name']} reads from range.start to the end of the table but `{g['field']}` is not the last field "
                   f"(followed by {order[order.index(g['field']) + 1:] if g['field'] in order else '?'}): it can read into the following fields", f["line"])
        elif g["kind"] in ("read_with_args", "slice_read"):
            pass
    return n, unwraps


def arm_conditions(match_stmt):
    """{getter name: guard} for `self.NAME().unwrap()` occurrences inside guarded match arms of get_field"""
    out = []
    parts = re.split(r"(?=\b\d+usize\b(?: if .+?)? =>)", match_stmt)
    for p in parts:
        m = re.match(r"^(\d+)usize(?: if (.+?))? =>", p)
        if not m:
            continue
        for g in re.findall(r"self \. (\w+) \(\) \. unwrap \(\)", p):
            out.append((g, m.group(2)))
    return out
