"""Where does a pointer-to-integer cast go?  A small inter-procedural value-flow over the facts.

Accepted consumers of an address-as-integer (all address independent):
  * subtraction from / comparison with another address-derived integer (a difference / identity test),
  * alignment arithmetic (`& mask`, `% k`),
  * a struct field that nothing ever reads.
Anything else (returned from a public function, hashed, stored and read elsewhere, formatted) is reported."""
from .mir import op_place, op_local, Term
from .guards import uses_of_local

CMP = ("Eq", "Ne", "Lt", "Le", "Gt", "Ge")


class PtrTaint:
    def __init__(self, facts, crates):
        self.facts = facts
        self.crates = crates
        self._field_reads = None
        self.tainted = set()          # (body path, local)
        self.tainted_fields = set()   # (adt, field)

    def run(self):
        """two passes: the first only discovers which locals / fields carry an address, the second judges"""
        sites = list(self.cast_sites())
        for b, bb, j, st in sites:
            if not st[1][1]:
                self.follow(b, st[1][0])
        res = []
        for b, bb, j, st in sites:
            r = self.follow(b, st[1][0]) if not st[1][1] else [("bad", "cast result stored directly")]
            res.append((b, st, sorted(set(r))))
        return res

    def op_tainted(self, body, op):
        p = op_place(op)
        if p is None:
            return False
        if not p[1]:
            return (body.path, p[0]) in self.tainted or self._derived(body, p[0], set())
        for e in p[1]:
            if isinstance(e, list) and e[0] == "f" and len(e) > 3 and (e[3], e[2]) in self.tainted_fields:
                return True
        return (body.path, p[0]) in self.tainted and all(not (isinstance(e, list) and e[0] == "f") or e[1] == 0 for e in p[1])

    def cast_sites(self):
        for c in self.crates:
            for b in self.facts.all_bodies(c):
                for bb, j, st in b.stmts():
                    if st[0] == "A" and st[2][0] == "cast" and st[2][1].startswith("PointerExpose"):
                        yield b, bb, j, st

    def tainted_locals(self, body):
        """locals of `body` that hold an address-derived integer (flow-insensitive closure inside the body)"""
        t = set()
        for bb, j, st in body.stmts():
            if st[0] == "A" and st[2][0] == "cast" and st[2][1].startswith("PointerExpose") and not st[1][1]:
                t.add(st[1][0])
        return t

    def field_reads(self):
        """(adt, field) -> [(body, bb, dest_local or None)] over all crates"""
        if self._field_reads is not None:
            return self._field_reads
        idx = {}
        for c in self.crates:
            for b in self.facts.all_bodies(c):
                for bb, j, st in b.stmts():
                    if st[0] != "A":
                        continue
                    rv = st[2]
                    srcs = []
                    if rv[0] in ("use", "cast"):
                        p = op_place(rv[1] if rv[0] == "use" else rv[2])
                        if p:
                            srcs.append(p)
                    elif rv[0] == "bin":
                        srcs += [p for p in (op_place(rv[2]), op_place(rv[3])) if p]
                    elif rv[0] in ("ref", "raw"):
                        srcs.append(rv[2])
                    elif rv[0] == "agg":
                        srcs += [p for p in (op_place(o) for o in rv[2]) if p]
                    elif rv[0] == "un":
                        p = op_place(rv[2])
                        if p:
                            srcs.append(p)
                    for p in srcs:
                        for e in p[1]:
                            if isinstance(e, list) and e[0] == "f" and len(e) > 3 and e[3]:
                                idx.setdefault((e[3], e[2]), []).append((b, bb, st))
                for bb, t in b.calls():
                    for a in t.args:
                        p = op_place(a)
                        if p:
                            for e in p[1]:
                                if isinstance(e, list) and e[0] == "f" and len(e) > 3 and e[3]:
                                    idx.setdefault((e[3], e[2]), []).append((b, bb, t))
                for i, blk in enumerate(b.blocks):
                    if blk.term.kind == "switch":
                        p = op_place(blk.term.d[1])
                        if p:
                            for e in p[1]:
                                if isinstance(e, list) and e[0] == "f" and len(e) > 3 and e[3]:
                                    idx.setdefault((e[3], e[2]), []).append((b, i, blk.term))
        self._field_reads = idx
        return idx

    def follow(self, body, local, depth=0, seen=None):
        """returns list of (verdict, description); verdict 'ok' | 'bad'"""
        seen = seen if seen is not None else set()
        key = (body.path, local)
        if key in seen or depth > 10:
            return []
        seen.add(key)
        self.tainted.add(key)
        out = []
        tainted_here = self.tainted_locals(body)
        uses = [u for u in uses_of_local(body, local) if u[1] != "drop"]
        if local == 0:
            return self._returned(body, depth, seen)
        if not uses:
            return [("ok", "unused")]
        for bb, kind, obj in uses:
            if kind == "assign":
                st = obj
                rv = st[2]
                dst = st[1]
                if rv[0] == "bin":
                    op = rv[1].replace("WithOverflow", "")
                    a = op_place(rv[2])
                    other_op = rv[3] if (a is not None and a[0] == local) else rv[2]
                    other_t = self.op_tainted(body, other_op)
                    if op == "Sub" and other_t:
                        out.append(("ok", f"difference of two addresses at line {st[3][0]}"))
                        continue
                    if op in CMP and other_t:
                        out.append(("ok", f"comparison of two addresses at line {st[3][0]}"))
                        continue
                    if op in ("BitAnd", "Rem"):
                        out.append(("ok", f"alignment arithmetic ({op}) at line {st[3][0]}"))
                        continue
                    if op in ("Sub", "Add") and not dst[1]:
                        out += self.follow(body, dst[0], depth + 1, seen)
                        continue
                    out.append(("bad", f"arithmetic {op} at line {st[3][0]}"))
                elif rv[0] in ("use", "cast", "un"):
                    if dst[1]:
                        out += self._stored(body, dst, st, depth, seen)
                    elif dst[0] == 0:
                        out += self._returned(body, depth, seen)
                    else:
                        out += self.follow(body, dst[0], depth + 1, seen)
                elif rv[0] == "agg":
                    kd = rv[1]
                    if kd[0] == "adt" and kd[1] in ("core::option::Option", "core::result::Result") and not dst[1]:
                        out += self.follow(body, dst[0], depth + 1, seen) if dst[0] != 0 else self._returned(body, depth, seen)
                    elif kd[0] == "adt":
                        i = [k for k, o in enumerate(rv[2]) if op_local(o) == local]
                        recs = [r for c in self.crates for r in self.facts.records("adt", c) if r["path"] == kd[1]]
                        if recs and i:
                            vi = kd[2]
                            fname = recs[0]["variants"][vi][1][i[0]][0]
                            out += self._field(kd[1], fname, depth, seen)
                        else:
                            out.append(("bad", f"stored into {kd[1]}"))
                    elif kd[0] == "tuple" and not dst[1]:
                        out += self.follow(body, dst[0], depth + 1, seen) if dst[0] != 0 else self._returned(body, depth, seen)
                    else:
                        out.append(("bad", "stored into an aggregate"))
                else:
                    out.append(("bad", f"used by {rv[0]} at line {st[3][0]}"))
            elif kind == "call-arg":
                t = obj
                ai = [k for k, a in enumerate(t.args) if op_local(a) == local]
                cb = self.facts.body(t.callee)
                c = t.callee
                if c.endswith("::wrapping_sub") or c.endswith("::checked_sub") or c.endswith("::abs_diff") or c.endswith("::saturating_sub"):
                    others = [a for k, a in enumerate(t.args) if k not in ai]
                    if any(self.op_tainted(body, o) for o in others):
                        out.append(("ok", f"difference of two addresses ({c.split('::')[-1]}) at line {t.line}"))
                        continue
                if c.endswith(("::wrapping_neg", "::wrapping_add", "::wrapping_sub", "::checked_add", "::saturating_add")) and not t.dest[1]:
                    out += self.follow(body, t.dest[0], depth + 1, seen)
                    continue
                if cb is not None and ai:
                    out += self.follow(cb, ai[0] + 1, depth + 1, seen)
                else:
                    out.append(("bad", f"passed to {c} at line {t.line}"))
            elif kind == "switch":
                out.append(("bad", "branched on"))
            elif kind == "ref":
                out.append(("bad", "address taken"))
        return out

    def _derived(self, body, l, tainted, depth=0):
        """is local l computed from a tainted local or from a tainted field/param?"""
        if depth > 6:
            return False
        sd = body.single_def(l)
        if sd is None or isinstance(sd[2], Term):
            return False
        rv = sd[2]
        ops = []
        if rv[0] in ("use",):
            ops = [rv[1]]
        elif rv[0] in ("cast", "un"):
            ops = [rv[2]]
        elif rv[0] == "bin":
            ops = [rv[2], rv[3]]
        for o in ops:
            p = op_place(o)
            if p is None:
                continue
            if (p[0] in tainted or (body.path, p[0]) in self.tainted) and not p[1]:
                return True
            for e in p[1]:
                if isinstance(e, list) and e[0] == "f" and len(e) > 3 and (e[3], e[2]) in self.tainted_fields:
                    return True
            if not p[1] and self._derived(body, p[0], tainted, depth + 1):
                return True
        return False

    def _field(self, adt, fname, depth, seen):
        self.tainted_fields.add((adt, fname))
        reads = self.field_reads().get((adt, fname), [])
        if not reads:
            return [("ok", f"stored in {adt.split('::')[-1]}.{fname}, which nothing reads")]
        out = []
        for b, bb, obj in reads:
            if isinstance(obj, list) and obj[0] == "A":
                st = obj
                rv = st[2]
                if rv[0] == "bin":
                    op = rv[1].replace("WithOverflow", "")
                    def is_field(o):
                        p = op_place(o)
                        return p is not None and any(isinstance(e, list) and e[0] == "f" and len(e) > 3 and (e[3], e[2]) == (adt, fname) for e in p[1])
                    others = [o for o in (rv[2], rv[3]) if not is_field(o)]
                    if op in ("Sub",) + CMP and any(self.op_tainted(b, x) for x in others):
                        out.append(("ok", f"{adt.split('::')[-1]}.{fname} subtracted from / compared with another address in {b.path.split('::')[-1]}"))
                        continue
                    out.append(("bad", f"{adt.split('::')[-1]}.{fname} used in {op} in {b.path}"))
                elif rv[0] in ("use", "cast") and not st[1][1]:
                    if b.d.get("derived"):
                        out.append(("bad", f"{adt.split('::')[-1]}.{fname} read by a derived impl {b.path}"))
                    else:
                        out += self.follow(b, st[1][0], depth + 1, seen)
                else:
                    out.append(("bad", f"{adt.split('::')[-1]}.{fname} read in {b.path}"))
            else:
                out.append(("bad", f"{adt.split('::')[-1]}.{fname} passed on in {b.path}"))
        return out

    def _stored(self, body, dst, st, depth, seen):
        for e in reversed(dst[1]):
            if isinstance(e, list) and e[0] == "f" and len(e) > 3 and e[3]:
                return self._field(e[3], e[2], depth, seen)
        return [("bad", f"stored through {body.place_str(dst)}")]

    def _returned(self, body, depth, seen):
        vis = body.d.get("vis")
        # follow into callers (same crates)
        out = []
        callers = 0
        for c in self.crates:
            for b in self.facts.all_bodies(c):
                for bb, t in b.calls():
                    if t.callee == body.path and not t.dest[1]:
                        callers += 1
                        out += self.follow(b, t.dest[0], depth + 1, seen)
        if vis == "pub":
            out.append(("bad", f"returned from public fn {body.path}"))
        elif callers == 0:
            out.append(("ok", "returned from a private fn that nothing calls"))
        return out
