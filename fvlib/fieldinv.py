"""Struct-field range invariants, inferred from the current tree on every run (nothing is frozen).

For every integer field F of a struct S defined in the analysed crates, the range of F is the least interval (up to
threshold widening) that contains
  - every operand stored into F by an aggregate construction `S { F: x, .. }`, and
  - every value assigned to a place ending in `.F`,
where each such value is evaluated by the interval analysis of the writing function *assuming* the invariant for all
reads of fields (induction over execution steps: the first store that leaves the range would have to be computed
from values that are all still in range).  A field is excluded (no invariant) when it can be written in a way this
census does not see: it is mutably borrowed on its own, written by a call's return value, is a `pub` field of a `pub`
struct (code outside the analysed crates can write it), or belongs to a `repr(C)/packed/transparent` struct (may be
materialised from raw bytes).
"""
import re

from . import intervals
from .intervals import Intervals, ty_range, hull, fits
from .mir import Term, op_const, strip_generics

MAX_ROUNDS = 8


def _field_of(place):
    return Intervals.place_field(place)


def _fn_consts(o, out):
    if isinstance(o, list) and o and o[0] == "k" and len(o) > 2 and isinstance(o[2], list) and o[2] and o[2][0] == "fn":
        out.add(o[2][1])


def ctor_fn_uses(facts, crates, adt_paths):
    """ADT paths whose constructor is referenced as a function (value or callee) anywhere in `crates`"""
    hit = set()
    for c in crates:
        for b in facts.all_bodies(c, kinds=("fn", "closure", "const")):
            seen = set()
            for blk in b.blocks:
                for st in blk.stmts:
                    if st[0] != "A":
                        continue
                    rv = st[2]
                    for x in rv[1:]:
                        if isinstance(x, list):
                            _fn_consts(x, seen)
                            if x and isinstance(x[0], list):
                                for y in x:
                                    _fn_consts(y, seen)
                t = blk.term
                if t.kind == "call":
                    for a in t.args:
                        _fn_consts(a, seen)
                    seen.add(t.callee)
            for p in seen:
                base = strip_generics(p)
                if p in adt_paths:
                    hit.add(p)
                elif base in adt_paths:
                    hit.add(base)
    return hit


def infer(facts, crates=None):
    crates = [c for c in (crates or facts.crates) if c in facts.crates]
    ftype = {}
    forder = {}
    for c in crates:
        for r in facts.records("adt", c):
            if r["adt_kind"] != "Struct" or not r["variants"]:
                continue
            if r.get("repr_packed") or r.get("repr_c") or r.get("repr_transparent"):
                continue
            forder[r["path"]] = [f[0] for f in r["variants"][0][1]]
            for name, ty, vis in r["variants"][0][1]:
                if vis == "pub" and r.get("vis") == "pub":
                    continue
                tr = ty_range(ty)
                if tr is not None and ty not in ("bool", "char"):
                    ftype[(r["path"], name)] = tr
    bad = set()
    writers = {}     # field -> [(body, bb, idx, operand)]
    for c in crates:
        for b in facts.all_bodies(c, kinds=("fn", "closure", "const")):
            for bb, blk in enumerate(b.blocks):
                if blk.cleanup:
                    continue
                for j, st in enumerate(blk.stmts):
                    if st[0] != "A":
                        continue
                    place, rv = st[1], st[2]
                    fld = _field_of(place)
                    if fld is not None and fld in ftype:
                        if rv[0] == "use":
                            writers.setdefault(fld, []).append((b, bb, j, rv[1]))
                        elif rv[0] == "cast" and rv[1] == "IntToInt":
                            writers.setdefault(fld, []).append((b, bb, j, ("cast", rv)))
                        else:
                            bad.add(fld)
                    if rv[0] in ("ref", "raw"):
                        mut = (rv[1] == "mut") if rv[0] == "ref" else ("Mut" in str(rv[1]))
                        f2 = _field_of(rv[2])
                        if mut and f2 is not None and f2 in ftype:
                            bad.add(f2)
                    if rv[0] == "agg" and rv[1][0] == "adt" and rv[1][1] in forder:
                        names = forder[rv[1][1]]
                        for i, o in enumerate(rv[2]):
                            if i < len(names) and (rv[1][1], names[i]) in ftype:
                                writers.setdefault((rv[1][1], names[i]), []).append((b, bb, j, o))
                t = blk.term
                if t.kind == "call":
                    fld = _field_of(t.dest)
                    if fld is not None and fld in ftype:
                        bad.add(fld)
    # a tuple-struct constructor used as a function value (`.map(Self)`) writes fields without an aggregate statement
    for adt in ctor_fn_uses(facts, crates, set(forder)):
        for name in forder[adt]:
            bad.add((adt, name))
    fields = [f for f in ftype if f not in bad and f in writers]
    cur = {}          # field -> interval or None (bottom)
    intervals.FIELD_RANGES.clear()
    by_body = {}
    for f in fields:
        for w in writers[f]:
            by_body.setdefault(w[0].path, (w[0], []))[1].append((f, w))
    stable = False
    for rnd in range(MAX_ROUNDS):
        # reads assume the current candidate; fields still at bottom read as their type range (no assumption)
        intervals.FIELD_RANGES.clear()
        for f, r in cur.items():
            if r is not None:
                intervals.FIELD_RANGES[f] = r
        new = dict(cur)
        for path, (b, ws) in by_body.items():
            iv = Intervals(b)
            for f, (_, bb, j, o) in ws:
                tr = ftype[f]
                if not iv.converged:
                    val = tr
                else:
                    st = iv.state_before_stmt(bb, j)
                    if st is None:
                        continue      # unreachable store
                    if isinstance(o, tuple) and o[0] == "cast":
                        a = iv.rng(st, o[1][2])
                        val = a if (a is not None and fits(a, tr)) else tr
                    else:
                        val = iv.rng(st, o)
                        if val is None:
                            val = tr
                        elif not fits(val, tr):
                            val = tr
                prev = new.get(f)
                new[f] = val if prev is None else hull(prev, val)
        # widen what is still moving after a few rounds
        changed = False
        for f in fields:
            a, b2 = cur.get(f), new.get(f)
            if a != b2:
                changed = True
                if rnd >= 3 and a is not None and b2 is not None:
                    tr = ftype[f]
                    lo = tr[0] if b2[0] < a[0] else b2[0]
                    hi = tr[1] if b2[1] > a[1] else b2[1]
                    new[f] = (lo, hi)
        cur = new
        if not changed:
            stable = True
            break
    intervals.FIELD_RANGES.clear()
    if not stable:
        return {}
    out = {}
    for f in fields:
        r = cur.get(f)
        if r is not None and r != ftype[f]:
            out[f] = r
    return out


def register(facts, crates=None):
    if getattr(facts, "_fieldinv", None) is None:
        facts._fieldinv = infer(facts, crates)
    intervals.FIELD_RANGES.clear()
    intervals.FIELD_RANGES.update(facts._fieldinv)
    return facts._fieldinv
