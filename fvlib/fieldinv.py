"""Struct-field range invariants, inferred from the current tree on every run (nothing is frozen).

For every integer field F of a struct S defined in the analysed crates, the range of F is the least interval (up to
threshold widening) that contains
  - every operand stored into F by an aggregate construction `S { F: x, .. }`, and
  - every value assigned to a place ending in `.F`,
where each such value is evaluated by the interval analysis of the writing function *assuming* the invariant for all
reads of fields (induction over execution steps: the first store that leaves the range would have to be computed
from values that are all still in range).  A field is excluded (no invariant) when it can be written in a way this
census does not see: it is mutably borrowed on its own, written by a call's return value, is a `pub` field of a `pub`
struct (code outside the analysed crates can write it), or belongs to a `repr(C)/packed/transparent` struct (may be
materialised from raw bytes).
"""
import re

from . import intervals
from .intervals import Intervals, ty_range, hull, fits
from .mir import Term, op_const, strip_generics

MAX_ROUNDS = 12


def _field_of(place):
    return Intervals.place_field(place)


def _fn_consts(o, out):
    if isinstance(o, list) and o and o[0] == "k" and len(o) > 2 and isinstance(o[2], list) and o[2] and o[2][0] == "fn":
        out.add(o[2][1])


def ctor_fn_uses(facts, crates, adt_paths):
    """ADT paths whose constructor is referenced as a function (value or callee) anywhere in `crates`"""
    hit = set()
    for c in crates:
        for b in facts.all_bodies(c, kinds=("fn", "closure", "const")):
            seen = set()
            for blk in b.blocks:
                for st in blk.stmts:
                    if st[0] != "A":
                        continue
                    rv = st[2]
                    for x in rv[1:]:
                        if isinstance(x, list):
                            _fn_consts(x, seen)
                            if x and isinstance(x[0], list):
                                for y in x:
                                    _fn_consts(y, seen)
                t = blk.term
                if t.kind == "call":
                    for a in t.args:
                        _fn_consts(a, seen)
                    seen.add(t.callee)
            for p in seen:
                base = strip_generics(p)
                if p in adt_paths:
                    hit.add(p)
                elif base in adt_paths:
                    hit.add(base)
    return hit


def infer(facts, crates=None, _debug=None):
    crates = [c for c in (crates or facts.crates) if c in facts.crates]
    ftype = {}
    forder = {}
    for c in crates:
        for r in facts.records("adt", c):
            if r["adt_kind"] != "Struct" or not r["variants"]:
                continue
            if r.get("repr_packed") or r.get("repr_c") or r.get("repr_transparent"):
                continue
            forder[r["path"]] = [f[0] for f in r["variants"][0][1]]
            for name, ty, vis in r["variants"][0][1]:
                if vis == "pub" and r.get("vis") == "pub" and r.get("reachable", True):
                    continue
                tr = ty_range(ty)
                if tr is not None and ty not in ("bool", "char"):
                    ftype[(r["path"], name)] = tr
    bad = set()
    writers = {}     # field -> [(body, bb, idx, operand)]
    for c in crates:
        for b in facts.all_bodies(c, kinds=("fn", "closure", "const")):
            for bb, blk in enumerate(b.blocks):
                if blk.cleanup:
                    continue
                for j, st in enumerate(blk.stmts):
                    if st[0] != "A":
                        continue
                    place, rv = st[1], st[2]
                    fld = _field_of(place)
                    if fld is not None and fld in ftype:
                        if rv[0] == "use":
                            writers.setdefault(fld, []).append((b, bb, j, rv[1]))
                        elif rv[0] == "cast" and rv[1] == "IntToInt":
                            writers.setdefault(fld, []).append((b, bb, j, ("cast", rv)))
                        else:
                            bad.add(fld)
                    if rv[0] in ("ref", "raw"):
                        mut = (rv[1] == "mut") if rv[0] == "ref" else ("Mut" in str(rv[1]))
                        f2 = _field_of(rv[2])
                        if mut and f2 is not None and f2 in ftype:
                            bad.add(f2)
                    if rv[0] == "agg" and rv[1][0] == "adt" and rv[1][1] in forder:
                        names = forder[rv[1][1]]
                        for i, o in enumerate(rv[2]):
                            if i < len(names) and (rv[1][1], names[i]) in ftype:
                                writers.setdefault((rv[1][1], names[i]), []).append((b, bb, j, o))
                t = blk.term
                if t.kind == "call":
                    fld = _field_of(t.dest)
                    if fld is not None and fld in ftype:
                        bad.add(fld)
    # a tuple-struct constructor used as a function value (`.map(Self)`) writes fields without an aggregate statement
    for adt in ctor_fn_uses(facts, crates, set(forder)):
        for name in forder[adt]:
            bad.add((adt, name))
    fields = [f for f in ftype if f not in bad and f in writers]
    # F(cand): for every field the hull of all values written to it, each evaluated by the interval analysis of the
    # writing function under the assumption that every field read is within `cand`
    by_body = {}
    for f in fields:
        for w in writers[f]:
            by_body.setdefault(w[0].path, (w[0], []))[1].append((f, w))
    thresholds = {}     # field -> thresholds seen in the functions that write it
    own_thresholds = {}  # ... without the standard ones: constants of the writers themselves are tried first
    STD_SET = set(intervals.STD_THRESHOLDS)

    reads = {}
    for path, (b, ws) in by_body.items():
        rs = set()

        def see(pl):
            for e in pl[1]:
                if isinstance(e, list) and e[0] == "f" and len(e) > 3 and e[3] and (e[3], e[2]) in ftype:
                    rs.add((e[3], e[2]))
        for blk in b.blocks:
            for st in blk.stmts:
                if st[0] != "A":
                    continue
                see(st[1])
                for x in st[2][1:]:
                    if isinstance(x, list) and x:
                        if x[0] in ("c", "m") and len(x) > 1 and isinstance(x[1], list):
                            see(x[1])
                        elif isinstance(x[0], int):
                            see(x)
                        elif isinstance(x[0], list):
                            for y in x:
                                if isinstance(y, list) and y and y[0] in ("c", "m"):
                                    see(y[1])
            t = blk.term
            if t.kind == "call":
                for a in t.args:
                    if a[0] in ("c", "m"):
                        see(a[1])
            elif t.kind == "assert":
                for a in t.d[4]:
                    if a[0] in ("c", "m"):
                        see(a[1])
        reads[path] = rs
    cache = {}

    def F(cand):
        intervals.FIELD_RANGES.clear()
        for f, r in cand.items():
            if r != ftype[f]:
                intervals.FIELD_RANGES[f] = r
        out = {}
        for path, (b, ws) in by_body.items():
            key = (path, tuple(sorted((f, cand[f]) for f in reads[path] if f in cand and cand[f] != ftype[f])))
            vals = cache.get(key)
            if vals is None:
                vals = []
                iv = Intervals(b)
                for f, _w in ws:
                    thresholds.setdefault(f, set(intervals.STD_THRESHOLDS)).update(iv.thresholds)
                    own_thresholds.setdefault(f, set()).update(set(iv.thresholds) - STD_SET)
                for f, (_, bb, j, o) in ws:
                    tr = ftype[f]
                    if not iv.converged:
                        val = tr
                    else:
                        st = iv.state_before_stmt(bb, j)
                        if st is None:
                            vals.append((f, None))     # unreachable store
                            continue
                        if isinstance(o, tuple) and o[0] == "cast":
                            a = iv.rng(st, o[1][2])
                            val = a if (a is not None and fits(a, tr)) else tr
                        else:
                            val = iv.rng(st, o)
                            if val is None or not fits(val, tr):
                                val = tr
                    vals.append((f, val))
                cache[key] = vals
            for f, val in vals:
                if val is None:
                    continue
                prev = out.get(f)
                out[f] = val if prev is None else hull(prev, val)
        intervals.FIELD_RANGES.clear()
        return out

    if _debug is not None:
        _debug.update(writers=writers, fields=fields, ftype=ftype, F=F, bad=bad, own=own_thresholds, thresholds=thresholds)
    # start from the literal constants stored into each field (ascending iteration from below); a field with no
    # constant store starts unconstrained and can only be narrowed in the descending phase
    cur = {}
    for f in fields:
        cs = []
        for (_, _, _, o) in writers[f]:
            if isinstance(o, list) and o and o[0] == "k":
                c = op_const(o)
                if c and c[1] is not None:
                    cs.append(c[1])
        cur[f] = (min(cs), max(cs)) if cs and fits((min(cs), max(cs)), ftype[f]) else ftype[f]
    stable = False
    for rnd in range(MAX_ROUNDS):
        w = F(cur)
        changed = False
        for f in fields:
            ths = sorted(thresholds.get(f, intervals.STD_THRESHOLDS))
            v = w.get(f)
            if v is None:
                continue
            a = cur[f]
            n = hull(a, v)
            if n != a:
                changed = True
                tr = ftype[f]
                if rnd >= 2:
                    lo, hi = n
                    own = own_thresholds.get(f, ())
                    if rnd == 2 and n[1] > a[1] and n[0] >= a[0]:
                        # guess and check: the smallest constant of the field's own writers that is an inductive upper
                        # bound for this field (the others held at their current candidates); verified again at the end
                        picked = None
                        for T in sorted(t for t in own if n[1] <= t <= tr[1])[:10]:
                            c2 = dict(cur)
                            c2[f] = (a[0], T)
                            v2 = F(c2).get(f)
                            if v2 is not None and fits(v2, c2[f]):
                                picked = T
                                break
                        if picked is not None:
                            cur[f] = (a[0], picked)
                            continue
                    if n[0] < a[0]:
                        pref = [t for t in own if t <= n[0]]
                        lo = (max(pref) if pref else max([t for t in ths if t <= n[0]] + [tr[0]])) if rnd < 7 else tr[0]
                    if n[1] > a[1]:
                        pref = [t for t in own if t >= n[1]]
                        hi = (min(pref) if pref else min([t for t in ths if t >= n[1]] + [tr[1]])) if rnd < 7 else tr[1]
                    n = (max(lo, tr[0]), min(hi, tr[1]))
                cur[f] = n
        if not changed:
            stable = True
            break
    if not stable:
        return {}
    # descending phase: F is monotone, so F(post-fixpoint) is again a post-fixpoint
    for _ in range(3):
        w = F(cur)
        nxt = dict(cur)
        smaller = False
        for f in fields:
            v = w.get(f)
            if v is None:
                continue
            if fits(v, cur[f]) and v != cur[f]:
                nxt[f] = v
                smaller = True
        if not smaller:
            break
        # keep the step only if it is still inductive; a field whose narrowed candidate is not inductive goes back to its
        # previous candidate (which may in turn un-prove others: repeat), the rest keep theirs
        for _k in range(8):
            w2 = F(nxt)
            viol = [f for f in fields if f in w2 and not fits(w2[f], nxt[f])]
            if not viol:
                break
            for f in viol:
                nxt[f] = cur[f]
        else:
            break
        if nxt == cur:
            break
        cur = nxt
    # final check (defensive): every write stays inside the candidate under the candidate's own assumption
    for _ in range(4):
        w = F(cur)
        viol = [f for f in fields if f in w and not fits(w[f], cur[f])]
        if not viol:
            break
        for f in viol:
            cur[f] = ftype[f]
    else:
        return {}
    out = {}
    for f in fields:
        r = cur.get(f)
        if r is not None and r != ftype[f] and any(True for _ in writers[f]):
            out[f] = r
    return out


def register(facts, crates=None):
    from . import retsum
    retsum.register_getters(facts, crates)
    if getattr(facts, "_fieldinv", None) is None:
        facts._fieldinv = infer(facts, crates)
    intervals.FIELD_RANGES.clear()
    intervals.FIELD_RANGES.update(facts._fieldinv)
    return facts._fieldinv
