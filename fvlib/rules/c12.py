"""C12 — drawing is well-formed and independent of buffers, history and threads (structural clauses).

  C12-a  reuse == fresh (T-RESET): every field of glyf::HintInstance is re-derived by setup() on every path (Vec fields are
         cleared before they are grown; scalars are assigned); `instructions` is reset by the font-program run (checked chain);
         every field of HintingInstance is re-derived by reconfigure(); `kind` is None on every Err exit
  C12-b  draws cannot write shared state (T-TYPE/T-WHO): the draw entry points take &self; the only interior mutability
         reachable from the instance types is the autohinter's lazy metrics memo, written only in its getter; skrifa has
         no interior-mutable statics
  C12-c  well-formed command stream (T-STATE {Closed, Open}) over OutlinePen calls in to_path / contour_to_path /
         PendingState::{emit, finish}
  C12-d  a buffer of the advertised size suffices (T-AGREE): per (hinted, has_variations) case the bytes carved by
         FreeTypeOutlineMemory::new / HarfBuzzOutlineMemory::new are <= the linear form required_buffer_size() advertises, the
         carving order is non-increasing in alignment and the advertised slack covers the largest alignment
  C12-f  caller scratch memory is written before it is read (two structural instances): compute_deltas_for_glyph zero-fills
         the delta buffer before anything accumulates into it; both scalers read memory.composite_deltas only under the
         flag that is set after the deltas were computed
  C12-e  hinting locations come from LocationRef::effective_coords() (the all-zero location is normalised in one place)
"""
import re

from ..facts import Facts
from ..mir import op_place, Term
from ..typestate import Explorer, Violation, ret_class, trace_lines
from ..sym import expr_of, strip_casts, show, rvalue_expr
from ..guards import adt_aggregates

HI = "skrifa::outline::glyf::hint::instance::HintInstance"
HGI = "skrifa::outline::hint::HintingInstance"
GROW = ("::resize", "::extend", "::push", "::extend_from_slice", "::resize_with", "::insert", "::append")


def self_field_of(body, op_or_place, self_local=1):
    """name of the field if the place is (*self).f[...] or &mut (*self).f"""
    p = op_or_place
    if p and p[0] in ("c", "m"):
        p = p[1]
    if p is None or p[0] == "k":
        return None
    r = body.root_place(p)
    if r[0] != self_local:
        return None
    pr = [e for e in r[1] if e != "&"]
    if len(pr) >= 2 and pr[0] == "*" and isinstance(pr[1], list) and pr[1][0] == "f":
        return pr[1][2]
    return None


def field_events(body):
    """[(bb, kind, field)] kind in 'assign' | 'clear' | 'grow' | 'replace'"""
    ev = []
    for bb, j, st in body.stmts():
        if st[0] == "A" and st[1][0] == 1 and len(st[1][1]) == 2 and st[1][1][0] == "*" and st[1][1][1][0] == "f":
            ev.append((bb, "assign", st[1][1][1][2]))
    for bb, t in body.calls():
        if not t.args:
            continue
        f = self_field_of(body, t.args[0])
        if f is None:
            continue
        c = t.callee
        if c.endswith("Vec::<T, A>::clear"):
            ev.append((bb, "clear", f))
        elif any(c.endswith(g) for g in GROW) or ("Extend" in c and c.endswith("::extend")):
            ev.append((bb, "grow", f))
        elif c.endswith("core::mem::replace") or c.endswith("core::mem::take"):
            ev.append((bb, "assign", f))
    return ev


def must_at_returns(body, ev_bbs, rets=None):
    """every return block is dominated by one of ev_bbs"""
    rets = rets if rets is not None else body.return_blocks()
    return all(any(body.dominates(e, r) for e in ev_bbs) for r in rets)


def adt_fields(facts, crate, path):
    for r in facts.records("adt", crate):
        if r["path"] == path:
            return r["variants"][0][1]
    return None


def run(chk):
    configs = ["union"] if chk.tier == "quick" else ["union", "allfeat", "skrifa_libm"]
    for cfg in configs:
        chk.configs.append(cfg)
        run_config(chk, Facts(cfg), cfg)
    chk.assume("`effective_coords` all-zero equivalence, finiteness of coordinates and initialisation of caller memory before it is "
               "read are value-level / data-flow facts that are not decided")


def run_config(chk, facts, cfg):
    # ---- C12-a -----------------------------------------------------------------------------------
    chk.rule("C12-a", "T-RESET: every field of the instance struct is re-derived on every Ok path of its (re)configuration; "
                      "Vec fields are cleared before they are grown")
    fields = chk.anchor("C12-a", HI, adt_fields(facts, "skrifa", HI))
    setup = chk.anchor("C12-a", HI + "::setup", facts.body(HI + "::setup"))
    ev = field_events(setup)
    chk.floor("C12-a", "fields of glyf::HintInstance", len(fields), 10)
    for name, ty, vis in fields:
        evs = [(bb, k) for bb, k, f in ev if f == name]
        if ty.startswith("alloc::vec::Vec<"):
            clears = [bb for bb, k in evs if k == "clear"]
            grows = [bb for bb, k in evs if k == "grow"]
            if name == "instructions":
                # confirmed chain: resized here, zero-filled by the font program run (checked below)
                chk.ob("C12-a", f"HintInstance.{name}: resized in setup ({len(grows)} site(s)); reset by the fpgm run (chain below)",
                       bool(grows) and must_at_returns(setup, grows), key=f"{HI}|{name}", file=setup.file, line=setup.lo, fn=setup.path)
                continue
            ok = bool(clears) and must_at_returns(setup, clears) and all(any(setup.dominates(c, g) for c in clears) for g in grows) and bool(grows)
            chk.ob("C12-a", f"HintInstance.{name}: clear() on every path and before every grow ({len(clears)} clear, {len(grows)} grow)", ok,
                   key=f"{HI}|{name}", file=setup.file, line=setup.lo, fn=setup.path,
                   detail=f"field `{name}` of a reused HintInstance can keep contents from the previous configuration "
                          f"(resize() only fills newly added elements)")
        else:
            asg = [bb for bb, k in evs if k == "assign"]
            ok = bool(asg) and must_at_returns(setup, asg)
            chk.ob("C12-a", f"HintInstance.{name}: assigned on every path of setup()", ok, key=f"{HI}|{name}", file=setup.file,
                   line=setup.lo, fn=setup.path,
                   detail=f"field `{name}` of a reused HintInstance keeps its value from the previous configuration")
    # reconfigure -> setup first, then the font program, before Ok
    rc = chk.anchor("C12-a", HI + "::reconfigure", facts.body(HI + "::reconfigure"))
    setups = [bb for bb, t in rc.calls() if t.callee == setup.path]
    oks = [r for r in rc.return_blocks()]
    chk.ob("C12-a", "HintInstance::reconfigure calls setup() first", len(setups) == 1 and all(rc.dominates(setups[0], bb) for bb, t in rc.calls() if bb != setups[0] and "hint::" in t.callee),
           key=f"{HI}|setup-first", file=rc.file, line=rc.lo, fn=rc.path)
    runs = []
    for bb, t in rc.calls():
        if t.callee.endswith("engine::Engine<'a>>::run_program") or t.callee.endswith("::run_program"):
            e = expr_of(rc, t.args[1])
            runs.append((bb, e[1][3] if e[0] == "agg" and e[1][0] == "adt" else "?"))
    font_runs = [bb for bb, v in runs if v == "Font"]
    # Ok-classified exits must be dominated by the font-program run
    ex = Explorer(rc)
    ex.run(None)
    ok_exit_bbs = [bb for bb, s, rv in ex.exits if ret_class(rc, rv) != "err"]
    # find the block where _0 = Ok is assigned
    ok_assign = [bb for bb, j, st in rc.stmts() if st[0] == "A" and st[1] == [0, []] and st[2][0] == "agg" and st[2][1][:2] == ["adt", "core::result::Result"] and st[2][1][3] == "Ok"]
    chk.ob("C12-a", f"HintInstance::reconfigure runs Program::Font before any Ok ({[v for _, v in runs]})",
           bool(font_runs) and bool(ok_assign) and all(any(rc.dominates(f, o) for f in font_runs) for o in ok_assign),
           key=f"{HI}|fpgm-before-ok", file=rc.file, line=rc.lo, fn=rc.path,
           detail="`instructions` is only resized by setup(); the font program run is what zero-fills both definition maps")
    er = chk.anchor("C12-a", "Engine::reset", facts.body("skrifa::outline::glyf::hint::engine::dispatch::<impl skrifa::outline::glyf::hint::engine::Engine<'a>>::reset"))
    dm_reset = "skrifa::outline::glyf::hint::definition::DefinitionMap::<'_>::reset"
    resets = [(bb, show(er, expr_of(er, t.args[0]))) for bb, t in er.calls() if t.callee == dm_reset]
    names = sorted(s for _, s in resets)
    both = any("functions" in s for s in names) and any("instructions" in s for s in names)
    # both under the Program::Font arm: dominated by a switch on the program discriminant with value 0 (Font)
    chk.ob("C12-a", f"Engine::reset(Program::Font) resets both definition maps ({names})", both and len(resets) == 2, key="engine-reset|both",
           file=er.file, line=er.lo, fn=er.path, detail="function and instruction definitions from a previous font would survive a reconfigure")
    dr = chk.anchor("C12-a", dm_reset, facts.body(dm_reset))
    chk.ob("C12-a", "DefinitionMap::reset fills the mutable map with defaults", any(t.callee.endswith("::fill") for _, t in dr.calls()),
           key="defmap-reset|fill", file=dr.file, line=dr.lo, fn=dr.path)

    # HintingInstance::reconfigure
    hfields = chk.anchor("C12-a", HGI, adt_fields(facts, "skrifa", HGI))
    hr = chk.anchor("C12-a", HGI + "::reconfigure", facts.body(HGI + "::reconfigure"))
    hev = field_events(hr)
    ok_assign = [bb for bb, j, st in hr.stmts() if st[0] == "A" and st[1] == [0, []] and st[2][0] == "agg" and st[2][1][:2] == ["adt", "core::result::Result"] and st[2][1][3] == "Ok"]
    for name, ty, vis in hfields:
        evs = [(bb, k) for bb, k, f in hev if f == name]
        if ty.startswith("alloc::vec::Vec<"):
            clears = [bb for bb, k in evs if k == "clear"]
            grows = [bb for bb, k in evs if k == "grow"]
            ok = bool(clears) and all(any(hr.dominates(c, o) for c in clears) for o in ok_assign) and all(any(hr.dominates(c, g) for c in clears) for g in grows)
        else:
            asg = [bb for bb, k in evs if k == "assign"]
            ok = bool(asg) and all(any(hr.dominates(a, o) for a in asg) for o in ok_assign)
        chk.ob("C12-a", f"HintingInstance.{name}: re-derived before every Ok of reconfigure()", ok, key=f"{HGI}|{name}",
               file=hr.file, line=hr.lo, fn=hr.path, detail=f"field `{name}` keeps its value from the previous configuration")
    chk.floor("C12-a", "fields of HintingInstance", len(hfields), 4)
    # C12-g: reconfigure never *reads* a field of the instance before it has written it on that path (what it reads then is
    # the previous configuration).  Reads: loads of (*self).f in statements, shared borrows of it, and (*self).f / &(*self).f
    # passed to calls other than the writers recognised above (clear / extend / mem::replace / mem::take).
    chk.rule("C12-g", "T-ORDER: in HintingInstance::reconfigure every read of a field of *self is dominated by a write of that field "
                      "(assignment, clear, mem::replace/take): no value of the previous configuration is consulted")
    writes = {}
    for wbb, k, f in hev:
        if k in ("assign", "clear"):
            writes.setdefault(f, []).append(wbb)
    n_reads = 0
    WRITER_CALLS = ("Vec::<T, A>::clear", "core::mem::replace", "core::mem::take")
    reads = []
    for bb, j, st in hr.stmts():
        if st[0] != "A":
            continue
        rv = st[2]
        cands = []
        if rv[0] in ("use", "cast", "un", "repeat", "len", "disc"):
            o = rv[1] if rv[0] in ("use", "repeat", "len", "disc") else rv[2]
            if isinstance(o, list) and o and o[0] in ("c", "m"):
                cands.append(o[1])
            elif rv[0] in ("len", "disc") and isinstance(o, list):
                cands.append(o)
        elif rv[0] == "bin":
            cands += [o[1] for o in (rv[2], rv[3]) if o[0] in ("c", "m")]
        elif rv[0] == "ref" and rv[1] != "mut":
            cands.append(rv[2])
        elif rv[0] == "agg":
            cands += [o[1] for o in rv[2] if o[0] in ("c", "m")]
        for pl in cands:
            f = self_field_of(hr, pl)
            if f is not None:
                reads.append((bb, j, f, st[3][0] if len(st) > 3 else hr.lo))
    for bb, t in hr.calls():
        if any(t.callee.endswith(w) for w in WRITER_CALLS) or any(t.callee.endswith(g) for g in GROW) or ("Extend" in t.callee and t.callee.endswith("::extend")):
            continue
        for a, aty in zip(t.args, t.d.get("atys") or []):
            if a[0] not in ("c", "m"):
                continue
            f = self_field_of(hr, a)
            if f is not None and not aty.startswith("&mut"):
                reads.append((bb, 10 ** 6, f, t.line))
    # stores in the same block before the read count as well: compare statement order inside a block
    store_pos = {}
    for bb, j, st in hr.stmts():
        if st[0] == "A" and st[1][0] == 1 and len(st[1][1]) == 2 and st[1][1][0] == "*" and st[1][1][1][0] == "f":
            store_pos.setdefault((bb, st[1][1][1][2]), []).append(j)
    for bb, j, f, line in reads:
        n_reads += 1
        ok = any(w != bb and hr.dominates(w, bb) for w in writes.get(f, [])) or any(jj < j for jj in store_pos.get((bb, f), []))
        # a writer *call* (clear / replace) ends its block: a read in a later block is covered by dominance above
        chk.ob("C12-g", f"read of HintingInstance.{f} at line {line} follows a write of it", ok, key=f"{HGI}|read-before-write|{f}",
               file=hr.file, line=line, fn=hr.path,
               detail=f"`self.{f}` is read before this call to reconfigure() has written it: the value comes from the previous "
                      f"configuration, so a reused instance behaves differently from a fresh one")
    chk.floor("C12-g", "reads of instance fields in reconfigure", n_reads, 4)
    # kind is None on every Err exit: it is taken (mem::replace .. None) before the first fallible step and only stored after
    # the fallible step of each arm
    kind_stores = [(bb, j, st) for bb, j, st in hr.stmts() if st[0] == "A" and st[1][0] == 1 and len(st[1][1]) == 2 and st[1][1][1][0] == "f" and st[1][1][1][2] == "kind"]
    findings = []

    def on_stmt(bb, j, st, state, env, trace):
        if st[0] == "A" and st[1][0] == 1 and len(st[1][1]) == 2 and st[1][1][1][0] == "f" and st[1][1][1][2] == "kind":
            return "set"
        return None

    def on_call(bb, t, state, env, trace):
        if (t.callee.endswith("core::mem::replace") or t.callee.endswith("core::mem::take")) and self_field_of(hr, t.args[0]) == "kind":
            e = expr_of(hr, t.args[1]) if len(t.args) > 1 else ("agg", ("adt", "", 0, "None"), [])
            if e[0] == "agg" and e[1][0] == "adt" and e[1][3] == "None":
                return [("none", None)]
            return [("set", None)]
        return None

    def on_exit(bb, state, rv, env, trace):
        if ret_class(hr, rv) == "err" and state != "none":
            findings.append((bb, trace, state))

    ex2 = Explorer(hr, on_stmt=on_stmt, on_call=on_call, on_exit=on_exit)
    ex2.run("stale")
    # exits before the take are allowed only if nothing was modified yet: require none
    errs = [(bb, s) for bb, s, rv in ex2.exits if ret_class(hr, rv) == "err"]
    chk.ob("C12-a", f"HintingInstance::reconfigure: kind == None at all {len(errs)} Err exits", not findings and bool(errs),
           key=f"{HGI}|kind-none-on-err", file=hr.file, line=hr.lo, fn=hr.path,
           detail=f"an Err exit is reachable with kind in state {sorted(set(s for _, _, s in findings))}: a failed reconfigure would "
                  f"leave a hinter for the previous font/size in place")
    # CFF subfonts are cleared before the pushes
    sub_clear = [bb for bb, t in hr.calls() if t.callee.endswith("Vec::<T, A>::clear") and "Subfont" in t.d["cargs"]]
    sub_push = [bb for bb, t in hr.calls() if t.callee.endswith("Vec::<T, A>::push") and "Subfont" in t.d["cargs"]]
    chk.ob("C12-a", "CFF subfonts vector is cleared before it is refilled", bool(sub_clear) and all(any(hr.dominates(c, p) for c in sub_clear) for p in sub_push) and bool(sub_push),
           key=f"{HGI}|subfonts-clear", file=hr.file, line=hr.lo, fn=hr.path)

    # ---- C12-b -----------------------------------------------------------------------------------
    chk.rule("C12-b", "T-TYPE/T-WHO: draw entry points take &self; deep field walk of the shared types finds interior "
                      "mutability only in the autohint metrics memo, which is written only by its getter")
    for pat in (r"^skrifa::outline::OutlineGlyph::<'a>::draw$", r"^skrifa::outline::hint::HintingInstance::draw$",
                r"^skrifa::outline::glyf::hint::instance::HintInstance::hint$", r"^skrifa::outline::autohint::instance::Instance::draw$"):
        bs = facts.find_bodies(pat, "skrifa")
        chk.anchor("C12-b", pat, bs)
        s0 = bs[0].d["sig"]["in"][0]
        chk.ob("C12-b", f"{bs[0].path.split('::', 2)[-1]} takes {s0[:50]}", s0.startswith("&") and not s0.startswith("&mut"),
               key=f"self|{bs[0].path}", file=bs[0].file, line=bs[0].lo, fn=bs[0].path,
               detail="a draw entry point that takes &mut self cannot be shared between threads / can carry state between glyphs")
    adts = {r["path"]: r for c in ("skrifa", "read_fonts", "font_types") for r in facts.records("adt", c)}
    INTERIOR = re.compile(r"\b(core::cell::(Cell|RefCell|UnsafeCell|OnceCell)|std::sync::(poison::)?(mutex::Mutex|rwlock::RwLock|once_lock::OnceLock)|"
                          r"core::sync::atomic::Atomic|std::sync::(Mutex|RwLock|OnceLock)|std::sync::poison::rwlock::RwLock|std::sync::poison::mutex::Mutex)")
    roots = [HGI, "skrifa::outline::OutlineGlyph", "skrifa::outline::OutlineGlyphCollection", "skrifa::color::ColorGlyph",
             "skrifa::outline::autohint::style::GlyphStyles" if "skrifa::outline::autohint::style::GlyphStyles" in adts else None,
             "read_fonts::FontRef", HI]
    seen, hits = set(), []
    work = [(r, r) for r in roots if r]
    while work:
        p, via = work.pop()
        if p in seen:
            continue
        seen.add(p)
        r = adts.get(p)
        if r is None:
            continue
        for v in r["variants"]:
            for fname, fty, _ in v[1]:
                m = INTERIOR.search(fty)
                if m:
                    hits.append((p, fname, fty))
                for q in re.findall(r"[A-Za-z_][A-Za-z0-9_]*(?:::[A-Za-z_][A-Za-z0-9_]*)+", fty):
                    if q in adts and q not in seen:
                        work.append((q, via))
    chk.stats[f"C12-b:{cfg}:types_walked"] = len(seen)
    chk.floor("C12-b", "types walked from the shared instance types", len(seen), 40)
    allowed = ("skrifa::outline::autohint::metrics::UnscaledStyleMetricsSet", )
    for p, fname, fty in hits:
        chk.ob("C12-b", f"interior mutability: {p}.{fname}: {fty[:80]}", p in allowed, key=f"interior|{p}|{fname}",
               detail="shared draw state with interior mutability can make results depend on glyph history / thread interleaving")
    if any(p_ in allowed for p_, _, _ in hits):
        # the memo: write() only in the getter; Lazy constructed only in lazy()
        writers = set()
        for b in facts.all_bodies("skrifa"):
            for bb, t in b.calls():
                if t.callee.endswith("RwLock::<T>::write") and "UnscaledStyleMetrics" in t.d["cargs"]:
                    writers.add(b.path)
        chk.ob("C12-b", f"RwLock::write on the metrics memo only in its getter: {sorted(w.split('::')[-1] for w in writers)}",
               writers <= {"skrifa::outline::autohint::metrics::UnscaledStyleMetricsSet::get"} and bool(writers), key="memo|writers",
               detail=f"writers: {sorted(writers)}")
        # what is stored into the memo: only Some(<result of compute_unscaled_style_metrics>)
        getter = facts.body("skrifa::outline::autohint::metrics::UnscaledStyleMetricsSet::get")
        n_st = 0
        if getter is not None:
            from ..guards import expr_mentions_call
            for bb, j, st in getter.stmts():
                if st[0] != "A" or not st[1][1] or st[1][1][0] != "*":
                    continue
                rv = st[2]
                src_ty = None
                e = None
                if rv[0] == "use" and rv[1][0] in ("c", "m") and not rv[1][1][1]:
                    src_ty = getter.locals[rv[1][1][0]][0]
                    e = expr_of(getter, rv[1])
                elif rv[0] == "agg":
                    e = ("agg", tuple(rv[1]), [expr_of(getter, o) for o in rv[2]])
                    src_ty = "core::option::Option<" if rv[1][0] == "adt" and rv[1][1] == "core::option::Option" else None
                if not src_ty or "Option<" not in src_ty or e is None:
                    continue
                if "UnscaledStyleMetrics" not in (src_ty + getter.locals[st[1][0]][0]):
                    continue
                n_st += 1
                ok = e[0] == "agg" and len(e[1]) > 3 and e[1][3] == "Some" and expr_mentions_call(e, ["scale::compute_unscaled_style_metrics"])
                chk.ob("C12-b", f"memo store at line {st[3][0]} is Some(compute_unscaled_style_metrics(..))", ok, key=f"memo|store|{n_st}",
                       file=getter.file, line=st[3][0], fn=getter.path,
                       detail="a value other than the finished metrics is stored into the shared memo: a concurrent draw of the same "
                              "style can observe it, so results depend on thread interleaving")
            chk.floor("C12-b", "stores into the metrics memo", n_st, 1)
    nstat = 0
    for r in facts.records("static", "skrifa"):
        nstat += 1
        chk.ob("C12-b", f"static {r['path']} is immutable", r["freeze"] and not r["mutable"], key=f"static|{r['path']}", file=r["file"], line=r["line"])

    # ---- C12-c -----------------------------------------------------------------------------------
    chk.rule("C12-c", "T-STATE {Closed, Open} over OutlinePen calls: move_to Closed->Open, segments Open->Open, close Open->Closed; "
                      "every non-Err exit of contour_to_path / to_path is Closed; emit in seg*, finish in seg* close on Ok")
    PEN = "skrifa::outline::pen::OutlinePen::"
    P = "skrifa::outline::path::"
    emit = chk.anchor("C12-c", "PendingState::emit", facts.one_body(r"^skrifa::outline::path::PendingState::<C>::emit$", "skrifa"))
    finish = chk.anchor("C12-c", "PendingState::finish", facts.one_body(r"^skrifa::outline::path::PendingState::<C>::finish$", "skrifa"))
    c2p = chk.anchor("C12-c", "contour_to_path", facts.body(P + "contour_to_path"))
    t2p = chk.anchor("C12-c", "to_path", facts.body(P + "to_path"))
    SEG = ("line_to", "quad_to", "curve_to")
    # summaries: (callee) -> net effect on Ok given state
    summaries = {emit.path: ("seg",), finish.path: ("seg", "close"), c2p.path: ("contour",)}
    total_events = [0]

    def pen_check(body, init, want_ok, summ):
        findings = []

        def on_call(bb, t, state, env, trace):
            c = t.callee
            if c.startswith(PEN):
                m = c[len(PEN):]
                total_events[0] += 1
                if state == "POISON":
                    return [(state, None)]
                if m == "move_to":
                    if state != "Closed":
                        raise Violation(f"move_to at line {t.line} while a contour is open", bb, trace)
                    return [("Open", None)]
                if m in SEG:
                    if state != "Open":
                        raise Violation(f"{m} at line {t.line} before any move_to", bb, trace)
                    return [("Open", None)]
                if m == "close":
                    if state != "Open":
                        raise Violation(f"close at line {t.line} without an open contour", bb, trace)
                    return [("Closed", None)]
                return None
            if c in summ:
                dl = t.dest[0] if not t.dest[1] else None
                eff = summ[c]
                if state == "POISON":
                    return [("POISON", None)]
                if eff == ("seg",):
                    if state != "Open":
                        raise Violation(f"{c.split('::')[-1]} (emits segments) at line {t.line} before move_to", bb, trace)
                    ok_state = "Open"
                elif eff == ("seg", "close"):
                    if state != "Open":
                        raise Violation(f"{c.split('::')[-1]} (closes) at line {t.line} without an open contour", bb, trace)
                    ok_state = "Closed"
                else:  # a whole contour: Closed -> Closed
                    if state != "Closed":
                        raise Violation(f"{c.split('::')[-1]} at line {t.line} while a contour is open", bb, trace)
                    ok_state = "Closed"
                return [(ok_state, {dl: 0} if dl is not None else None), ("POISON", {dl: 1} if dl is not None else None)]
            return None

        def on_exit(bb, state, rv, env, trace):
            if ret_class(body, rv) == "err":
                return
            if state != want_ok:
                findings.append((f"non-Err exit in state {state}, expected {want_ok}", bb, trace))

        ex = Explorer(body, on_call=on_call, on_exit=on_exit)
        try:
            ex.run(init)
        except Violation as v:
            findings.append((v.msg, v.bb, v.trace))
        desc = f"{body.path.split('::', 3)[-1]}: {len(ex.visited)} triples, {len(ex.exits)} exits"
        if findings:
            seen_m = set()
            for msg, bb, trace in findings:
                k = msg.split(" at line")[0]
                if k in seen_m:
                    continue
                seen_m.add(k)
                chk.ob("C12-c", desc, False, key=f"{body.path}|{k}", file=body.file, line=body.blocks[bb].term.line or body.lo, fn=body.path,
                       detail=f"{msg}; path through lines {trace_lines(body, trace)[-16:]}")
        else:
            chk.ob("C12-c", desc, True)

    pen_check(emit, "Open", "Open", {})
    pen_check(finish, "Open", "Closed", {emit.path: ("seg",)})
    pen_check(c2p, "Closed", "Closed", {emit.path: ("seg",), finish.path: ("seg", "close")})
    pen_check(t2p, "Closed", "Closed", {c2p.path: ("contour",)})
    chk.floor("C12-c", "OutlinePen call sites seen", total_events[0], 8)

    # ---- C12-d -----------------------------------------------------------------------------------
    check_buffer_agreement(chk, facts)
    check_carve_alignment(chk, facts)

    # ---- C12-f -----------------------------------------------------------------------------------
    check_scratch_init(chk, facts)

    # ---- C12-e -----------------------------------------------------------------------------------
    chk.rule("C12-e", "T-WHO: raw LocationRef::coords() is read only where confirmed; hinting/drawing configuration goes through "
                      "effective_coords(), which drops an all-zero location")
    COORDS = "skrifa::instance::LocationRef::<'a>::coords"
    EFF = "skrifa::instance::LocationRef::<'a>::effective_coords"
    ALLOWED = {
        EFF: "definition of the normalisation itself",
        "skrifa::color::ColorGlyph::<'a>::bounding_box": "clip-box query, not a draw: with all-zero coordinates every region scalar "
                                                       "is 0, so the variable clip box equals the static one",
    }
    users, eff_users = [], []
    for b in facts.all_bodies("skrifa"):
        for bb, t in b.calls():
            if t.callee == COORDS:
                users.append((b, t))
            if t.callee == EFF:
                eff_users.append(b.path)
    for b, t in users:
        base = b.path.split("::{closure")[0]
        chk.ob("C12-e", f"LocationRef::coords() read in {b.path}", base in ALLOWED, why=ALLOWED.get(base), key=f"coords|{base}",
               file=b.file, line=t.line, fn=b.path,
               detail="reading the raw coordinates bypasses effective_coords(): an explicit all-zero location would then take the "
                      "variation code path and can differ from passing no location")
    need = [HGI + "::reconfigure"]
    for n in need:
        chk.ob("C12-e", f"{n.split('::', 2)[-1]} uses effective_coords()", n in eff_users, key=f"eff|{n}",
               detail="the hinting instance must normalise the location the same way the unhinted draw path does")
    chk.floor("C12-e", "callers of effective_coords()", len(eff_users), 3)


def check_buffer_agreement(chk, facts):
    from ..linform import LinEval, f_add, f_scale
    chk.rule("C12-d", "T-AGREE: for each (hinted, has_variations) case, sum(size_of::<T>() * count) carved by the memory constructors "
                      "<= the linear form returned by Outline::required_buffer_size; carve order non-increasing in alignment; slack >= max alignment")
    req = chk.anchor("C12-d", "Outline::required_buffer_size", facts.body("skrifa::outline::glyf::outline::Outline::<'_>::required_buffer_size"))
    sizes = {}
    for c in facts.crates:
        for r in facts.records("cgnode", c):
            # the carver (today `alloc_slice`) by name, or any generic function of the scratch-memory module (extra types are harmless)
            if r.get("targs") and (r["path"].endswith("::alloc_slice") or "outline::glyf::memory::" in r["path"]):
                for ty, sz, al in r["targs"]:
                    sizes.setdefault(ty, (sz, al))
    chk.floor("C12-d", "element types carved from the scratch buffer", len(sizes), 5)
    _carver = {}

    def is_carver(callee):
        # a function of the memory module that turns bytes into a typed slice itself (calls the bytemuck cast)
        if callee not in _carver:
            cb = facts.body(callee, _fuzzy=False) if callee.startswith(MEM) else None
            _carver[callee] = cb is not None and any("bytemuck::" in t2.callee and "cast_slice" in t2.callee for _, t2 in cb.calls())
        return _carver[callee]

    def label_name(body, op, helper=False):
        e = expr_of(body, op)
        s = show(body, e)
        name = None
        if "has_variations" in s and "discr" not in s:
            return "V"
        l = body.root_local(op)
        if l is not None and 0 < l <= body.argc and body.local_ty(l) == "bool" and e[0] in ("param", "local"):
            # inside a helper a bool parameter stands for whatever the caller passes
            return ("P", l) if helper else "H"
        if l is not None and body.local_name(l) in ("hinting", "hinted"):
            return "H"
        return None

    def label_edge(body, t, tgt, helper=False):
        e = expr_of(body, t.d[1])
        s = show(body, e)
        name = None
        if e[0] == "bin" and e[1] in ("Ne", "Eq") and e[3][0] == "const" and e[3][2] == 0 and body.local_name(body.root_local(t.d[1]) or 0) != "?" \
                and "size" in s:
            name = "NZ" if e[1] == "Ne" else "Z"
        elif "has_variations" in s and "discr" not in s:
            name = "V"
        else:
            # the "hinted" flag: a plain `bool` parameter tested directly (whatever it is called)
            name = label_name(body, t.d[1], helper)
        if name is None:
            return None
        for v, b2 in t.d[2]:
            if b2 == tgt:
                return (name, int(v) != 0)
        return (name, True) if tgt == t.d[3] and len(t.d[2]) == 1 and t.d[2][0][0] == "0" else None

    # advertised
    le = LinEval(req, 1, sizes, None)
    adv = {}

    def on_edge(bb, tgt, t, state, env, trace):
        lab = label_edge(req, t, tgt)
        if lab is None:
            return None
        labels, forms = state
        return (labels | {lab}, forms)

    def on_exit(bb, state, rv, env, trace):
        labels, forms = state
        f = dict(forms).get(0)
        if dict(labels).get("NZ") is False or dict(labels).get("Z") is True:
            return  # total size 0: every count is 0 and nothing is carved
        key = (dict(labels).get("H", False), dict(labels).get("V", False))
        adv.setdefault(key, set()).add(f)

    ex = Explorer(req, on_stmt=le.on_stmt, on_call=le.on_call, on_edge=on_edge, on_exit=on_exit)
    ex.run((frozenset(), ()))
    for k, v in adv.items():
        chk.ob("C12-d", f"required_buffer_size case hinted={k[0]} variations={k[1]}: {sorted(v, key=str)[:2]}", None not in v and len(v) >= 1,
               key=f"advertised|{k}", file=req.file, line=req.lo, fn=req.path,
               detail="the advertised size is not a linear form in the outline's counts on some path (cannot be compared with the carving)")
    chk.floor("C12-d", "advertised-size cases", len(adv), 4)
    MEM = "skrifa::outline::glyf::memory::"
    _outcomes = {}

    def carve_outcomes(m, depth=0):
        """set of (labels, carve sequence) over the non-Err exits of `m`; calls to other functions of the memory module
        that carve (helpers extracted from the constructors) are inlined, their element type parameter substituted"""
        if m.path in _outcomes:
            return _outcomes[m.path]
        _outcomes[m.path] = set()
        outs = set()

        def on_edge2(bb, tgt, t, state, env, trace):
            lab = label_edge(m, t, tgt, helper=depth > 0)
            if lab is None:
                return None
            labels, seq = state
            return (labels | {lab}, seq)

        def count_field(op):
            # the count of a carve: a field of the outline description, or (in a helper) one of the helper's parameters
            e = strip_casts(expr_of(m, op))
            fld = None
            if e[0] == "proj":
                for x in e[2]:
                    if isinstance(x, tuple) and x[0] == "f" and x[2]:
                        fld = x[2]
            elif e[0] == "param" and depth > 0:
                fld = ("param", e[1])
            return fld

        def on_call2(bb, t, state, env, trace):
            labels, seq = state
            if is_carver(t.callee):
                ty = t.d["cargs"].strip("[]")
                return [((labels, seq + ((count_field(t.args[1]), ty),)), None)]
            if t.callee.startswith(MEM) and depth < 3 and facts.body(t.callee) is not None and t.callee != m.path:
                sub = carve_outcomes(facts.body(t.callee), depth + 1)
                if not sub:
                    return None
                targ = t.d["cargs"].strip("[]")
                alts = []
                ek = (1, 0) if m.local_ty(t.dest[0]).startswith("core::option::Option<") else \
                    ((0, 1) if m.local_ty(t.dest[0]).startswith("core::result::Result<") else None)
                for sl, ss in sub:
                    merged = dict(labels)
                    clash = False
                    # the helper's parameters stand for the arguments of this call
                    sl2 = []
                    learnt = {}
                    for k2, v2 in sl:
                        if isinstance(k2, tuple) and k2[0] == "P":
                            aop = t.args[k2[1] - 1] if k2[1] - 1 < len(t.args) else None
                            k2 = label_name(m, aop, helper=depth > 0) if aop is not None else None
                            # the helper took this branch, so the argument had this value: later tests of the same local in
                            # the caller must agree (and earlier ones must have agreed)
                            rl = m.root_local(aop) if aop is not None else None
                            if rl is not None and m.local_ty(rl) == "bool":
                                if env.vals.get(rl) is not None and env.vals.get(rl) != int(v2):
                                    clash = True
                                learnt[rl] = int(v2)
                            if k2 is None:
                                continue    # an argument the labels do not describe: both outcomes stay possible
                        sl2.append((k2, v2))
                    sl = sl2
                    ss = tuple((count_field(t.args[f_[1] - 1]) if isinstance(f_, tuple) and f_[0] == "param" and f_[1] - 1 < len(t.args)
                                else f_, ty_) for f_, ty_ in ss)
                    for k2, v2 in sl:
                        if k2 in merged and merged[k2] != v2:
                            clash = True
                        merged[k2] = v2
                    if clash:
                        continue
                    # a single type parameter of the helper stands for the caller's type argument
                    ss2 = tuple((f_, targ if re.fullmatch(r"[A-Z]\w{0,2}(/#\d+)?", ty_) and "," not in targ else ty_) for f_, ty_ in ss)
                    fx = dict(learnt)
                    if ek and not t.dest[1]:
                        fx[t.dest[0]] = ek[0]
                    alts.append(((frozenset(merged.items()), seq + ss2), fx or None))
                if ek and not t.dest[1]:
                    alts.append(((labels, seq), {t.dest[0]: ek[1]}))     # the helper failed: the caller's `?` leaves
                return alts or None
            return None

        def on_exit2(bb, state, rv, env, trace):
            if ret_class(m, rv) == "err":
                return
            outs.add(state)

        Explorer(m, on_call=on_call2, on_edge=on_edge2, on_exit=on_exit2).run((frozenset(), ()))
        _outcomes[m.path] = outs
        return outs

    for mpath, is_ft in (("skrifa::outline::glyf::memory::FreeTypeOutlineMemory::<'a>::new", True),
                         ("skrifa::outline::glyf::memory::HarfBuzzOutlineMemory::<'a>::new", False)):
        m = chk.anchor("C12-d", mpath, facts.body(mpath))
        carved = {}
        for labels, seq in carve_outcomes(m):
            key = (dict(labels).get("H", False), dict(labels).get("V", False))
            carved.setdefault(key, set()).add(seq)
        nm = mpath.split("::")[-3]
        for key, seqs in sorted(carved.items()):
            if not is_ft and key[0]:
                continue  # the HarfBuzz layout has no hinted variant
            for seq in seqs:
                form = ()
                ok_types = True
                aligns = []
                for fld, ty in seq:
                    if ty not in sizes or fld is None:
                        ok_types = False
                        continue
                    form = f_add(form, ((fld, sizes[ty][0]),))
                    aligns.append(sizes[ty][1])
                advs = adv.get(key if is_ft else (False, key[1]), set())
                le_ok = ok_types and bool(advs)
                why = ""
                for a in advs:
                    if a is None:
                        le_ok = False
                        continue
                    ad = dict(a)
                    slack = ad.get("1", 0)
                    for fld, coeff in form:
                        if coeff > ad.get(fld, 0):
                            le_ok = False
                            why = f"carves {coeff} bytes per `{fld}` but only {ad.get(fld, 0)} are advertised"
                    if aligns and slack < max(aligns) and form:
                        le_ok = False
                        why = f"slack {slack} < max alignment {max(aligns)}"
                # worst-case padding: track the guaranteed alignment g of the carve position
                g, pad = 1, 0
                for fld, ty in seq:
                    if ty not in sizes:
                        continue
                    sz, al = sizes[ty]
                    if al > g:
                        pad += al - g
                    p2 = sz & -sz if sz else al
                    g = min(al, p2)
                slack_min = min((dict(a).get("1", 0) for a in advs if a is not None), default=0)
                chk.ob("C12-d", f"{nm} hinted={key[0]} variations={key[1]}: carves {form} <= advertised", le_ok,
                       key=f"{mpath}|{key}|le", file=m.file, line=m.lo, fn=m.path,
                       detail=f"a caller buffer of the advertised size is too small: {why or 'unknown element type / field'}")
                if is_ft:
                    chk.ob("C12-d", f"{nm} hinted={key[0]} variations={key[1]}: worst-case alignment padding {pad} <= advertised slack {slack_min} "
                                    f"(alignments {aligns})", pad <= slack_min,
                           key=f"{mpath}|{key}|padding", file=m.file, line=m.lo, fn=m.path,
                           detail=f"carving order needs up to {pad} bytes of alignment padding but only {slack_min} are advertised: a buffer of "
                                  f"the advertised size can be rejected depending on its address")
                else:
                    chk.notes.append(f"C12-d observation: {nm} variations={key[1]} carves alignments {aligns}: worst-case padding {pad} vs slack "
                                     f"{slack_min}; covered only by the advertised-but-unused max_other_points term (value-level, not claimed)")
        chk.floor("C12-d", f"carving cases of {nm}", len(carved), 2)


def check_carve_alignment(chk, facts):
    """C12-d, the link its padding bound rests on: slices are carved at align_of::<T>(), nothing coarser.  Decided on the
    carver itself (the function of the memory module that splits the buffer and ends in a bytemuck slice cast), whatever
    form the rounding takes (a helper, inline mask arithmetic, `align_offset`): the operand that says how many bytes to skip
    is computed from align_of::<T>() and not from size_of::<T>()."""
    from ..guards import expr_mentions_call
    ALIGN = ("core::mem::align_of", "core::mem::align_of_val")
    SIZE = ("core::mem::size_of", "core::mem::size_of_val")
    SLICE_OPS = re.compile(r"core::slice::<impl \[T\]>::(get|get_mut|split_at|split_at_mut|split_at_checked|split_at_mut_checked)$|"
                           r"core::ops::index::Index(Mut)?>::index(_mut)?$")
    carvers = [b for b in facts.all_bodies("skrifa") if b.path.startswith("skrifa::outline::glyf::memory::") and "{closure" not in b.path
               and any("bytemuck::" in t.callee and "cast_slice" in t.callee for _, t in b.calls())]
    chk.anchor("C12-d", "the carver of the scratch-memory module (alloc_slice)", carvers)
    for b in carvers:
        skips = []
        for bb, t in b.calls():
            if not SLICE_OPS.search(t.callee) or len(t.args) < 2:
                continue
            e = expr_of(b, t.args[1])
            if expr_mentions_call(e, ALIGN):
                skips.append((t, e))
        delegated = any(re.search(r"(align_to(_mut)?|pod_align_to(_mut)?)(::<.*>)?$", t.callee) for _, t in b.calls())
        chk.ob("C12-d", f"{b.path.split('::')[-1]}: {len(skips)} slice operand(s) derived from align_of::<T>()"
                        + (" (alignment delegated to align_to)" if delegated else ""), bool(skips) or delegated,
               key=f"{b.path}|carve-aligned", file=b.file, line=b.lo, fn=b.path,
               detail="the carver no longer skips to a position computed from align_of::<T>() before it casts the bytes: the cast "
                      "then fails (or succeeds) depending on the address of the caller's buffer")
        for t, e in skips:
            chk.ob("C12-d", f"{b.path.split('::')[-1]} line {t.line}: bytes skipped before the slice = {show(b, e)[:100]}",
                   not expr_mentions_call(e, SIZE), key=f"{b.path}|carve-alignment", file=b.file, line=t.line, fn=b.path,
                   detail="the advertised slack covers the padding needed to reach align_of::<T>() for each carved slice (C12-d's "
                          "padding bound is computed from the types' alignments); rounding the position to anything coarser "
                          "(e.g. size_of::<T>(): 8 for a point of two i32, alignment 4) can need more padding than advertised, so a "
                          "caller buffer of exactly the advertised size is rejected depending on its address")


def check_scratch_init(chk, facts):
    from ..guards import branch_guards
    chk.rule("C12-f", "T-ORDER/T-GUARD: scratch delta buffers (caller memory, never zeroed by the library's allocator path) are "
                      "zero-filled before accumulation and read only when they were written for this glyph")
    cd = chk.anchor("C12-f", "deltas::compute_deltas_for_glyph", facts.body("skrifa::outline::glyf::deltas::compute_deltas_for_glyph"))
    # the scratch delta buffer: the `&mut [Point<_>]` parameter that is not the output (by name if it is still called
    # `deltas`, else the first mutable point slice that some `fill`/`iter_mut` call receives)
    dparam = [i for i in range(1, cd.argc + 1) if cd.local_name(i) == "deltas"]
    if not dparam:
        muts = [i for i in range(1, cd.argc + 1) if cd.local_ty(i).replace(" ", "").startswith("&mut[") and "Point<" in cd.local_ty(i)]
        for i in muts:
            if any((t.callee.endswith("::fill") or t.callee.endswith("::iter_mut")) and any(op_place(a) is not None and cd.root_local(a) == i for a in t.args)
                   for _, t in cd.calls()):
                dparam = [i]
                break
    chk.anchor("C12-f", "`deltas` parameter of compute_deltas_for_glyph", dparam)
    dp = dparam[0]
    uses = [(bb, t) for bb, t in cd.calls() if any(op_place(a) is not None and cd.root_local(a) == dp for a in t.args)]
    fills = [(bb, t) for bb, t in uses if t.callee.endswith("::iter_mut") or t.callee.endswith("::fill")]
    # the fill loop stores Default::default() through the iterator
    dflt = [bb for bb, t in cd.calls() if t.callee.endswith("core::default::Default>::default") or t.callee.endswith("::default")]
    stores = [bb for bb, j, st in cd.stmts() if st[0] == "A" and st[1][1] and st[1][1][0] == "*" and st[1][0] > cd.argc]
    zero_ok = False
    if fills:
        fb = fills[0][0]
        if fills[0][1].callee.endswith("::fill"):
            zero_ok = True
        else:
            zero_ok = any(fb in cd.dominators().get(d, ()) for d in dflt) and bool(stores)
        others = [(bb, t) for bb, t in uses if bb != fb]
        zero_ok = zero_ok and all(cd.dominates(fb, bb) for bb, t in others) and bool(others)
    chk.ob("C12-f", f"compute_deltas_for_glyph: zero-fill of `deltas` dominates its {len(uses) - 1 if uses else 0} other use(s)", zero_ok,
           key=f"{cd.path}|zero-fill", file=cd.file, line=cd.lo, fn=cd.path,
           detail="deltas are accumulated (+=) into caller-provided scratch memory: without the zero-fill the result depends on what the buffer held")
    for pat in (r"^<skrifa::outline::glyf::FreeTypeScaler<'_> as skrifa::outline::glyf::Scaler>::load_composite$",
                r"^<skrifa::outline::glyf::HarfBuzzScaler<'_> as skrifa::outline::glyf::Scaler>::load_composite$"):
        b = chk.anchor("C12-f", pat, facts.one_body(pat, "skrifa"))
        # the writer: deltas::composite_glyph(.., &mut deltas) ; the flag: bool local assigned true only under its Ok edge
        wr = [(bb, t) for bb, t in b.calls() if t.callee.endswith("deltas::composite_glyph")]
        chk.anchor("C12-f", "call to deltas::composite_glyph", wr)
        trues = {}
        for bb, j, st in b.stmts():
            if st[0] == "A" and not st[1][1] and st[2][0] == "use" and st[2][1][0] == "k" and st[2][1][1] == "bool" and st[2][1][2] == "1" and b.local_ty(st[1][0]) == "bool":
                trues.setdefault(st[1][0], []).append(bb)
        flags = [l for l, bbs in trues.items() if all(b.dominates(wr[0][0], x) for x in bbs) and b.local_name(l) != f"_{l}"]
        reads = []
        for bb, t in b.calls():
            if (t.callee.endswith("::get") or t.callee.endswith("::index")) and t.args:
                r = b.root_place(op_place(t.args[0]))
                if any(isinstance(e, list) and e[0] == "f" and e[2] == "composite_deltas" for e in r[1]):
                    reads.append((bb, t))
        for bb, t in reads:
            guarded = any(b.root_local(b.blocks[g.bb].term.d[1]) in flags and g.taken_val != 0 for g in branch_guards(b, bb))
            chk.ob("C12-f", f"{b.path.split('::')[-3][-20:]}::load_composite line {t.line}: composite_deltas read only when deltas were computed", guarded,
                   key=f"{b.path}|composite-deltas-read", file=b.file, line=t.line, fn=b.path,
                   detail="memory.composite_deltas is read on a path where it was not written for this glyph: with caller-provided scratch "
                          "memory the outline then depends on the buffer's previous contents")
        chk.ob("C12-f", f"{b.path.split('>::')[-1]} ({'FreeType' if 'FreeType' in b.path else 'HarfBuzz'}): {len(reads)} read(s) of composite_deltas found", len(reads) >= 1,
               key=f"{b.path}|reads-found", file=b.file, line=b.lo, fn=b.path)
