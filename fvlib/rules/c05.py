"""C05 — offset packing is sound (structural clauses).

  C05-a  success gate: on every path of Graph::pack_objects / basic_sort, `true` is returned only when no call that
         can mutate the graph lies between the last overflow query that reported "no overflows" and the return
  C05-b  serialize only after success: Graph::serialize is called only from dump_table, dominated by the true edge
         of pack_objects() with no mutation in between; the false edge returns Error::PackingFailed
  C05-c  no silent truncation: write_offset narrows only through u16::try_from / Uint24::checked_new (no `as` cast)
  C05-d  the two overflow predicates (has_overflows, find_overflows) branch on the same normalised conditions
"""
import re
from ..facts import Facts
from ..mir import op_place, op_local, Term
from ..typestate import Explorer, ret_class, trace_lines
from ..guards import branch_guards, bail_error_variants, adt_aggregates
from ..sym import expr_of, strip_casts, show, rvalue_expr

G = "write_fonts::graph::Graph::"
GT = "write_fonts::graph::Graph"
HAS = G + "has_overflows"
FIND = G + "find_overflows"
PO = G + "pack_objects"
BS = G + "basic_sort"
SER = G + "serialize"


def _resolve_graph(facts):
    """The packing routines are found from the public entry point `dump_table` and by what they do, not by name:
    pack_objects is the `&mut Graph -> bool` method dump_table calls, serialize the `&Graph -> Vec<u8>` one; the two overflow
    queries are the `&Graph` methods (bool / Vec<Overflow>) that compare against OffsetLen::max_value (possibly through a
    helper); basic_sort is the `&mut Graph -> bool` method pack_objects calls that asks the bool query."""
    global HAS, FIND, PO, BS, SER
    dt = facts.body("write_fonts::write::dump_table")
    if dt is None:
        return

    def sig(path):
        b = facts.body(path, _fuzzy=False)
        if b is None or not path.startswith(G) or "{closure" in path:
            return None, None, None
        ins = b.d["sig"]["in"]
        return b, (ins[0].replace(" ", "") if ins else ""), b.locals[0][0]
    po = [t.callee for _, t in dt.calls() if sig(t.callee)[1] == "&mut" + GT and sig(t.callee)[2] == "bool"]
    ser = [t.callee for _, t in dt.calls() if sig(t.callee)[1] == "&" + GT and sig(t.callee)[2].startswith("alloc::vec::Vec<u8")]
    if len(set(po)) == 1:
        PO = po[0]
    if len(set(ser)) == 1:
        SER = ser[0]

    def reaches_max_value(b, depth=0):
        if b is None or depth > 2:
            return False
        for _, t in b.calls():
            if t.callee.endswith("OffsetLen::max_value"):
                return True
            if t.callee.startswith("write_fonts::graph::") and reaches_max_value(facts.body(t.callee, _fuzzy=False), depth + 1):
                return True
        return False
    qs = [b for b in facts.all_bodies("write_fonts") if b.path.startswith(G) and "{closure" not in b.path
          and b.path.count("::") == G.count("::") and sig(b.path)[1] == "&" + GT and reaches_max_value(b)]
    has = [b.path for b in qs if b.locals[0][0] == "bool"]
    find = [b.path for b in qs if b.locals[0][0].startswith("alloc::vec::Vec<write_fonts::graph::Overflow")]
    if len(has) == 1:
        HAS = has[0]
    if len(find) == 1:
        FIND = find[0]
    pb = facts.body(PO, _fuzzy=False)
    if pb is not None:
        bs = sorted({t.callee for _, t in pb.calls() if sig(t.callee)[1] == "&mut" + GT and sig(t.callee)[2] == "bool"
                     and any(t2.callee == HAS for _, t2 in facts.body(t.callee, _fuzzy=False).calls())})
        if len(bs) == 1:
            BS = bs[0]


def takes_mut_graph(t):
    return bool(t.d["atys"]) and t.d["atys"][0].replace(" ", "") == "&mut" + GT


def gate_check(chk, facts, body, clean_true_callees):
    """state = ('dirty'|'clean', frozenset(fresh query locals))"""
    findings = []

    def on_call(bb, t, state, env, trace):
        status, fresh = state
        c = t.callee
        dl = t.dest[0] if not t.dest[1] else None
        if takes_mut_graph(t):
            # a mutating call: nothing known any more; its own bool result may be refined on the edge
            nf = frozenset([("mut", dl, c)]) if c in clean_true_callees and dl is not None else frozenset()
            return [(("dirty", nf), None)]
        if c == HAS and dl is not None:
            return [((status, fresh | {("has", dl, c)}), None)]
        if c == FIND and dl is not None:
            return [((status, fresh | {("find", dl, c)}), None)]
        if c.endswith("::is_empty") and t.args and dl is not None:
            root = body.root_local(t.args[0])
            if any(k == "find" and l == root for k, l, _ in fresh):
                return [((status, fresh | {("find_empty", dl, c)}), None)]
        return None

    def on_edge(bb, tgt, t, state, env, trace):
        status, fresh = state
        l = body.root_local(t.d[1])
        # which value does this edge carry?
        val = None
        for v, b2 in t.d[2]:
            if b2 == tgt:
                val = int(v)
        if val is None and tgt == t.d[3] and len(t.d[2]) == 1:
            val = 1 - int(t.d[2][0][0]) if int(t.d[2][0][0]) in (0, 1) else None
        # through a Not?
        neg = False
        sd = body.single_def(l) if l is not None else None
        while sd is not None and not isinstance(sd[2], Term) and sd[2][0] == "un" and sd[2][1] == "Not":
            l = op_local(sd[2][2])
            neg = not neg
            sd = body.single_def(l) if l is not None else None
        if val is not None and neg:
            val = 1 - val
        for k, ql, c in fresh:
            if ql == l and val is not None:
                if k == "has" and val == 0:
                    return ("clean", fresh)
                if k == "find_empty" and val == 1:
                    return ("clean", fresh)
                if k == "mut" and val == 1:
                    return ("clean", fresh)
        return None

    def on_exit(bb, state, rv, env, trace):
        status, fresh = state
        if rv == 0:
            return
        if rv == 1:
            if status != "clean":
                findings.append(("returns true on a path where the graph was modified after the last overflow query that "
                                 "reported none", bb, trace))
            return
        # unknown value: must be the (negated) result of a fresh has_overflows query
        e = None
        for blk_i in reversed(trace):
            for st in reversed(body.blocks[blk_i].stmts):
                if st[0] == "A" and st[1] == [0, []]:
                    e = st
                    break
            if e:
                break
        ok = False
        if e is not None:
            rvx = e[2]
            if rvx[0] == "un" and rvx[1] == "Not":
                l = body.root_local(rvx[2])
                ok = any(k == "has" and ql == l for k, ql, _ in fresh)
            elif rvx[0] == "use":
                l = body.root_local(rvx[1])
                ok = status == "clean" or any(k in ("find_empty", "mut") and ql == l for k, ql, _ in fresh)
        if not ok and status != "clean":
            findings.append(("returns a value that is not derived from a fresh overflow query", bb, trace))

    ex = Explorer(body, on_call=on_call, on_edge=on_edge, on_exit=on_exit)
    ex.run(("dirty", frozenset()))
    return ex, findings


def norm(body, e):
    """expression with locals replaced by their types (to compare sibling functions)"""
    if not isinstance(e, tuple):
        return e
    k = e[0]
    if k in ("local", "param"):
        return ("v", body.local_ty(e[1]))
    if k == "const":
        return e[:3]
    if k == "call":
        return ("call", e[1], tuple(norm(body, a) for a in e[2]))
    if k == "proj":
        return ("proj", norm(body, e[1]), tuple((x[0], x[2]) if isinstance(x, tuple) and x[0] == "f" else (x if isinstance(x, str) else x[0]) for x in e[2]))
    return (k,) + tuple(norm(body, x) if isinstance(x, tuple) else (tuple(norm(body, y) for y in x) if isinstance(x, list) else x) for x in e[1:])


def branch_conditions(body):
    """normalised conditions of all switches that are not iterator/option plumbing"""
    out = []
    for i, blk in enumerate(body.blocks):
        t = blk.term
        if t.kind != "switch" or blk.cleanup:
            continue
        e = strip_casts(expr_of(body, t.d[1]))
        # `opt.is_some()` / `res.is_ok()` and `match opt { Some(..) => .. }` are the same test: compare the scrutinee
        if e[0] == "call" and e[1] in ("core::option::Option::<T>::is_some", "core::option::Option::<T>::is_none",
                                       "core::result::Result::<T, E>::is_ok", "core::result::Result::<T, E>::is_err") and e[2]:
            inner0 = e[2][0]
            while inner0[0] == "ref":
                inner0 = inner0[1]
            e = ("disc", inner0)
        if e[0] == "disc":
            inner = e[1]
            s = show(body, inner)
            if "next(" in s or "Option" in str(inner)[:200]:
                # `for` loop plumbing
                if inner[0] == "call" and inner[1].endswith("::next"):
                    continue
        out.append(norm(body, e))
    return sorted(map(repr, out))


def run(chk):
    configs = ["union"] if chk.tier == "quick" else ["union", "allfeat"]
    for cfg in configs:
        chk.configs.append(cfg)
        run_config(chk, Facts(cfg))
    chk.assume("node positions used by the overflow predicates equal the byte offsets serialize() produces (value level, not decided)")


def dedup_key_check(chk, facts):
    """C05-e: objects are merged by ObjectStore only when equal; the equality / hash that decides it must observe every
    byte and every field of every offset record, or two different tables collapse into one object"""
    chk.rule("C05-e", "T-TYPE: the de-duplication key of the object store (TableData) is compared and hashed over `bytes` and "
                      "`offsets`; OffsetRecord, OffsetLen and ObjectId derive PartialEq/Eq/Hash (all fields) or their hand-written "
                      "impls read every field")
    W = "write_fonts::write::"
    impls = {}
    for r in facts.records("impl", "write_fonts"):
        impls.setdefault(r.get("self_ty"), {})[r.get("trait")] = r
    adts = {r["path"]: r for r in facts.records("adt", "write_fonts")}

    def fields_read(path_re):
        out = set()
        for b in facts.find_bodies(path_re, "write_fonts"):
            for blk in b.blocks:
                for st in blk.stmts:
                    if st[0] != "A":
                        continue
                    txt = repr(st[2])
                    for m in re.finditer(r"\['f', \d+, '(\w+)', '([\w:]+)'", txt):
                        out.add((m.group(2), m.group(1)))
                t = blk.term
                if t.kind == "call":
                    for m in re.finditer(r"\['f', \d+, '(\w+)', '([\w:]+)'", repr(t.args)):
                        out.add((m.group(2), m.group(1)))
        return out

    def check_type(ty, required):
        a = adts.get(ty)
        chk.anchor("C05-e", ty, a)
        im = impls.get(ty, {})
        for tr, fn in (("core::cmp::PartialEq", "eq"), ("core::hash::Hash", "hash")):
            r = im.get(tr)
            if r is None:
                chk.ob("C05-e", f"{ty.split('::')[-1]}: impl {tr.split('::')[-1]} exists", False, key=f"{ty}|{tr}|missing",
                       detail="the de-duplication key type must be comparable and hashable")
                continue
            if r.get("derived"):
                chk.ob("C05-e", f"{ty.split('::')[-1]}: {tr.split('::')[-1]} is derived (observes every field)", True)
                continue
            names = required if required is not None else [f[0] for v in a["variants"] for f in v[1]]
            seen = fields_read(r"^<" + re.escape(ty) + r" as " + re.escape(tr) + r">::" + fn + r"$")
            missing = [n for n in names if (ty, n) not in seen]
            chk.ob("C05-e", f"{ty.split('::')[-1]}: hand-written {tr.split('::')[-1]}::{fn} reads {sorted(n for t, n in seen if t == ty)}",
                   not missing, key=f"{ty}|{tr}|fields", file=r.get("file"), line=r.get("line"),
                   detail=f"field(s) {missing} are not observed: two objects differing only there are merged into one, and an "
                          f"offset written for one resolves to the other")
    check_type(W + "TableData", ["bytes", "offsets"])
    check_type(W + "OffsetRecord", None)
    check_type("write_fonts::graph::OffsetLen", None)
    check_type("write_fonts::graph::ObjectId", None)


def run_config(chk, facts):
    _resolve_graph(facts)
    dedup_key_check(chk, facts)
    po = chk.anchor("C05-a", PO, facts.body(PO))
    bs = chk.anchor("C05-a", BS, facts.body(BS))
    chk.rule("C05-a", "T-STATE {dirty, clean}: any call taking &mut Graph makes the graph dirty; the no-overflow edge of "
                      "has_overflows() / find_overflows().is_empty() / basic_sort() makes it clean; `true` is returned only when clean")
    for b, clean_true in ((bs, ()), (po, (BS,))):
        ex, findings = gate_check(chk, facts, b, clean_true)
        n_true = sum(1 for _, s, rv in ex.exits if rv == 1)
        desc = f"{b.path}: {len(ex.visited)} (block,state,facts) triples, {len(ex.exits)} exits ({n_true} return true)"
        if findings:
            seen = set()
            for msg, bb, trace in findings:
                if msg in seen:
                    continue
                seen.add(msg)
                chk.ob("C05-a", desc, False, key=f"{b.path}|{msg[:40]}", file=b.file, line=b.blocks[bb].term.line or b.lo, fn=b.path,
                       detail=f"{msg}; path through lines {trace_lines(b, trace)[-16:]}")
        else:
            chk.ob("C05-a", desc, True)
        chk.sample({"fn": b.path, "exits": [(bb, s[0], rv) for bb, s, rv in ex.exits]})
    muts = [t.callee.split("::")[-1] for _, t in po.calls() if takes_mut_graph(t)]
    chk.floor("C05-a", "mutating calls in pack_objects", len(muts), 5)
    chk.floor("C05-a", "overflow queries in pack_objects+basic_sort",
              sum(1 for b in (po, bs) for _, t in b.calls() if t.callee in (HAS, FIND)), 4)
    # the queries themselves take &self
    for q in (HAS, FIND):
        qb = chk.anchor("C05-a", q, facts.body(q))
        chk.ob("C05-a", f"{q.split('::')[-1]} takes &self", qb.d["sig"]["in"][0].startswith("&" + GT) and not qb.d["sig"]["in"][0].startswith("&mut"),
               key=f"{q}|self", file=qb.file, line=qb.lo, fn=q)

    # ---- C05-b -----------------------------------------------------------------------------------
    chk.rule("C05-b", "T-WHO/T-GUARD: Graph::serialize is called only from dump_table (library code), dominated by the true "
                      "edge of pack_objects() with no &mut Graph call in between; the false edge builds Error::PackingFailed")
    ser = SER
    callers = []
    for b in facts.all_bodies("write_fonts"):
        for bb, t in b.calls():
            if t.callee == ser:
                callers.append((b, bb, t))
    chk.ob("C05-b", f"callers of Graph::serialize: {[b.path for b, _, _ in callers]}",
           [b.path for b, _, _ in callers] == ["write_fonts::write::dump_table"], key="serialize|callers",
           detail="serialize() asserts offsets fit; it must only run after pack_objects() returned true")
    for b, bb, t in callers:
        gs = [g for g in branch_guards(b, bb)]
        ok = False
        for g in gs:
            c = g.cond
            neg = False
            while c[0] == "un" and c[1] == "Not":
                c = c[2]
                neg = not neg
            if c[0] == "call" and c[1] == PO:
                truth = (g.taken_val != 0)
                if neg:
                    truth = not truth
                variants = [v for _, v in bail_error_variants(b, g)]
                # no mutation between the pack_objects call and serialize
                pk = [cb for cb, ct in b.calls() if ct.callee == PO][0]
                between = [ct.callee for cb, ct in b.calls() if takes_mut_graph(ct) and cb != pk and b.dominates(pk, cb) and bb in b.reachable_from(cb)]
                ok = truth and "PackingFailed" in variants and not between
                chk.sample({"dump_table gate": g.cond_str(), "bail builds": variants, "mutations between": between})
        chk.ob("C05-b", f"{b.path}: serialize() dominated by pack_objects()==true, failing edge -> PackingFailed", ok,
               key=f"{b.path}|gate", file=b.file, line=t.line, fn=b.path)

    # ---- C05-c -----------------------------------------------------------------------------------
    chk.rule("C05-c", "T-CAST: in serialize::write_offset the resolved offset is narrowed only by u16::try_from / "
                      "Uint24::checked_new whose failure panics; no `as` narrowing of the offset value")
    wo = chk.anchor("C05-c", "Graph::serialize::write_offset", facts.body(SER + "::write_offset"))
    narrow = []
    for bb, j, st in wo.stmts():
        if st[0] == "A" and st[2][0] == "cast" and st[2][1] == "IntToInt" and st[2][4] == "u32":
            narrow.append(st)
    chk.ob("C05-c", f"`as` casts of a u32 in write_offset: {len(narrow)}", not narrow, key="write_offset|cast", file=wo.file,
           line=narrow[0][3][0] if narrow else wo.lo, fn=wo.path,
           detail="an `as` cast of the resolved offset silently truncates an overflowing offset")
    names = [t.callee for _, t in wo.calls()]
    chk.ob("C05-c", "16-bit offsets go through u16::try_from(..)", any("TryFrom<u32>" in n and "u16" in n or n.endswith("::try_from") for n in names),
           key="write_offset|u16", file=wo.file, line=wo.lo, fn=wo.path)
    chk.ob("C05-c", "24-bit offsets go through Uint24::checked_new(..)", any(n.endswith("Uint24::checked_new") for n in names),
           key="write_offset|u24", file=wo.file, line=wo.lo, fn=wo.path)
    # and the results are unwrapped (panic) rather than defaulted
    for bb, t in wo.calls():
        if t.callee.endswith("Uint24::checked_new") or "try_from" in t.callee:
            from ..guards import result_fate
            fate = result_fate(wo, bb)
            chk.ob("C05-c", f"{t.callee.split('::')[-1]} result: {sorted(fate)}", fate <= {"swallowed:expect", "swallowed:unwrap", "propagated"},
                   key=f"write_offset|fate|{t.callee.split('::')[-1]}", file=wo.file, line=t.line, fn=wo.path,
                   detail="a failed narrowing must not be replaced by a default value")

    # ---- C05-d -----------------------------------------------------------------------------------
    chk.rule("C05-d", "T-AGREE: has_overflows and find_overflows test the same conditions (normalised expression trees)")
    hb, fb = facts.body(HAS), facts.body(FIND)

    def deep_conditions(b, depth=0, seen=None):
        """conditions of b plus those of the graph-module helpers it calls and the closures it builds (a predicate that
        moved into a shared helper or an iterator adapter's closure still counts, for both siblings alike)"""
        seen = seen if seen is not None else set()
        if b is None or b.path in seen or depth > 3:
            return []
        seen.add(b.path)
        out = list(branch_conditions(b))
        for bb, t in b.calls():
            if t.callee.startswith("write_fonts::graph::") and t.callee not in (HAS, FIND):
                out += deep_conditions(facts.body(t.callee, _fuzzy=False), depth + 1, seen)
        for bb, j, st in b.stmts():
            if st[0] == "A" and st[2][0] == "agg" and st[2][1][0] == "closure":
                out += deep_conditions(facts.body(st[2][1][1], _fuzzy=False), depth + 1, seen)
        return sorted(out)
    hc, fc = deep_conditions(hb), deep_conditions(fb)
    def helpers(b):
        return {t.callee for _, t in b.calls() if t.callee.startswith("write_fonts::graph::") and t.callee not in (HAS, FIND)}
    shared = helpers(hb) & helpers(fb)
    # both siblings delegating to one shared helper agree by construction, even when the predicate is a value
    # (`cond.then_some(..)`) rather than a branch
    chk.ob("C05-d", f"{len(hc)} condition(s) in has_overflows == {len(fc)} in find_overflows"
                    + (f" (both delegate to {sorted(x.split('::')[-1] for x in shared)})" if shared and not hc else ""),
           hc == fc and (len(hc) >= 1 or bool(shared)),
           key="siblings|conds", file=hb.file, line=hb.lo, fn=HAS,
           detail=f"the cheap predicate gates the success result, the detailed one drives repair; they must agree. "
                  f"has_overflows: {hc} ; find_overflows: {fc}")
    chk.sample({"overflow predicate": hc})
