"""C20 — no arithmetic overflow / debug assertion reachable from font data: claimed for declared zones only.

The zones are the places where the repository's own convention is "this arithmetic is explicitly wrapping /
saturating / checked".  Inside a zone every MIR Assert (overflow, negate, shift, div/rem by zero, bounds) and every
overflow-inheriting std arithmetic call must be discharged by the interval analysis (type ranges, constants,
widening casts, guard refinement) — or be absent because the code uses a hardened operation.

  C20-a  fixed-point operators: impls of core::ops arithmetic traits and mul_div for Fixed / F26Dot6 / F2Dot14 / ...
  C20-b  core reader zone (font_data, read, array, offset, offset_array, table_ref)                 [= C01-a]
  C20-d  TrueType interpreter arithmetic: hint/math.rs, hint/round.rs, engine/arith.rs, engine/round.rs
"""
import re

from ..facts import Facts
from ..zone import check_zone, report


def zones(facts):
    z = {}
    z["C20-a"] = ("font-types/src/fixed.rs operator impls + mul_div",
                  [b for b in facts.bodies_in_files("font_types", [r"font-types/src/fixed\.rs$"])
                   if re.search(r"core::ops::arith::|::mul_div$|::wrapping_(add|sub)$|::saturating_(add|sub)$", b.path)], 20)
    z["C20-b"] = ("read-fonts core reader zone",
                  facts.bodies_in_files("read_fonts", [r"read-fonts/src/(font_data|read|array|offset|offset_array|table_ref)\.rs$"]), 12)
    z["C20-d"] = ("TrueType interpreter arithmetic (hint/math.rs, hint/round.rs, engine/arith.rs, engine/round.rs)",
                  facts.bodies_in_files("skrifa", [r"glyf/hint/math\.rs$", r"glyf/hint/round\.rs$", r"glyf/hint/engine/(arith|round)\.rs$"]), 10)
    return z


def run(chk):
    configs = ["union"] if chk.tier == "quick" else ["union", "allfeat", "skrifa_libm"]
    for cfg in configs:
        chk.configs.append(cfg)
        facts = Facts(cfg)
        for rid, (what, bodies, floor) in zones(facts).items():
            chk.rule(rid, f"T-ZONE: {what}: every overflow/negate/shift/div/bounds Assert and every overflow-inheriting std "
                          f"arithmetic call is discharged by interval analysis with guard refinement")
            res = check_zone(bodies, only_kinds=("assert:", "call:arith-call"))
            report(chk, rid, res, "arithmetic on a value that can be extreme is not wrapping/saturating/checked")
            chk.floor(rid, f"functions in zone", len(bodies), 5)
            chk.floor(rid, f"arithmetic sites in zone", len(res.sites), floor)
            chk.stats[f"{rid}:{cfg}:functions"] = len(bodies)
            for s in res.sites[:3]:
                chk.sample({"zone": rid, "site": f"{s['body'].path} line {s['line']} {s['kind']}", "discharge": s["why"]})
        from .sites import run_sites
        run_sites(chk, facts, "C20-f", cfg)
        if cfg == "union":
            from .sites import run_engine_fixture
            run_engine_fixture(chk)
    from .c04 import check_readers
    check_readers(chk, "C20-c")
    chk.notes.append("C20-c: the generated marker range functions compute `start + len` (1147 additions); read()/marker agreement plus the "
                     "Cursor::finish gate (positions saturate and are <= data.len() <= isize::MAX) make these additions overflow-free.")
    chk.assume("values entering a zone function are bounded only by their types (the interpreter stack can hold any i32)")
    chk.notes.append("hint/round.rs joined zone d after F12 was repaired (wrapping arithmetic, as FreeType's ADD_LONG/NEG_LONG).  The "
                     "glyf scaler, CFF hinter, autohinter, colour instance and hand-written table helpers are covered by the census "
                     "C20-f only (no NEW unproven site); their baseline sites are not claimed.")
