"""C04 — a compiled table reads back as written (structural clauses, engine E2 = gencheck).

  C04-r  (= C01-d) reader / shape-marker / getter agreement for every generated table: read() and the marker's byte-range
         functions walk the same fields in the same order with the same widths and conditions; each getter reads the width and
         optionality of its slot; a getter that reads "to the end of the table" is on the last field; every unwrap in a
         generated reader file is one of the recognised getter forms (or a guarded traversal access)
  C04-a  reader <-> writer agreement: wire field sequence, widths, version gates (see check_writers)
  C04-e  computed version covers every present version-gated field (MIR, see c04v)
"""
import os
import re

from .. import gen
from ..facts import REPO


def run(chk):
    chk.configs.append("source")
    check_readers(chk, "C04-r")
    from . import c04w
    c04w.check_writers(chk)
    from . import c04v
    from ..facts import Facts
    chk.configs.append("union")
    c04v.check_versions(chk, Facts("union"))
    chk.assume("generated files stay within the grammar font-codegen emits; anything else fails closed as 'outside the generated grammar'")
    chk.assume("hand-written compute_* expressions other than compute_version (C04-e), FromObjRef conversions and byte-for-byte idempotence are not decided")


def check_readers(chk, rid):
    chk.rule(rid, "T-AGREE (syn): generated read() <-> Marker byte ranges <-> getters agree per field (order, start, width, condition); "
                  "open-ended getters only on the last field; every unwrap is a recognised getter form")
    files = gen.generated_files("read-fonts")
    data = gen.dump(files)
    n_markers = n_read = n_getters = n_unwraps = 0
    file_unwraps = 0
    for d in data:
        fname = os.path.basename(d["file"])
        rel = os.path.relpath(d["file"], REPO)
        markers, aliases = gen.table_model(d["items"])

        def report(ok, key, msg, line, _rel=rel):
            chk.ob(rid, msg, ok, key=f"{fname}|{key}", file=_rel, line=line, detail=msg if not ok else None)

        accounted = 0
        for mname, m in sorted(markers.items()):
            n_markers += 1
            model = gen.check_marker(mname, m, report)
            if model is None:
                continue
            if not model["noread"]:
                n_read += 1
            g, u = gen.check_getters(mname, m, model, report)
            n_getters += g
            n_unwraps += u
            accounted += u
        # traversal get_field: unwraps only on optional getters under the same condition
        conds = {}
        for mname, m in markers.items():
            if m["read"] is None:
                continue
            steps, finish, lens, problems = gen.parse_read(m["read"])
            fields, _ = gen.fields_from_read(steps)
            rr = [gen.parse_range_fn(f) for f in m["ranges"]]
            if None in rr or len(rr) != len(fields):
                continue
            for fd, rg in zip(fields, rr):
                if fd["optional"]:
                    conds[(mname, rg["name"])] = fd["cond"]
        total = 0
        for it in d["items"]:
            fns = it["fns"] if it["k"] == "impl" else ([it["fn"]] if it["k"] == "fn" else [])
            for f in fns:
                total += f["unwraps"] + f["expects"] + f["panics"]
                if it["k"] == "impl" and it["trait"] and it["trait"].startswith("SomeTable") and f["name"] == "get_field" and f["unwraps"]:
                    base = re.sub(r"\s*<.*$", "", it["self_ty"]).strip()
                    mk = aliases.get(base)
                    arms = []
                    for s in f["stmts"]:
                        if s.startswith("match "):
                            arms += gen.arm_conditions(s)
                    okc = len(arms) == f["unwraps"]
                    for g, guard in arms:
                        want = conds.get((mk, g)) or conds.get((mk, g + "_offset"))  # the resolver of an optional offset
                        if want is None or guard is None or re.sub(r"\s+", "", guard) != re.sub(r"\s+", "", want.replace("flags", "flags")) and \
                                re.sub(r"\s+", "", guard) not in re.sub(r"\s+", "", want) and re.sub(r"\s+", "", want) not in re.sub(r"\s+", "", guard):
                            okc = False
                    chk.ob(rid, f"{fname}: {base}::get_field unwraps {f['unwraps']} optional getter(s) under their own condition", okc,
                           key=f"{fname}|get_field|{base}", file=rel, line=f["line"],
                           detail=f"traversal unwraps {arms} but the fields' conditions are {[(g, conds.get((mk, g))) for g, _ in arms]}")
                    if okc:
                        accounted += f["unwraps"]
        file_unwraps += total
        chk.ob(rid, f"{fname}: {total} unwrap/expect/panic sites, {accounted} accounted for by recognised forms", total == accounted,
               key=f"{fname}|unwrap-census", file=rel, line=1,
               detail=f"{total - accounted} unwrap/expect/panic site(s) in a generated reader file are not of a recognised getter form")
    chk.floor(rid, "marker types analysed", n_markers, 250)
    chk.floor(rid, "generated read() bodies analysed", n_read, 230)
    chk.floor(rid, "getters analysed", n_getters, 1100)
    chk.floor(rid, "unwraps classified", file_unwraps, 1200)
    chk.stats[f"{rid}:markers"] = n_markers
    chk.stats[f"{rid}:getters"] = n_getters
    chk.sample({"markers": n_markers, "reads": n_read, "getters": n_getters, "unwraps": file_unwraps})
