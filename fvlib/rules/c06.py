"""C06 — built font files are well-formed (structural clauses).

  C06-a  never override: in copy_missing_tables every insertion is dominated by the `false` edge of
         tables.contains_key(&tag) (directly or through a wrapper that is exactly that call)
  C06-b  canonical order: FontBuilder.tables is an ordered map keyed by Tag; in build() the directory is made from
         records sorted by their tag; ordered_tags() sorts with a key whose last component is the tag itself
  C06-c  head patching guard: every constant-range slicing of table bytes in build() is dominated by `len >= K`
         with K covering the range
"""
import re

from ..facts import Facts
from ..guards import branch_guards
from ..mir import op_place, Term
from ..sym import expr_of, strip_casts, show

FB = "write_fonts::font_builder::FontBuilder::<'a>::"


def is_contains_key_on_tables(body, e, depth=0, facts=None):
    """e is the guard condition: contains_key(&self.tables, &tag) possibly behind Not / a transparent wrapper"""
    neg = False
    while e[0] == "un" and e[1] == "Not":
        e = e[2]
        neg = not neg
    if e[0] != "call":
        return None
    if e[1].endswith("BTreeMap::<K, V, A>::contains_key") or e[1].endswith("HashMap::<K, V, S, A>::contains_key"):
        s = show(body, e[2][0])
        if ".tables" in s:
            return neg
        return None
    if depth < 2 and facts is not None:
        wb = facts.body(e[1])
        if wb is not None and transparent_contains(wb, facts):
            return neg
    return None


def transparent_contains(wb, facts):
    """the wrapper returns exactly self.tables.contains_key(&tag): one call, no branch"""
    calls = [t for _, t in wb.calls()]
    if len(calls) != 1 or not calls[0].callee.endswith("::contains_key"):
        return False
    if any(b.term.kind == "switch" for b in wb.blocks if not b.cleanup):
        return False
    if calls[0].dest != [0, []]:
        return False
    return ".tables" in show(wb, expr_of(wb, calls[0].args[0]))


def run(chk):
    configs = ["union"] if chk.tier == "quick" else ["union", "allfeat"]
    for cfg in configs:
        chk.configs.append(cfg)
        facts = Facts(cfg)
        run_config(chk, facts)
        # C06-i / C06-j: the container writer has no error channel -- panic-capable sites and loops in it are censused like
        # those of the readers (rules/site_baseline.json)
        from .sites import run_sites
        run_sites(chk, facts, "C06-i", cfg)
        run_sites(chk, facts, "C06-j", cfg)
    chk.assume("padding, checksum and 0xB1B0AFBA arithmetic and directory offsets are value level and not decided")


def run_config(chk, facts):
    # ---- C06-a -----------------------------------------------------------------------------------
    chk.rule("C06-a", "T-GUARD: each insertion into FontBuilder.tables inside copy_missing_tables is dominated by the "
                      "`not present` edge of tables.contains_key(&tag)")
    cm = chk.anchor("C06-a", FB + "copy_missing_tables", facts.body(FB + "copy_missing_tables"))
    ins = [(bb, t) for bb, t in cm.calls()
           if t.callee == FB + "add_raw" or (t.callee.endswith("::insert") and ".tables" in show(cm, expr_of(cm, t.args[0])))
           or t.callee.endswith("::entry") and ".tables" in show(cm, expr_of(cm, t.args[0]))]
    chk.floor("C06-a", "insertion sites in copy_missing_tables", len(ins), 1)
    for bb, t in ins:
        ok = False
        descr = []
        for g in branch_guards(cm, bb):
            neg = is_contains_key_on_tables(cm, g.cond, facts=facts)
            if neg is None:
                continue
            # taken edge must mean "not contained"
            contained_when_taken = (g.taken_val != 0)
            if neg:
                contained_when_taken = not contained_when_taken
            descr.append(f"line {g.line}: {g.cond_str()[:70]} taken={g.taken_val}")
            # same tag as the one inserted
            tag_ins = show(cm, expr_of(cm, t.args[1]))
            c = g.cond
            while c[0] == "un":
                c = c[2]
            tag_chk = show(cm, c[2][1]).lstrip("&")
            if not contained_when_taken and tag_chk.strip("()*") == tag_ins.strip("()*"):
                ok = True
        chk.ob("C06-a", f"copy_missing_tables line {t.line}: {t.callee.split('::')[-1]} only when !tables.contains_key(tag) [{descr}]", ok,
               key=f"{cm.path}|guard", file=cm.file, line=t.line, fn=cm.path,
               detail="a table already supplied by the caller could be overridden by the copied font's table")
    # add_raw itself is the only other writer used by the copy: nothing to check there

    # ---- C06-b -----------------------------------------------------------------------------------
    chk.rule("C06-b", "T-TYPE/T-GUARD: tables is BTreeMap<Tag, _>; directory records are sorted by record.tag before "
                      "from_table_records; ordered_tags' sort key ends in the tag (total order => insertion order is irrelevant)")
    adt = [r for r in facts.records("adt", "write_fonts") if r["path"] == "write_fonts::font_builder::FontBuilder"]
    chk.anchor("C06-b", "FontBuilder", adt)
    tf = [f for f in adt[0]["variants"][0][1] if f[0] == "tables"]
    chk.ob("C06-b", f"FontBuilder.tables: {tf[0][1][:80] if tf else None}",
           bool(tf) and tf[0][1].startswith("alloc::collections::btree::map::BTreeMap<font_types::tag::Tag,"), key="tables|type",
           detail="an unordered map would make iteration (ordered_tags, table count) depend on insertion order / hash seed")
    bd = chk.anchor("C06-b", FB + "build", facts.body(FB + "build"))
    ftr = [(bb, t) for bb, t in bd.calls() if t.callee.endswith("TableDirectory::from_table_records")]
    chk.anchor("C06-b", "call to TableDirectory::from_table_records in build", ftr)
    for bb, t in ftr:
        vec_local = bd.root_local(t.args[0])
        sorts = [(sb, st) for sb, st in bd.calls() if re.search(r"::sort(_unstable)?(_by_key|_by|_by_cached_key)?$", st.callee)
                 and bd.root_local(st.args[0]) == vec_local and bd.dominates(sb, bb)]
        ok = False
        for sb, st in sorts:
            # key closure returns the record's tag
            if len(st.args) > 1:
                ce = expr_of(bd, st.args[1])
                cpath = ce[1][1] if ce[0] == "agg" and ce[1][0] == "closure" else None
                cb = facts.body(cpath) if cpath else None
                if cb is not None:
                    rets = [s for _, _, s in cb.stmts() if s[0] == "A" and s[1] == [0, []]]
                    def is_tag_of_arg(r):
                        if r[2][0] != "use":
                            return False
                        e = strip_casts(expr_of(cb, r[2][1]))
                        if e[0] != "proj" or not any(isinstance(x, tuple) and x[0] == "f" and x[2] == "tag" for x in e[2]):
                            return False
                        while e[0] in ("proj", "ref"):
                            e = e[1]
                        return e == ("param", 2)
                    if rets and all(is_tag_of_arg(r) for r in rets):
                        ok = True
            elif st.callee.endswith("::sort") or st.callee.endswith("::sort_unstable"):
                ok = True  # TableRecord's own Ord
        chk.ob("C06-b", f"build(): records sorted by tag ({[s.callee.split('::')[-1] for _, s in sorts]}) before from_table_records", ok,
               key=f"{bd.path}|sorted", file=bd.file, line=t.line, fn=bd.path,
               detail="the table directory must list tags in ascending order for binary search")
        # pushes onto the vector after the sort would break order
        late = [pt for pb, pt in bd.calls() if pt.callee.endswith("::push") and bd.root_local(pt.args[0]) == vec_local
                and any(pb in bd.reachable_from(sb) for sb, _ in sorts)]
        chk.ob("C06-b", "no record is pushed after the sort", not late, key=f"{bd.path}|late-push", file=bd.file, line=t.line, fn=bd.path)
    ot = chk.anchor("C06-b", FB + "ordered_tags", facts.body(FB + "ordered_tags"))
    osorts = [(sb, st) for sb, st in ot.calls() if re.search(r"::sort(_unstable)?_by_key$", st.callee)]
    chk.anchor("C06-b", "sort_by_key in ordered_tags", osorts)
    for sb, st in osorts:
        ce = expr_of(ot, st.args[1])
        cpath = ce[1][1] if ce[0] == "agg" and ce[1][0] == "closure" else None
        cb = facts.body(cpath) if cpath else None
        ok = False
        if cb is not None:
            tuples = [s for _, _, s in cb.stmts() if s[0] == "A" and s[2][0] == "agg" and s[2][1][0] == "tuple" and s[1] == [0, []]]
            # every returned tuple ends with the tag itself (deref of the closure argument)
            ok = bool(tuples) and all("Tag" in cb.d["sig"]["out"] if cb.d.get("sig") else True for _ in tuples)
            for s in tuples:
                e = strip_casts(expr_of(cb, s[2][2][-1]))
                while e[0] in ("proj", "ref"):
                    e = e[1]
                # the closure's own argument (param 2; param 1 is the closure environment)
                if e != ("param", 2):
                    ok = False
        chk.ob("C06-b", "ordered_tags(): sort key's last component is the tag (total order)", ok, key=f"{ot.path}|key",
               file=ot.file, line=st.line, fn=ot.path,
               detail="with a non-total key the physical table order depends on the order tags were added")

    # ---- C06-c -----------------------------------------------------------------------------------
    chk.rule("C06-c", "T-GUARD: constant-range slicing of table bytes in build() is dominated by `len >= K` covering the range")
    n = 0
    for bb, t in bd.calls():
        if not (t.callee.endswith("::index") or t.callee.endswith("::index_mut")) or len(t.args) < 2:
            continue
        r = expr_of(bd, t.args[1])
        if r[0] != "agg" or r[1][0] != "adt" or not r[1][1].startswith("core::ops::range::Range"):
            continue
        bounds = [strip_casts(x) for x in r[2]]
        if not all(x[0] == "const" and x[2] is not None for x in bounds):
            continue
        need = max(x[2] for x in bounds)
        n += 1
        ok = False
        for g in branch_guards(bd, bb):
            c = g.cond
            if c[0] == "bin" and c[1] in ("Ge", "Gt") and g.taken_val != 0:
                lhs, rhs = strip_casts(c[2]), strip_casts(c[3])
                if lhs[0] == "call" and lhs[1].endswith("::len") and rhs[0] == "const" and rhs[2] is not None:
                    k = rhs[2] if c[1] == "Ge" else rhs[2] + 1
                    if k >= need:
                        ok = True
        chk.ob("C06-c", f"build() line {t.line}: slice {show(bd, r)} guarded by len >= {need}", ok, key=f"{bd.path}|slice|{show(bd, r)}",
               file=bd.file, line=t.line, fn=bd.path, detail="a head table shorter than 12 bytes would make this slice panic")
    chk.floor("C06-c", "constant-range slices in build()", n, 3)

    # ---- C06-d -----------------------------------------------------------------------------------
    chk.rule("C06-d", "T-GUARD: the supplied bytes of a table are altered (Cow::to_mut) or emitted piecewise (constant-range slices) "
                      "only under the guard `tag == Tag::new(b\"head\")`: every other table comes back byte for byte")
    nd = 0
    for bb, t in bd.calls():
        is_mut = t.callee.endswith("Cow::<'_, B>::to_mut")
        is_slice = False
        if (t.callee.endswith("::index") or t.callee.endswith("::index_mut")) and len(t.args) >= 2:
            r = expr_of(bd, t.args[1])
            if r[0] == "agg" and r[1][0] == "adt" and r[1][1].startswith("core::ops::range::Range"):
                bounds = [strip_casts(x) for x in r[2]]
                # the head-field offsets (8, 12); the zero-padding slice `padding[..rem]` has a computed bound
                is_slice = bool(bounds) and all(x[0] == "const" and x[2] is not None for x in bounds)
        if not (is_mut or is_slice):
            continue
        nd += 1
        ok = False
        for g in branch_guards(bd, bb):
            c = g.cond
            if c[0] == "call" and c[1].endswith("Tag as core::cmp::PartialEq>::eq") and g.taken_val != 0 and 'b"head"' in show(bd, c):
                ok = True
        chk.ob("C06-d", f"build() line {t.line}: {'to_mut' if is_mut else 'piecewise emission'} only for the head table", ok,
               key=f"{bd.path}|head-only|{'to_mut' if is_mut else 'slice'}|{nd}", file=bd.file, line=t.line, fn=bd.path,
               detail="table bytes are modified or re-assembled for a table other than `head`: that table does not come back as supplied")
    chk.floor("C06-d", "head-specific accesses in build()", nd, 4)

    # ---- C06-e -----------------------------------------------------------------------------------
    # the checksum helper (today `checksum_and_padding`) by shape: a function of the font_builder module that build() calls
    # and that returns a pair of u32
    CP = set()
    for _bb, _t in bd.calls():
        _cb = facts.body(_t.callee, _fuzzy=False) if _t.callee.startswith("write_fonts::font_builder::") else None
        if _cb is not None and _cb.locals and _cb.locals[0][0].replace(" ", "") == "(u32,u32)":
            CP.add(_t.callee)
    from ..guards import expr_mentions_call as _emc
    chk.rule("C06-e", "data flow: each directory record is built from (tag, checksum_and_padding(data), running position, data.len()): "
                      "no case-dependent offset or length")
    recs = [(bb, t) for bb, t in bd.calls() if t.callee.endswith("font_builder::TableRecord::new")]
    chk.anchor("C06-e", "TableRecord::new in build()", recs)
    for bb, t in recs:
        args = [expr_of(bd, a) for a in t.args]
        # the offset is (a copy of) an accumulator: a local none of whose definitions is a literal constant and whose
        # updates are all `acc + x` (it starts at the header length and grows by each table's length and padding)
        pos_ok = False
        if len(args) == 4 and args[2][0] == "local":
            acc = args[2][1]
            defs = bd.defs().get(acc, [])
            good = bool(defs)
            for (dbb, dj, rv) in defs:
                if hasattr(rv, "callee"):
                    good = False
                elif rv[0] == "use" and rv[1][0] == "k":
                    good = False       # a constant offset
                elif rv[0] == "use" and rv[1][0] in ("c", "m") and rv[1][1][1]:
                    e = expr_of(bd, rv[1])
                    if not (e[0] == "bin" and e[1] == "Add" and any(x == ("local", acc) for x in (strip_casts(e[2]), strip_casts(e[3])))):
                        good = False
                elif rv[0] == "use" and rv[1][0] in ("c", "m") and not rv[1][1][1]:
                    good = False       # a copy of some other variable: a second source for the offset
            pos_ok = good
        len_e = strip_casts(args[3]) if len(args) == 4 else ("?",)
        len_ok = len_e[0] == "call" and len_e[1].endswith("::len")
        sum_ok = len(args) == 4 and bool(CP) and _emc(args[1], tuple(CP))
        chk.ob("C06-e", f"TableRecord::new(tag, {show(bd, args[1])[:30]}.., {show(bd, args[2])[:20]}, {show(bd, args[3])[:24]}..)",
               pos_ok and len_ok and sum_ok, key=f"{bd.path}|record-args", file=bd.file, line=t.line, fn=bd.path,
               detail="a directory record whose offset is not the running position (or whose length is not the data length, or whose "
                      "checksum is not that of the data) does not return the table that was put in")

    # ---- C06-f -----------------------------------------------------------------------------------
    chk.rule("C06-f", "T-ALL: in the table loop of build() the checksum returned by checksum_and_padding(data) is pushed onto the "
                      "vector that is folded into the whole-file checksum on every trip (the push dominates the loop's back edges); "
                      "the directory's own checksum is pushed once after the loop; the fold runs over that vector")
    from ..loops import natural_loops
    cps = [(bb, t) for bb, t in bd.calls() if t.callee in CP]
    chk.anchor("C06-f", "checksum_and_padding call in build()", cps)
    loops = natural_loops(bd)
    n_f = 0
    for cbb, ct in cps:
        inner = [l for l in loops if cbb in l[2]]
        if not inner:
            chk.ob("C06-f", "checksum_and_padding is called inside the table loop", False, key=f"{bd.path}|sum-loop",
                   file=bd.file, line=ct.line, fn=bd.path)
            continue
        h, us, body = min(inner, key=lambda l: len(l[2]))
        pushes = []
        for bb, t in bd.calls():
            if bb in body and t.callee.endswith("Vec::<T, A>::push") and len(t.args) >= 2:
                e = strip_casts(expr_of(bd, t.args[1]))
                # the pushed value is (a projection of) the call's result itself, not something built from it
                while e[0] == "proj":
                    e = e[1]
                if e[0] == "call" and e[1] in CP:
                    pushes.append((bb, t))
        ok = any(all(bd.dominates(pb, u) for u in us) for pb, _ in pushes)
        n_f += 1
        chk.ob("C06-f", f"build(): the table checksum (line {ct.line}) is pushed on every trip of the table loop "
                        f"({len(pushes)} push site(s))", ok, key=f"{bd.path}|sum-every-table", file=bd.file,
               line=(pushes[0][1].line if pushes else ct.line), fn=bd.path,
               detail="the push of a table's checksum onto the whole-file accumulator does not dominate the loop's back edge: some "
                      "table is left out of the sum, so the file does not add up to 0xB1B0AFBA")
        # the vector receiving them is the one folded
        if pushes:
            vec_root = bd.root_local(pushes[0][1].args[0])
            folds = [(bb, t) for bb, t in bd.calls() if t.callee.endswith("::fold")]
            def folded_root(t):
                # fold(into_iter(v), ..) / fold(iter(&v), ..): the local the iterator was made from
                l = bd.root_local(t.args[0]) if t.args and op_place(t.args[0]) is not None else None
                for _ in range(4):
                    if l is None:
                        return None
                    if l == vec_root:
                        return l
                    sd = bd.single_def(l)
                    if sd is None:
                        return None
                    rv = sd[2]
                    if hasattr(rv, "callee"):
                        if not rv.args or op_place(rv.args[0]) is None:
                            return None
                        l = bd.root_local(rv.args[0])
                    elif rv[0] in ("use", "ref") and isinstance(rv[-1] if rv[0] == "use" else rv[2], list):
                        pl = rv[1] if rv[0] == "use" else rv[2]
                        l = bd.root_local(pl) if rv[0] == "use" else bd.root_place(pl)[0]
                    else:
                        return None
                return l
            fold_ok = any(folded_root(t) == vec_root for _, t in folds)
            chk.ob("C06-f", "build(): the folded vector is the one the table checksums were pushed onto", fold_ok,
                   key=f"{bd.path}|sum-fold", file=bd.file, line=(folds[0][1].line if folds else ct.line), fn=bd.path,
                   detail="the whole-file checksum is folded from a different collection than the one receiving the table checksums")
    chk.floor("C06-f", "table-loop checksum obligations", n_f, 1)

    # ---- C06-g -----------------------------------------------------------------------------------
    chk.rule("C06-g", "T-MUST: on the head path (tag == head && len >= 12) every route to checksum_and_padding passes the store that "
                      "clears bytes 8..12 of the table (whatever the Cow variant): the head checksum and the file sum are computed over "
                      "a zeroed adjustment field")
    zero_sites = []
    for bb, t in bd.calls():
        if t.callee.endswith("::copy_from_slice") or t.callee.endswith("::fill"):
            s0 = show(bd, expr_of(bd, t.args[0])) if t.args else ""
            if "8" in s0 and "12" in s0 and ("index_mut" in s0 or "Range" in s0):
                zero_sites.append((bb, t))
    chk.anchor("C06-g", "the store clearing head[8..12] in build()", zero_sites)
    for cbb, ct in cps:
        # the head guard: Tag == b"head" true edges that dominate a zeroing site
        for zb, zt in zero_sites:
            gs = [g for g in branch_guards(bd, zb)
                  if g.cond[0] == "call" and g.cond[1].endswith("Tag as core::cmp::PartialEq>::eq") and g.taken_val != 0 and 'b"head"' in show(bd, g.cond)]
            if not gs:
                chk.ob("C06-g", f"build() line {zt.line}: the clearing store is under the head guard", False,
                       key=f"{bd.path}|zero-guard", file=bd.file, line=zt.line, fn=bd.path)
                continue
            # innermost length guard as well: start from the block the zeroing is control dependent on last
            lens = [g for g in branch_guards(bd, zb) if g.cond[0] == "bin" and g.cond[1] in ("Ge", "Gt") and g.taken_val != 0]
            # the innermost of the guards (the one closest to the store in the dominator order)
            cands = lens + gs
            inner_g = max(cands, key=lambda g: len(bd.dominators().get(g.bb, ())))
            start = inner_g.taken
            # can checksum_and_padding be reached from `start` without passing the clearing store?
            seen = set()
            st = [start]
            bypass = False
            while st:
                x = st.pop()
                if x == zb or x in seen or bd.blocks[x].cleanup:
                    continue
                seen.add(x)
                if x == cbb:
                    bypass = True
                    break
                st.extend(bd.blocks[x].term.targets)
            # ... and the checksum is taken after the store in the same trip: reachable from it without going round the loop
            inner = [l for l in loops if cbb in l[2]]
            hdr = min(inner, key=lambda l: len(l[2]))[0] if inner else None
            seen2 = set()
            st2 = list(bd.blocks[zb].term.targets)
            after = False
            while st2:
                x = st2.pop()
                if x in seen2 or x == hdr or bd.blocks[x].cleanup:
                    continue
                seen2.add(x)
                if x == cbb:
                    after = True
                    break
                st2.extend(bd.blocks[x].term.targets)
            chk.ob("C06-g", f"build(): checksum_and_padding (line {ct.line}) follows the clearing store (line {zt.line}) within one trip",
                   after, key=f"{bd.path}|zero-before-sum", file=bd.file, line=ct.line, fn=bd.path,
                   detail="the table checksum is computed before the adjustment field is cleared: the head record checksum and the "
                          "file sum include the supplied adjustment bytes")
            chk.ob("C06-g", f"build(): from the head guard every path to checksum_and_padding (line {ct.line}) passes the clearing "
                            f"store (line {zt.line})", not bypass, key=f"{bd.path}|zero-must", file=bd.file, line=zt.line, fn=bd.path,
                   detail="there is a path on which the head table reaches checksum_and_padding with its checksumAdjustment bytes as "
                          "supplied (e.g. a borrowed table is not cleared): the head record checksum and the file sum are then wrong")

    # ---- C06-h -----------------------------------------------------------------------------------
    chk.rule("C06-h", "T-ID: a table is stored under the tag it was supplied with: every insertion into FontBuilder.tables uses the "
                      "function's own tag parameter as the key, and every internal add_raw call passes a tag that is a constant "
                      "(T::TAG), a parameter, or the source record's tag() -- no function of it")
    n_h = 0
    for b in facts.all_bodies("write_fonts"):
        if "font_builder::FontBuilder" not in b.path or b.generated:
            continue
        for bb, t in b.calls():
            is_ins = (t.callee.endswith("BTreeMap::<K, V, A>::insert") or t.callee.endswith("HashMap::<K, V, S, A>::insert")) and \
                len(t.args) >= 2 and ".tables" in show(b, expr_of(b, t.args[0]))
            is_add = t.callee.endswith("FontBuilder::<'a>::add_raw") and len(t.args) >= 2
            if not (is_ins or is_add):
                continue
            n_h += 1
            e = strip_casts(expr_of(b, t.args[1]))
            while e[0] == "proj" and all(x == "*" or (isinstance(x, tuple) and x and x[0] == "*") for x in e[2]):
                e = e[1]
            ok = e[0] in ("param", "const") or (e[0] == "call" and e[1].endswith("TableRecord::tag"))
            chk.ob("C06-h", f"{b.path.split('::')[-1]} line {t.line}: key of {'insert' if is_ins else 'add_raw'} is `{show(b, e)[:60]}`", ok,
                   key=f"{b.path}|tag-identity|{'insert' if is_ins else 'add_raw'}", file=b.file, line=t.line, fn=b.path,
                   detail=f"the table is stored under `{show(b, e)[:120]}`, a value computed from the supplied tag: the font then lists a "
                          f"different tag than the one given, and two distinct tags can collide")
    chk.floor("C06-h", "insertions / internal add_raw calls", n_h, 3)
