"""C18 — IFT patches apply atomically (structural clauses).

  C18-a  compatibility gate: both apply entry points compare font id vs expected id and patch id vs font id,
         failing edges construct IncompatiblePatch, before the (only) calls into the table-/glyph-keyed appliers;
         decoding happens only inside those appliers (T-GUARD, T-WHO)
  C18-b  bookkeeping changes only on success: in apply_next_patches_with_decoder no exit that is not Ok is
         reachable after a store to a UriStatus / a mutating call on the status map; every store writes Applied
  C18-c  decoder results are propagated (`?` / returned), never unwrapped, matched away or dropped (T-ERR)
"""
from ..facts import Facts
from ..mir import op_place
from ..guards import (branch_guards, bail_error_variants, calls_in_expr, result_fate)
from ..typestate import Explorer, Violation, ret_class, trace_lines
from ..sym import expr_of, show

IFT = "incremental_font_transfer"
FTK = "<read_fonts::FontRef<'_> as incremental_font_transfer::font_patch::IncrementalFontPatchBase>::apply_table_keyed_patch"
FGK = "<read_fonts::FontRef<'_> as incremental_font_transfer::font_patch::IncrementalFontPatchBase>::apply_glyph_keyed_patches"
TK_APPLY = "incremental_font_transfer::table_keyed::apply_table_keyed_patch"
TK_TABLE = "incremental_font_transfer::table_keyed::apply_table_patch"
GK_APPLY = "incremental_font_transfer::glyph_keyed::apply_glyph_keyed_patches"
DECODE = "shared_brotli_patch_decoder::SharedBrotliDecoder::decode"
APPLY_NEXT = "incremental_font_transfer::patch_group::PatchGroup::<'_>::apply_next_patches_with_decoder"
READONLY_MAP = ("::get", "::get_mut", "::contains_key", "::len", "::is_empty", "::iter", "::keys", "::values")


def compat_guards(body, site_bb):
    """guards dominating site that compare CompatibilityId values and bail with IncompatiblePatch"""
    out = []
    for g in branch_guards(body, site_bb):
        c = g.cond
        if c[0] != "call":
            continue
        callee = c[1]
        if not (callee.endswith("::ne") or callee.endswith("::eq")) or "PartialEq" not in callee:
            continue
        atys = c[4] if len(c) > 4 else []
        if not any("CompatibilityId" in a for a in atys):
            continue
        # polarity: bail when the ids differ
        is_ne = callee.endswith("::ne")
        bail_vals = [v for v, _ in g.bails]
        differ_bails = (is_ne and g.taken_val == 0) or ((not is_ne) and g.taken_val != 0)
        variants = bail_error_variants(body, g)
        incompatible = any(v == "IncompatiblePatch" for _, v in variants)
        out.append((g, differ_bails, incompatible, calls_in_expr(c)))
    return out


def gate_check(chk, body, site_bb, site_desc):
    gs = compat_guards(body, site_bb)
    good = [x for x in gs if x[1] and x[2]]
    has_expected = any(any(c.endswith("::expected_compat_id") for c in x[3]) for x in good)
    has_patch = any(any(c.endswith("::compatibility_id") for c in x[3]) for x in good)
    ok = len(good) >= 2 and has_expected and has_patch
    detail = "; ".join(f"line {g.line}: {g.cond_str()[:90]} differ->bail={d} IncompatiblePatch={i}" for g, d, i, _ in gs) or "no id comparison dominates the site"
    chk.ob("C18-a", f"{site_desc}: dominated by font-id==expected-id and patch-id==font-id comparisons, failing edges -> IncompatiblePatch",
           ok, key=f"{body.path}|gate|{site_desc}", file=body.file, line=body.blocks[site_bb].term.line, fn=body.path,
           detail=f"expected two dominating CompatibilityId comparisons (one against expected_compat_id(), one against the "
                  f"patch's compatibility_id()) whose mismatch edge returns IncompatiblePatch; found: {detail}")
    chk.sample({"site": site_desc, "guards": [f"line {g.line}: {g.cond_str()[:100]}" for g, _, _, _ in good]})


def run(chk):
    configs = ["union"] if chk.tier == "quick" else ["union", "ift_rust_brotli"]
    for cfg in configs:
        chk.configs.append(cfg)
        run_config(chk, Facts(cfg))
    chk.assume("the SharedBrotliDecoder implementation is a black box that returns Ok or Err; FFI in c_brotli.rs is trusted")


def _resolve_appliers(facts):
    """The crate-private appliers are found from the public entry points, not by name: the table-keyed applier is the one
    function of the table_keyed module that FontRef::apply_table_keyed_patch calls, the glyph-keyed applier likewise, and the
    per-table routine is the table_keyed function the applier calls that itself calls the decoder."""
    global TK_APPLY, TK_TABLE, GK_APPLY
    ftk, fgk = facts.body(FTK), facts.body(FGK)
    if ftk is None or fgk is None:
        return
    tk = sorted({t.callee for _, t in ftk.calls() if t.callee.startswith(IFT + "::table_keyed::")})
    gk = sorted({t.callee for _, t in fgk.calls() if t.callee.startswith(IFT + "::glyph_keyed::")})
    if len(tk) == 1:
        TK_APPLY = tk[0]
    if len(gk) == 1:
        GK_APPLY = gk[0]
    ab = facts.body(TK_APPLY, _fuzzy=False)
    if ab is not None:
        inner = sorted({t.callee for _, t in ab.calls() if t.callee.startswith(IFT + "::table_keyed::") and t.callee != TK_APPLY
                        and facts.body(t.callee, _fuzzy=False) is not None
                        and any(t2.callee == DECODE for _, t2 in facts.body(t.callee, _fuzzy=False).calls())})
        if len(inner) == 1:
            TK_TABLE = inner[0]


def run_config(chk, facts):
    _resolve_appliers(facts)
    chk.rule("C18-a", "T-GUARD/T-WHO: compatibility-id comparisons dominate every entry into the appliers; the appliers "
                      "and the decoder have no other callers")
    ftk = chk.anchor("C18-a", FTK, facts.body(FTK))
    fgk = chk.anchor("C18-a", FGK, facts.body(FGK))
    sites = [(bb, t) for bb, t in ftk.calls() if t.callee == TK_APPLY]
    chk.anchor("C18-a", f"call to {TK_APPLY} in FontRef::apply_table_keyed_patch", sites)
    for bb, t in sites:
        gate_check(chk, ftk, bb, "call table_keyed::apply_table_keyed_patch")
    # glyph keyed: every push onto raw_patches is gated, and the applier receives exactly that vector
    gsites = [(bb, t) for bb, t in fgk.calls() if t.callee == GK_APPLY]
    chk.anchor("C18-a", f"call to {GK_APPLY} in FontRef::apply_glyph_keyed_patches", gsites)
    for bb, t in gsites:
        vec_local = fgk.root_local(t.args[0])
        pushes = [(pb, pt) for pb, pt in fgk.calls()
                  if (pt.callee.endswith("::push") or pt.callee.endswith("::insert") or pt.callee.endswith("::extend")
                      or pt.callee.endswith("::push_within_capacity") or pt.callee.endswith("::append"))
                  and pt.args and fgk.root_local(pt.args[0]) == vec_local]
        chk.ob("C18-a", f"glyph-keyed applier receives local `{fgk.local_name(vec_local)}` filled by {len(pushes)} push site(s)",
               len(pushes) >= 1, key=f"{fgk.path}|vec", file=fgk.file, line=t.line, fn=fgk.path)
        for pb, pt in pushes:
            gate_check(chk, fgk, pb, f"push onto `{fgk.local_name(vec_local)}` ({pt.callee.split('::')[-1]})")
        # other writers of the vector (any &mut use that is not one of the pushes) are findings
        for cb, ct in fgk.calls():
            if (cb, ct) in pushes or ct is t:
                continue
            for i, a in enumerate(ct.args):
                if op_place(a) is not None and fgk.root_local(a) == vec_local and ct.d["atys"][i].startswith("&mut"):
                    chk.ob("C18-a", f"unexpected mutable use of `{fgk.local_name(vec_local)}` by {ct.callee}", False,
                           key=f"{fgk.path}|vecmut|{ct.callee}", file=fgk.file, line=ct.line, fn=fgk.path)
    # T-WHO
    callers = {TK_APPLY: set(), GK_APPLY: set(), TK_TABLE: set(), DECODE: set()}
    nbodies = 0
    for b in facts.all_bodies(IFT):
        nbodies += 1
        for bb, t in b.calls():
            if t.callee in callers:
                callers[t.callee].add(b.path)
            # function pointers / closures naming the appliers
        for _, _, st in b.stmts():
            pass
    expected = {TK_APPLY: {FTK}, GK_APPLY: {FGK}, TK_TABLE: {TK_APPLY}, DECODE: {TK_TABLE, GK_APPLY}}
    for callee, exp in expected.items():
        got = callers[callee]
        chk.ob("C18-a", f"callers of {callee.split('::', 1)[1]} = {sorted(x.split('::')[-1] for x in got)}",
               got == exp and bool(got), key=f"who|{callee}|{sorted(got - exp)}",
               detail=f"expected exactly {sorted(exp)}, found {sorted(got)}")
    chk.stats["ift_bodies_scanned"] = nbodies
    chk.floor("C18-a", "IFT bodies scanned for callers", nbodies, 250)

    # ---- C18-b -------------------------------------------------------------------------------
    chk.rule("C18-b", "T-AFTER: in apply_next_patches_with_decoder no exit other than Ok is reachable after the first "
                      "store to a UriStatus (or mutating call on the status map); each store writes UriStatus::Applied")
    an = chk.anchor("C18-b", APPLY_NEXT, facts.body(APPLY_NEXT))
    map_params = [i for i in range(1, an.argc + 1) if "HashMap<alloc::string::String, incremental_font_transfer::patch_group::UriStatus" in an.local_ty(i)]
    chk.anchor("C18-b", "status-map parameter (&mut HashMap<String, UriStatus>)", map_params)
    findings = []
    nstores = [0]
    store_sites = set()

    def is_status_store(st):
        if st[0] != "A" or not st[1][1] or st[1][1][0] != "*":
            return False
        return "UriStatus" in an.local_ty(st[1][0]) and an.local_ty(st[1][0]).startswith("&mut")

    def on_stmt(bb, j, st, state, env, trace):
        if is_status_store(st):
            store_sites.add((bb, j))
            from ..sym import rvalue_expr
            e = rvalue_expr(an, st[2], 0)
            applied = e[0] == "agg" and e[1][0] == "adt" and e[1][1].endswith("::UriStatus") and e[1][3] == "Applied"
            if not applied:
                findings.append((f"store to a UriStatus at line {st[3][0]} writes something other than UriStatus::Applied", bb, trace))
            return True
        return None

    def on_call(bb, t, state, env, trace):
        for i, a in enumerate(t.args):
            if op_place(a) is None:
                continue
            aty = t.d["atys"][i]
            if an.root_local(a) in map_params and aty.startswith("&mut"):
                if not any(t.callee.endswith(s) for s in READONLY_MAP):
                    store_sites.add((bb, "call"))
                    return [(True, None)]
            # a `&mut UriStatus` handed to any function (`mem::replace`, `mem::take`, `mem::swap`, a helper) is a write
            if aty.replace(" ", "").startswith("&mutincremental_font_transfer::patch_group::UriStatus"):
                store_sites.add((bb, "call"))
                return [(True, None)]
        return None

    def on_exit(bb, state, rv, env, trace):
        cls = ret_class(an, rv)
        if state and cls != "ok":
            findings.append((f"an exit classified `{cls}` is reachable after patch statuses were changed", bb, trace))

    ex = Explorer(an, on_call=on_call, on_stmt=on_stmt, on_exit=on_exit)
    ex.run(False)
    chk.floor("C18-b", "UriStatus store sites", len(store_sites), 2)
    seen = set()
    for msg, bb, trace in findings:
        if msg in seen:
            continue
        seen.add(msg)
        chk.ob("C18-b", msg, False, key=f"{an.path}|{msg.split(' at line')[0]}", file=an.file,
               line=an.blocks[bb].term.line or an.lo, fn=an.path,
               detail=f"{msg}; path through lines {trace_lines(an, trace)[-20:]}")
    if not findings:
        chk.ob("C18-b", f"{len(ex.visited)} (block,state,facts) triples, {len(ex.exits)} exits: "
                        f"{sum(1 for _, s, rv in ex.exits if s)} exits after a status change, all Ok", True)
    chk.sample({"fn": "apply_next_patches_with_decoder", "exits": [(bb, s, ret_class(an, rv)) for bb, s, rv in ex.exits]})

    # ---- C18-c -------------------------------------------------------------------------------
    chk.rule("C18-c", "T-ERR: the Result of every decode / applier call is propagated with `?` or returned")
    n = 0
    for b in facts.all_bodies(IFT):
        for bb, t in b.calls():
            if t.callee in (DECODE, TK_TABLE, TK_APPLY, GK_APPLY, FTK, FGK):
                fate = result_fate(b, bb)
                n += 1
                ok = bool(fate) and fate <= {"propagated", "returned"}
                chk.ob("C18-c", f"{b.path.split('::')[-1]} line {t.line}: {t.callee.split('::')[-1]} -> {sorted(fate)}", ok,
                       key=f"{b.path}|fate|{t.callee}|{sorted(fate)}", file=b.file, line=t.line, fn=b.path,
                       detail=f"result of {t.callee} is {sorted(fate)}; expected only propagated/returned")
    chk.floor("C18-c", "decode/applier call sites", n, 9)
    # ---- C18-d -------------------------------------------------------------------------------
    chk.rule("C18-d", "T-GUARD: a decode call that passes a shared dictionary (the existing table) is dominated by the "
                      "`replacement == false` edge; a REPLACE_TABLE entry is decoded without a dictionary")
    tp = chk.anchor("C18-d", TK_TABLE, facts.body(TK_TABLE))
    rep = [i for i in range(1, tp.argc + 1) if tp.local_name(i) == "replacement" and tp.local_ty(i) == "bool"]
    if not rep:
        bools = [i for i in range(1, tp.argc + 1) if tp.local_ty(i) == "bool"]
        rep = bools if len(bools) == 1 else []       # renamed: the only bool parameter
    chk.anchor("C18-d", "bool parameter `replacement` of apply_table_patch", rep)
    nd = 0
    for bb, t in tp.calls():
        if t.callee != DECODE:
            continue
        nd += 1
        e = expr_of(tp, t.args[2])
        is_none = e[0] == "agg" and e[1][0] == "adt" and e[1][1] == "core::option::Option" and e[1][3] == "None"
        if is_none:
            chk.ob("C18-d", f"decode at line {t.line}: dictionary = None", True)
            continue
        guarded = any(g.cond == ("param", rep[0]) and g.taken_val == 0 for g in branch_guards(tp, bb))
        chk.ob("C18-d", f"decode at line {t.line}: dictionary = {show(tp, e)[:60]} only when !replacement", guarded,
               key=f"{tp.path}|dict-guard", file=tp.file, line=t.line, fn=tp.path,
               detail="a decode call receives the existing table as shared dictionary on a path where `replacement` may be "
                      "true: a REPLACE_TABLE patch would be decoded as a diff against the old table")
    chk.floor("C18-d", "decode calls in apply_table_patch", nd, 1)

    # ---- C18-e -------------------------------------------------------------------------------
    chk.rule("C18-e", "T-GUARD: in the glyph-keyed applier a tag is recorded in the processed-table set only after, on the same "
                      "path, a call that received the new font's builder by `&mut` (the rebuilt table was added): every table "
                      "that is not rebuilt is later copied unchanged by copy_unprocessed_tables")
    gk = chk.anchor("C18-e", "glyph_keyed::apply_glyph_keyed_patches", facts.body(GK_APPLY))
    builders = [bb for bb, t in gk.calls()
                if any(aty.replace(" ", "").startswith("&mutwrite_fonts::font_builder::FontBuilder") for aty in (t.d.get("atys") or []))
                and not t.callee.endswith("copy_unprocessed_tables")]
    inserts = [(bb, t) for bb, t in gk.calls()
               if t.callee.endswith("BTreeSet::<T, A>::insert") and "font_types::tag::Tag" in (t.d.get("cargs") or "")]
    for bb, t in inserts:
        doms = [pb for pb in builders if pb != bb and gk.dominates(pb, bb)]
        # the dominating builder call must be in the same loop iteration: no way from it back to itself that reaches the insert
        # first is automatically excluded by dominance of a block inside the loop body
        ok = bool(doms)
        chk.ob("C18-e", f"processed_tables.insert at line {t.line} follows a table rebuild on every path", ok,
               key=f"{gk.path}|processed-insert", file=gk.file, line=t.line, fn=gk.path,
               detail="a table is marked as processed on a path where nothing was written for it: copy_unprocessed_tables then "
                      "skips it and the table silently disappears from the patched font")
    chk.floor("C18-e", "processed_tables.insert sites", len(inserts), 1)

    # ---- C18-f -------------------------------------------------------------------------------
    chk.rule("C18-f", "T-MUST: a brotli backend returns Ok only after the decoder examined the stream: every exit of "
                      "shared_brotli_decode_* that is not classified Err is dominated by the call into the decoder "
                      "(BrotliDecoderDecompressStream / BrotliDecompressCustomDict)")
    DEC = ("BrotliDecoderDecompressStream", "BrotliDecompressCustomDict")
    backs = [b for c in facts.crates if c == "shared_brotli_patch_decoder" for b in facts.all_bodies(c)
             if b.path.split("::")[-1].startswith("shared_brotli_decode")]
    chk.anchor("C18-f", "brotli backend(s) shared_brotli_decode_*", backs)
    for b in backs:
        dec = [bb for bb, t in b.calls() if t.callee.split("::")[-1].split("<")[0] in DEC]
        chk.ob("C18-f", f"{b.path.split('::')[-1]} calls the decoder ({len(dec)} site(s))", bool(dec), key=f"{b.path}|decoder-call",
               file=b.file, line=b.lo, fn=b.path)
        bad = []
        n_ok = [0]

        def on_call(bb, t, state, env, trace, _dec=set(dec)):
            if bb in _dec:
                return [(("decoded",), None)]
            return None

        def on_exit(bb, state, rv, env, trace, _b=b):
            cls = ret_class(_b, rv)
            if cls == "err":
                return
            n_ok[0] += 1
            if state != ("decoded",):
                bad.append((cls, trace_lines(_b, trace)))
        ex = Explorer(b, on_call=on_call, on_exit=on_exit)
        ex.run(())
        chk.ob("C18-f", f"{b.path.split('::')[-1]}: {n_ok[0]} non-error exit path(s), all after the decoder call", not bad,
               key=f"{b.path}|ok-without-decoding", file=b.file, line=b.lo, fn=b.path,
               detail="a path returns a decoded result without the stream having been handed to the decoder (path through lines "
                      f"{bad[0][1][-12:] if bad else []}): an invalid, truncated or over-long stream is then accepted and the patch "
                      "marked as applied")
        n_ok = n_ok[0]
        chk.floor("C18-f", f"non-error exits of {b.path.split('::')[-1]}", n_ok, 1)

    # From<DecodeError>: arm count recorded (exhaustiveness is compiler checked)
    fd = facts.find_bodies(r"PatchingError as core::convert::From<shared_brotli_patch_decoder::decode_error::DecodeError>>::from$", IFT)
    if fd:
        arms = max((len(b.term.d[2]) for b in fd[0].blocks if b.term.kind == "switch"), default=0)
        chk.sample({"From<DecodeError> switch arms": arms})
