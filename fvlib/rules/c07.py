"""C07 — compilation is deterministic across threads, runs and unrelated prior work.

Argument: safe Rust whose result does not observe (1) state surviving a call, (2) hash-ordered iteration,
(3) time / environment / randomness / addresses is a function of its inputs.  Scope: write-fonts, klippa and
what they call in read-fonts / font-types / skrifa.

  C07-a  global-state census: interior-mutable statics in scope == {graph::OBJECT_COUNTER}; no static mut / thread_local
  C07-b  object ids are opaque and monotone: ObjectId's field is read only in derived impls, written only in
         ObjectId::next (fetch_add on the counter), never cast/transmuted; counter and id are 64 bit
  C07-c  every iteration over a RandomState-hashed container, or over any hashed container keyed by ObjectId, ends in
         an order-insensitive consumer (auto-classified) or has a confirmed line
  C07-d  no forbidden observation: time, env, random, thread id, pointer-to-integer casts
"""
import re

from ..facts import Facts
from ..itersink import classify
from ..mir import op_place
from ..sym import expr_of, show

SCOPE = ("write_fonts", "klippa")
SUPPORT = ("read_fonts", "font_types", "skrifa")
IT = re.compile(r"::(iter|iter_mut|keys|values|values_mut|into_iter|into_keys|into_values|drain|retain|difference|union|"
                r"intersection|symmetric_difference|extract_if)$")
OID = "write_fonts::graph::ObjectId"

# Confirmed iteration sites: (function path suffix, method, ordinal among same-method hash iterations in that function)
CONFIRMED = {
    ("write_fonts::graph::Graph::remove_orphans", "difference", 0):
        "loop body is `self.nodes.remove(id)`: removals of distinct keys commute",
    ("write_fonts::graph::Graph::isolate_subgraph_hb", "into_iter", 0):
        "renames old->new root ids in the `roots` set; ids are fresh and distinct, so the renames commute",
    ("write_fonts::graph::Graph::sort_shortest_distance", "into_iter", 0):
        "assert-only loop over removed_edges (panics on a cycle, writes nothing)",
    ("write_fonts::graph::Graph::sort_kahn", "into_iter", 0):
        "assert-only loop over removed_edges (panics on a cycle, writes nothing)",
    ("write_fonts::graph::Graph::get_promotable_subtables", "iter", 0):
        "`parents.iter().next()` on a set that the preceding branch proved to have exactly one element",
    ("write_fonts::graph::Graph::debug_overflows", "into_iter", 0):
        "log::debug! output only, not font bytes",
    ("write_fonts::graph::splitting::pairpos::ClassDefSizeEstimator::new", "iter", 0):
        "fills a HashMap keyed by class (insertions of distinct keys commute)",
    ("write_fonts::graph::splitting::mark2base::split_off_mark_pos::{closure#0}", "iter", 0):
        "closure returns class marks' iterator which the caller collects into a HashSet (set algebra)",
    ("<write_fonts::tables::gpos::builders::SinglePosBuilder as write_fonts::tables::layout::builders::Builder>::build", "into_iter", 0):
        "subtables pushed in hash order are sorted afterwards by (Reverse(len), first glyph); glyph sets are disjoint so the key is total",
    ("<write_fonts::tables::gpos::builders::SinglePosBuilder as write_fonts::tables::layout::builders::Builder>::build", "into_values", 0):
        "same vector as above: sorted by (Reverse(len), first glyph) before it is built into lookups",
    ("write_fonts::tables::gpos::builders::MarkList::insert", "iter", 0):
        "find_map on a class id that is unique in the map (ids are assigned sequentially); result only names the class in an error",
}
# collect() targets whose FromIterator normalises order (checked structurally below)
NORMALISING_TARGETS = {
    "write_fonts::tables::layout::CoverageTable": "CoverageTableBuilder::from_glyphs sorts and dedups",
    "write_fonts::tables::layout::ClassDef": "ClassDefBuilderImpl collects into a BTreeMap",
}


def run(chk):
    configs = ["union"] if chk.tier == "quick" else ["union", "allfeat"]
    for cfg in configs:
        chk.configs.append(cfg)
        run_config(chk, Facts(cfg), cfg)
    chk.assume("dependencies (indexmap, kurbo, log, bytemuck, std) are deterministic")
    chk.assume("sort keys named in 'sorted-vec' discharges are total on the collected elements (printed per site)")


def random_hash_iterations(facts, crates):
    """every iteration over a RandomState-hashed std HashMap / HashSet in `crates`:
    -> [(body, bb, term, method, [(kind, detail)], order_sensitive?)]"""
    out = []
    for c in crates:
        if c not in facts.crates:
            continue
        for b in facts.all_bodies(c):
            for bb, t in b.calls():
                callee = t.callee
                if not (("hash::map::HashMap" in callee or "hash::set::HashSet" in callee) and IT.search(callee)):
                    continue
                if "std::hash::random::RandomState" not in t.d["cargs"]:
                    continue
                norm = []
                for kind, detail, ub in classify(b, bb):
                    if kind == "sensitive" and detail.startswith("collect into "):
                        tgt = detail[len("collect into "):]
                        if tgt in NORMALISING_TARGETS:
                            kind, detail = "insensitive", f"collect into {tgt.split('::')[-1]} ({NORMALISING_TARGETS[tgt]})"
                    norm.append((kind, detail))
                bad = [(k, d) for k, d in norm if k not in ("insensitive", "sorted-vec")]
                out.append((b, bb, t, IT.search(callee).group(1), norm, bool(bad)))
    return out


def run_config(chk, facts, cfg):
    crates = [c for c in SCOPE + SUPPORT if c in facts.crates]
    # ---- C07-a ------------------------------------------------------------------------------------
    chk.rule("C07-a", "T-PURE: interior-mutable / mutable statics and thread-locals in scope are exactly the confirmed set")
    allowed = {"write_fonts::graph::OBJECT_COUNTER"}
    nstat = 0
    for c in crates:
        for r in facts.records("static", c):
            nstat += 1
            bad = r["mutable"] or not r["freeze"] or (r["mac"] or "").startswith("thread_local")
            if bad:
                chk.ob("C07-a", f"static {r['path']}: {r['ty']} (interior mutable)", r["path"] in allowed,
                       key=f"static|{r['path']}", file=r["file"], line=r["line"],
                       detail="a new process-wide mutable static can carry state from one compilation to the next")
            else:
                chk.ob("C07-a", f"static {r['path']} is immutable data", True)
    chk.floor("C07-a", "statics enumerated", nstat, 5)
    oc = [r for r in facts.records("static", "write_fonts") if r["path"] == "write_fonts::graph::OBJECT_COUNTER"]
    chk.anchor("C07-a", "write_fonts::graph::OBJECT_COUNTER", oc)
    chk.ob("C07-b" if False else "C07-a", f"OBJECT_COUNTER type is {oc[0]['ty']}", "Atomic<u64>" in oc[0]["ty"] or "AtomicU64" in oc[0]["ty"],
           key="counter|width", file=oc[0]["file"], line=oc[0]["line"],
           detail="a counter narrower than 64 bits can wrap within a process lifetime, making ids non-monotone")

    # ---- C07-b ------------------------------------------------------------------------------------
    chk.rule("C07-b", "T-WHO: ObjectId.0 is read only in derived impls, constructed only in ObjectId::next from "
                      "OBJECT_COUNTER.fetch_add, never cast or transmuted; the field is u64")
    adt = [r for r in facts.records("adt", "write_fonts") if r["path"] == OID]
    chk.anchor("C07-b", OID, adt)
    flds = adt[0]["variants"][0][1]
    chk.ob("C07-b", f"ObjectId fields: {[(f[0], f[1], f[2]) for f in flds]}", len(flds) == 1 and flds[0][1] == "u64" and flds[0][2] != "pub",
           key="oid|shape", detail="ObjectId must wrap one private u64")
    n_reads = n_cons = 0
    nbodies = 0
    # the id generator (today ObjectId::next) by what it does: the hand-written function that returns an ObjectId and performs
    # an atomic fetch_add
    NEXT = OID + "::next"
    gens = [b.path for b in facts.all_bodies("write_fonts") if not b.d.get("derived") and b.locals and b.locals[0][0] == OID
            and any(t.callee.endswith("::fetch_add") for _, t in b.calls())]
    if len(gens) == 1:
        NEXT = gens[0]
    for b in facts.all_bodies("write_fonts", kinds=("fn", "closure", "const")):
        nbodies += 1
        derived = b.d.get("derived")
        for bb, j, st in b.stmts():
            if st[0] != "A":
                continue
            rv = st[2]
            # reads/writes of the field
            places = [st[1]]
            if rv[0] in ("use", "cast", "un", "repeat"):
                p = op_place(rv[1] if rv[0] in ("use", "repeat") else rv[2])
                if p:
                    places.append(p)
            elif rv[0] == "bin":
                places += [p for p in (op_place(rv[2]), op_place(rv[3])) if p]
            elif rv[0] in ("ref", "raw"):
                places.append(rv[2])
            elif rv[0] == "agg":
                places += [p for p in (op_place(o) for o in rv[2]) if p]
            for p in places:
                for e in p[1]:
                    if isinstance(e, list) and e[0] == "f" and len(e) > 3 and e[3] == OID:
                        n_reads += 1
                        # feature dot2: node labels of a debug .dot rendering, not font bytes
                        ok = bool(derived) or b.path == NEXT or b.file.endswith("graph/graphviz.rs")
                        chk.ob("C07-b", f"ObjectId.0 accessed in {b.path} (derived impl)" if ok else f"ObjectId.0 accessed in {b.path}", ok,
                               key=f"oid-read|{b.path}", file=b.file, line=st[3][0], fn=b.path,
                               detail="the numeric value of an object id is process-history dependent; only Ord/Eq/Hash (derived) may see it")
            if rv[0] == "agg" and rv[1][0] == "adt" and rv[1][1] == OID:
                n_cons += 1
                chk.ob("C07-b", f"ObjectId constructed in {b.path}", b.path == NEXT or bool(derived),
                       key=f"oid-cons|{b.path}", file=b.file, line=st[3][0], fn=b.path)
            if rv[0] == "cast" and (rv[4].replace("&", "").strip() == OID or OID in rv[4]) and rv[1] in ("Transmute", "IntToInt", "PtrToPtr"):
                chk.ob("C07-b", f"ObjectId cast ({rv[1]}) in {b.path}", False, key=f"oid-cast|{b.path}", file=b.file, line=st[3][0], fn=b.path)
        for bb, t in b.calls():
            if "transmute" in t.callee and OID in t.d["cargs"]:
                chk.ob("C07-b", f"ObjectId transmuted in {b.path}", False, key=f"oid-transmute|{b.path}", file=b.file, line=t.line, fn=b.path)
    chk.floor("C07-b", "ObjectId field accesses seen (derived impls + next)", n_reads, 3)
    nxt = chk.anchor("C07-b", "ObjectId::next", facts.body(NEXT))
    chk.stats["C07-b:id_generator"] = NEXT
    fa = [t for bb, t in nxt.calls() if t.callee.endswith("::fetch_add")]
    ok = False
    if len(fa) == 1:
        s = show(nxt, expr_of(nxt, fa[0].args[0]))
        ok = "OBJECT_COUNTER" in s or "OBJECT_COUNTER" in str(expr_of(nxt, fa[0].args[0]))
    chk.ob("C07-b", "ObjectId::next = OBJECT_COUNTER.fetch_add(..)", ok, key="oid|next", file=nxt.file, line=nxt.lo, fn=nxt.path,
           detail="ids must come from one atomic fetch_add so each thread sees a strictly increasing sequence")

    # ---- C07-c ------------------------------------------------------------------------------------
    chk.rule("C07-c", "T-PURE: every iteration over a RandomState-hashed container (or a hashed container keyed by ObjectId, "
                      "whatever its hasher) reaches only order-insensitive consumers, or has a confirmed line")
    nsites = 0
    seen_conf = set()
    for c in SCOPE:
        if c not in facts.crates:
            continue
        for b in facts.all_bodies(c):
            ords = {}
            for bb, t in b.calls():
                callee = t.callee
                if not (("hash::map::HashMap" in callee or "hash::set::HashSet" in callee) and IT.search(callee)):
                    continue
                cargs = t.d["cargs"]
                random_state = "std::hash::random::RandomState" in cargs
                keyed_by_oid = cargs.lstrip("['{erased}, ").startswith(OID) or re.match(r"^\[(?:'\{erased\}, )*" + re.escape(OID), cargs) is not None
                if not (random_state or keyed_by_oid):
                    continue
                m = IT.search(callee).group(1)
                o = ords.get(m, 0)
                ords[m] = o + 1
                nsites += 1
                res = classify(b, bb)
                # normalising targets
                norm = []
                for kind, detail, ub in res:
                    if kind == "sensitive" and detail.startswith("collect into "):
                        tgt = detail[len("collect into "):]
                        if tgt in NORMALISING_TARGETS:
                            kind, detail = "insensitive", f"collect into {tgt.split('::')[-1]} ({NORMALISING_TARGETS[tgt]})"
                    norm.append((kind, detail))
                bad = [(k, d) for k, d in norm if k not in ("insensitive", "sorted-vec")]
                site = f"{b.path} line {t.line}: {callee.split('::')[-3].split('<')[0]}::{m}"
                if not bad:
                    chk.ob("C07-c", f"{site} -> {norm}", True)
                    continue
                ck = (b.path, m, o)
                if ck not in CONFIRMED:
                    # the function was renamed or moved: a confirmed entry whose function no longer exists, in the same
                    # module, for the same iteration method and ordinal, is carried over (and reported as such)
                    mod = b.path.rsplit("::", 1)[0]
                    for ok_ in CONFIRMED:
                        if ok_ in seen_conf or ok_[1] != m or ok_[2] != o or ok_[0].rsplit("::", 1)[0] != mod:
                            continue
                        if facts.body(ok_[0], _fuzzy=False) is None:
                            chk.notes.append(f"C07-c: confirmed entry for {ok_[0]} carried over to {b.path} (the former no longer exists)")
                            ck = ok_
                            break
                if ck in CONFIRMED and random_state and not (keyed_by_oid and m not in ("difference", "into_iter", "iter")):
                    seen_conf.add(ck)
                    chk.ob("C07-c", f"{site} -> {norm}", True, why="confirmed: " + CONFIRMED[ck])
                else:
                    chk.ob("C07-c", f"{site} -> {norm}", False, key=f"iter|{b.path}|{m}|{o}", file=b.file, line=t.line, fn=b.path,
                           detail=f"iteration order of a hashed container ({'RandomState' if random_state else 'keyed by ObjectId'}) reaches "
                                  f"{bad}; hash order differs between processes (and, for ObjectId keys, with the global counter)")
    chk.floor("C07-c", "hash-iteration sites classified (write-fonts + klippa)", nsites, 20)
    if cfg == "union":
        for ck in CONFIRMED:
            if ck not in seen_conf:
                chk.notes.append(f"confirmed line not used any more: {ck}")
    # structural support for the normalising targets
    fg = facts.body("write_fonts::tables::layout::builders::CoverageTableBuilder::from_glyphs")
    chk.anchor("C07-c", "CoverageTableBuilder::from_glyphs", fg)
    names = [t.callee.split("::")[-1] for _, t in fg.calls()]
    chk.ob("C07-c", f"CoverageTableBuilder::from_glyphs sorts and dedups ({names})", any(n.startswith("sort") for n in names) and "dedup" in names,
           key="norm|from_glyphs", file=fg.file, line=fg.lo, fn=fg.path)
    cdb = [r for r in facts.records("adt", "write_fonts") if r["path"] == "write_fonts::tables::layout::builders::ClassDefBuilderImpl"]
    chk.anchor("C07-c", "ClassDefBuilderImpl", cdb)
    chk.ob("C07-c", f"ClassDefBuilderImpl.items is ordered: {cdb[0]['variants'][0][1][0][1][:60]}", "BTreeMap" in cdb[0]["variants"][0][1][0][1],
           key="norm|classdef")
    for tgt, fn_re in (("CoverageTable", r"^<write_fonts::tables::layout::CoverageTable as core::iter::traits::collect::FromIterator<.*>>::from_iter$"),
                       ("ClassDef", r"^<write_fonts::tables::layout::ClassDef as core::iter::traits::collect::FromIterator<.*>>::from_iter$")):
        fb = facts.find_bodies(fn_re, "write_fonts")
        chk.anchor("C07-c", f"FromIterator for {tgt}", fb)
        callees = [t.callee for _, t in fb[0].calls()]
        want = "CoverageTableBuilder::from_glyphs" if tgt == "CoverageTable" else "ClassDefBuilderImpl"
        chk.ob("C07-c", f"{tgt}::from_iter goes through {want}", any(want in c for c in callees), key=f"norm|from_iter|{tgt}",
               file=fb[0].file, line=fb[0].lo, fn=fb[0].path)
    # containers that hold the graph must stay ordered
    g = [r for r in facts.records("adt", "write_fonts") if r["path"] == "write_fonts::graph::Graph"]
    chk.anchor("C07-c", "write_fonts::graph::Graph", g)
    for f in g[0]["variants"][0][1]:
        if OID in f[1] and ("Map<" in f[1] or "Set<" in f[1]):
            chk.ob("C07-c", f"Graph.{f[0]}: {f[1][:70]}", "btree" in f[1], key=f"graph-field|{f[0]}",
                   detail="a Graph field keyed by ObjectId must be an ordered map/set")

    # ---- C07-d ------------------------------------------------------------------------------------
    chk.rule("C07-d", "T-PURE: no call into std::time / std::env / rand / thread identity, no hasher whose output escapes a "
                      "container, no pointer-to-integer cast in write-fonts / klippa")
    FORBID = re.compile(r"^(std::time::|std::env::|std::thread::current|std::thread::Thread|std::thread::available_parallelism|rand::|std::process::id|"
                        r"std::hash::random::RandomState::new|std::hash::random::DefaultHasher|<std::hash::random::RandomState as core::hash::BuildHasher>::hash_one|"
                        r"core::hash::BuildHasher::hash_one|std::time::SystemTime|std::time::Instant|"
                        # observations of where bytes sit in memory: the result of splitting / testing by address alignment
                        r"core::slice::<impl \[T\]>::align_to(_mut)?$|bytemuck::(internal::)?(try_)?pod_align_to(_mut)?$|"
                        r"core::ptr::(const_ptr|mut_ptr)::<impl \*(const|mut) T>::(align_offset|is_aligned|is_aligned_to)$)")
    ncalls = 0
    for c in SCOPE + ("read_fonts", "font_types"):      # the compilers call into the readers (checksums, tables being copied)
        if c not in facts.crates:
            continue
        for b in facts.all_bodies(c):
            for bb, t in b.calls():
                ncalls += 1
                if FORBID.search(t.callee):
                    allowed_dot = "graphviz" in b.file or b.path.endswith("Graph::write_graph_viz")
                    chk.ob("C07-d", f"{b.path} calls {t.callee}", allowed_dot, why="debug rendering to a .dot file (feature dot2), not font bytes",
                           key=f"forbid|{b.path}|{t.callee}", file=b.file, line=t.line, fn=b.path,
                           detail="observation of time / environment / randomness / memory address alignment in a compilation path")
    # values that depend on the interleaving of threads: the result of an atomic read-modify-write is such a value as soon
    # as it is used; the one confirmed use is ObjectId::next (C07-b shows the ids never reach the output)
    def _mentions(o, l):
        if isinstance(o, (list, tuple)):
            if len(o) == 2 and o[0] == l and isinstance(o[1], (list, tuple)) and not isinstance(o[0], bool):
                return True
            return any(_mentions(x, l) for x in o)
        return False
    RMW = re.compile(r"^core::sync::atomic::Atomic\w*(::<[^>]*>)?::(fetch_\w+|swap|compare_exchange(_weak)?|compare_and_swap)$")
    n_rmw = 0
    for c in SCOPE:
        if c not in facts.crates:
            continue
        for b in facts.all_bodies(c):
            for bb, t in b.calls():
                if not RMW.search(t.callee):
                    continue
                n_rmw += 1
                d = t.dest[0] if t.dest and not t.dest[1] else None
                used = d is None or any(_mentions(st[2], d) for _, _, st in b.stmts() if st[0] == "A") or \
                    any(_mentions(getattr(blk.term, "args", None) or [], d) or (blk.term.kind == "switch" and _mentions(blk.term.d[1], d))
                        for blk in b.blocks) or d == 0
                confirmed = b.path == chk.stats.get("C07-b:id_generator", OID + "::next")
                chk.ob("C07-d", f"{b.path} line {t.line}: result of {t.callee.split('::')[-1]} {'is used' if used else 'is not used'}",
                       confirmed or not used, why="object identity only (C07-b)" if confirmed else None,
                       key=f"atomic-rmw|{b.path}", file=b.file, line=t.line, fn=b.path,
                       detail="the value returned by an atomic read-modify-write depends on how threads interleave; it is used in a "
                              "compilation path (work distribution, ordering, numbering), so the bytes produced can differ between "
                              "runs of the same input")
    chk.stats[f"C07-d:{cfg}:atomic_rmw_sites"] = n_rmw
    chk.floor("C07-d", "atomic read-modify-write sites inspected (ObjectId::next)", n_rmw, 1)
    from ..ptrtaint import PtrTaint
    pt = PtrTaint(facts, [c for c in facts.crates])
    for b, st, res in pt.run():
        if b.crate not in SCOPE:
            continue
        bad = [d for v, d in res if v == "bad"]
        chk.ob("C07-d", f"{b.path}: pointer-to-integer cast at line {st[3][0]} -> {[d for v, d in res][:3]}", not bad,
               key=f"ptrcast|{b.path}|{bad[:1]}", file=b.file, line=st[3][0], fn=b.path,
               detail=f"an address observed as an integer reaches {bad}; accepted consumers are differences/comparisons of two "
                      f"addresses, alignment masks and fields nothing reads")
    chk.stats[f"C07-d:{cfg}:calls_scanned"] = ncalls
    chk.floor("C07-d", "calls scanned", ncalls, 20000)
