"""C04-a/b/d — generated reader <-> generated writer agreement (syn level)."""
import os
import re

from .. import gen
from ..facts import REPO

W_FIELD = re.compile(r"^self \. (\w+) \. write_into \(writer\) ;$")
W_LIT = re.compile(r"^\((.+) as ([\w:]+)\) \. write_into \(writer\) ;$")
W_COUNT = re.compile(r"^\(([\w]+) :: try_from \((.*)\) \. unwrap \(\)\) \. write_into \(writer\) ;$")
W_EXPR = re.compile(r"^\((self \. \w+ \(\))\) \. write_into \(writer\) ;$")
W_COND = re.compile(r"^(.+?) \. then \(\| \| \{?\s*self \. (\w+)( \. as_ref \(\) \. expect \(.*\))? \. write_into \(writer\)\s*\}?\) ;$")
W_VERSION_LET = re.compile(r"^let version = (.+) ;$")
W_VERSION = re.compile(r"^version \. write_into \(writer\) ;$")
W_ADJUST = re.compile(r"^writer \. adjust_offsets \(.*?, \| writer \| \{ self \. (\w+) \. write_into \(writer\) ; \}\) ;$")
W_CCOUNT = re.compile(r"^(.+?) \. then \(\| \| \(([\w]+) :: try_from \((.*)\) \. unwrap \(\)\) \. write_into \(writer\)\) ;$")
W_MATCH = re.compile(r"^match self \{")
W_SCALAR = re.compile(r"^(let \w+ = \* self as \w+ ;|writer \. \w+ \(& .*\))$")


def ws(s):
    return re.sub(r"\s+", "", s)


def wtype(t):
    """normalise a write-fonts field type to a wire description"""
    t = ws(t)
    m = re.match(r"^Option<(.*)>$", t)
    opt = False
    if m:
        t, opt = m.group(1), True
    m = re.match(r"^(Nullable)?OffsetMarker<(.*?)(,WIDTH_(16|24|32))?>$", t)
    if m:
        return ("ty", "Offset" + (m.group(4) or "16")), opt
    m = re.match(r"^Vec<(.*)>$", t)
    if m:
        inner, _ = wtype(m.group(1))
        return ("array", inner[1] if inner[0] == "ty" else None), opt
    return ("ty", gen.norm_ty(t)), opt


def split_stmts(body):
    """split `a ; b ; c` at brace/paren depth 0"""
    out, depth, cur = [], 0, []
    for tok in body.split(" "):
        if tok in ("(", "{", "["):
            depth += 1
        elif tok in (")", "}", "]"):
            depth -= 1
        cur.append(tok)
        if tok == ";" and depth == 0:
            out.append(" ".join(cur).strip())
            cur = []
    if "".join(cur).strip():
        out.append(" ".join(cur).strip())
    return out


W_ADJUST_BLOCK = re.compile(r"^writer \. adjust_offsets \((.*?) , \| writer \| \{ (.*) \}\) ;$")


def parse_write(f, struct_fields):
    steps, problems = [], []
    version_ty = None
    stmts = []
    for s in f["stmts"]:
        m = W_ADJUST_BLOCK.match(s)
        if m and not W_ADJUST.match(s):
            stmts += split_stmts(m.group(2))
        else:
            stmts.append(s)
    for s in stmts:
        m = W_VERSION_LET.match(s)
        if m:
            e = m.group(1)
            mm = re.match(r"^.* as (\w+)$", e)
            if mm:
                version_ty = mm.group(1)
            elif e.strip() == "self . version" and "version" in struct_fields:
                version_ty = wtype(struct_fields["version"])[0][1]
            continue
        if W_VERSION.match(s):
            steps.append({"k": "ty", "ty": version_ty, "cond": None, "src": "version"})
            continue
        m = W_ADJUST.match(s)
        if m:
            fty = struct_fields.get(m.group(1))
            w, _ = wtype(fty) if fty else (("ty", None), False)
            steps.append({"k": w[0], "ty": w[1], "cond": None, "src": "field:" + m.group(1)})
            continue
        m = W_CCOUNT.match(s)
        if m:
            arr = re.findall(r"array_len \(& self \. (\w+)", m.group(3))
            steps.append({"k": "ty", "ty": gen.norm_ty(m.group(2)), "cond": m.group(1), "src": "count:" + (arr[0] if arr else "?"), "raw": m.group(3)})
            continue
        m = W_COND.match(s)
        if m:
            fty = struct_fields.get(m.group(2))
            w, _ = wtype(fty) if fty else (("ty", None), False)
            steps.append({"k": w[0], "ty": w[1], "cond": m.group(1), "src": "field:" + m.group(2)})
            continue
        m = W_FIELD.match(s)
        if m:
            fty = struct_fields.get(m.group(1))
            w, _ = wtype(fty) if fty else (("ty", None), False)
            steps.append({"k": w[0], "ty": w[1], "cond": None, "src": "field:" + m.group(1)})
            continue
        m = W_COUNT.match(s)
        if m:
            arr = re.findall(r"array_len \(& self \. (\w+)", m.group(2)) or re.findall(r"plus_one \(& self \. (\w+)", m.group(2))
            steps.append({"k": "ty", "ty": gen.norm_ty(m.group(1)), "cond": None, "src": "count:" + (arr[0] if arr else "?"), "raw": m.group(2)})
            continue
        m = W_LIT.match(s)
        if m:
            steps.append({"k": "ty", "ty": gen.norm_ty(m.group(2)), "cond": None, "src": "lit:" + m.group(1)})
            continue
        m = W_EXPR.match(s)
        if m:
            steps.append({"k": "ty", "ty": None, "cond": None, "src": "expr:" + m.group(1)})
            continue
        problems.append(s)
    return steps, problems


def reader_tables(ritems):
    """name -> list of wire fields {name, k ('ty'|'array'), ty, cond, count_of}"""
    markers, aliases = gen.table_model(ritems)
    out = {}
    for alias, mk in aliases.items():
        m = markers[mk]
        if m["read"] is None:
            continue
        steps, finish, lens, problems = gen.parse_read(m["read"])
        if problems or finish is None:
            continue
        fields, fprob = gen.fields_from_read(steps)
        rr = [gen.parse_range_fn(f) for f in m["ranges"]]
        if fprob or None in rr or len(rr) != len(fields):
            continue
        getters = {}
        for g in m["getters"]:
            pg = gen.parse_getter(g)
            if pg and pg.get("field"):
                getters[pg["field"]] = pg
        res = []
        for fd, rg in zip(fields, rr):
            ent = {"name": rg["name"], "cond": fd["cond"], "bind": fd.get("bind")}
            if rg["len"][0] == "ty":
                ent["k"], ent["ty"] = "ty", rg["len"][1]
            else:
                ent["k"] = "array"
                g = getters.get(rg["name"])
                elem = None
                if g:
                    ret = re.sub(r"^Option\s*<\s*(.*)\s*>$", r"\1", g["ret"].strip()) if g.get("optional") else g["ret"]
                    mm = re.match(r"^& 'a \[(.*)\]$", ret.strip())
                    if mm:
                        elem = gen.norm_ty(mm.group(1))
                ent["ty"] = elem
                le = lens.get(rg["len"][1], "")
                cm = re.match(r"^\((\w+) as usize\)", le)
                ent["count_of"] = cm.group(1) if cm else None
            res.append(ent)
        out[alias] = res
    # packed records: struct fields in order
    for it in ritems:
        if it["k"] == "struct" and not it["name"].endswith("Marker") and any("repr (packed)" in a or "repr(packed)" in ws(a) for a in it["attrs"]):
            res = []
            for f in it["fields"]:
                res.append({"name": f["name"], "cond": None, "k": "ty", "ty": gen.norm_ty(f["ty"])})
            out[it["name"]] = res
    return out


SKIP_REASONS = {
    ("NameRecord", "length"): "written together with the string offset by compile_name_string (tables/name.rs)",
    ("LangTagRecord", "length"): "written together with the string offset by compile_name_string (tables/name.rs)",
}
IFT_TODO = "schema marks the field #[compile(skip)] with 'TODO remove this once write fonts side is implemented': the IFT write side is incomplete by declaration"


def schema_skips():
    """(type, field) pairs marked #[compile(skip)] in resources/codegen_inputs/*.rs (the codegen schema)"""
    out = {}
    d = os.path.join(REPO, "resources", "codegen_inputs")
    for fn in sorted(os.listdir(d)):
        if not fn.endswith(".rs"):
            continue
        cur, attrs = None, []
        for line in open(os.path.join(d, fn)):
            s = line.strip()
            m = re.match(r"^(table|record)\s+(\w+)", s)
            if m:
                cur, attrs = m.group(2), []
                continue
            if s.startswith("#["):
                attrs.append(s)
                continue
            m = re.match(r"^(\w+)\s*:\s*[^;]+,\s*(//.*)?$", s)
            if m and cur:
                if any(re.match(r"^#\[compile\(skip\)\]", a) for a in attrs):
                    out[(cur, m.group(1))] = fn
                attrs = []
            elif s == "}":
                cur, attrs = None, []
            elif s and not s.startswith("//"):
                pass
    return out


def check_writers(chk):
    skips = schema_skips()
    chk.rule("C04-a", "T-AGREE (syn): for every type with a generated reader and a generated FontWrite impl the wire fields agree in "
                      "order, width and version/flag condition")
    chk.rule("C04-b", "count <-> array pairing: the count a reader uses to size array `a` is written as array_len of the array "
                      "written at `a`'s position")
    chk.rule("C04-d", "validate <-> write: every T::try_from(array_len(&self.f)).unwrap() in write_into is covered by a "
                      "`self.f.len() > T::MAX -> report` in the same type's validate_impl")
    rfiles = {os.path.basename(f): f for f in gen.generated_files("read-fonts")}
    wfiles = gen.generated_files("write-fonts")
    rdata = {os.path.basename(d["file"]): d for d in gen.dump(sorted(rfiles.values()))}
    wdata = gen.dump(wfiles)
    n_pairs = n_counts = n_unwrap = 0
    for wd in wdata:
        fname = os.path.basename(wd["file"])
        rel = os.path.relpath(wd["file"], REPO)
        rd = rdata.get(fname)
        if rd is None:
            continue
        rtabs = reader_tables(rd["items"])
        structs = {it["name"]: {f["name"]: f["ty"] for f in it["fields"]} for it in wd["items"] if it["k"] == "struct"}
        validates = {}
        for it in wd["items"]:
            if it["k"] == "impl" and it["trait"] == "Validate":
                base = re.sub(r"\s*<.*$", "", it["self_ty"]).strip()
                for f in it["fns"]:
                    if f["name"] == "validate_impl":
                        validates[base] = " ".join(f["stmts"])
        for it in wd["items"]:
            if it["k"] != "impl" or it["trait"] != "FontWrite":
                continue
            base = re.sub(r"\s*<.*$", "", it["self_ty"]).strip()
            wf = [f for f in it["fns"] if f["name"] == "write_into"]
            if not wf or base not in structs:
                continue
            f = wf[0]
            if any(W_MATCH.match(s) or W_SCALAR.match(s) for s in f["stmts"]):
                continue  # enum dispatch / scalar flags
            steps, problems = parse_write(f, structs[base])
            for p in problems:
                chk.ob("C04-a", f"{fname}: {base}::write_into statement outside the generated grammar: `{p[:120]}`", False,
                       key=f"{fname}|{base}|write-grammar|{p[:40]}", file=rel, line=f["line"])
            if problems:
                continue
            # C04-d
            val = ws(validates.get(base, ""))
            for s in steps:
                if s["src"].startswith("count:") and s.get("raw") is not None and "array_len" in s["raw"]:
                    n_unwrap += 1
                    arr = s["src"][6:]
                    ok = re.search(r"self\." + re.escape(arr) + r"(\.as_ref\(\)\.unwrap\(\))?\.len\(\)>\(" + re.escape(s["ty"]) + r"::MAXasusize\)", val) is not None
                    # a transformed count (2 * n, n + 1) needs its own bound; only the plain form is accepted
                    if ok and not re.match(r"^array_len \(& self \. \w+\)$", s["raw"].strip()):
                        ok = False
                    chk.ob("C04-d", f"{fname}: {base}: {s['ty']}::try_from(array_len(self.{arr})).unwrap() covered by validate", ok,
                           key=f"{fname}|{base}|validate|{arr}", file=rel, line=f["line"],
                           detail=f"write_into unwraps {s['ty']}::try_from(len of `{arr}`) but validate_impl has no `self.{arr}.len() > {s['ty']}::MAX` report: "
                                  f"a value that passes validation could panic while compiling")
            rfields = rtabs.get(base)
            if rfields is None:
                continue
            n_pairs += 1
            kept = []
            for r in rfields:
                k = (base, r["name"])
                if k in skips:
                    why = SKIP_REASONS.get(k) or (IFT_TODO if skips[k] == "ift.rs" else None)
                    chk.ob("C04-a", f"{base}.{r['name']} is #[compile(skip)] in the schema", why is not None, why=why,
                           key=f"{fname}|{base}|skip|{r['name']}", file=rel, line=f["line"],
                           detail=f"reader field `{r['name']}` is never written (schema #[compile(skip)]) and no confirmed reason says what writes it")
                    continue
                kept.append(r)
            rfields = kept
            if len(rfields) != len(steps):
                chk.ob("C04-a", f"{fname}: {base}: reader has {len(rfields)} wire fields, writer emits {len(steps)}", False,
                       key=f"{fname}|{base}|field-count", file=rel, line=f["line"],
                       detail=f"reader: {[(r['name'], r['k'], r['ty']) for r in rfields]} ; writer: {[(s['src'], s['k'], s['ty']) for s in steps]}")
                continue
            for i, (r, s) in enumerate(zip(rfields, steps)):
                # kind / width
                if r["k"] == "ty":
                    ok = s["k"] == "ty" and (s["ty"] is None or s["ty"] == r["ty"])
                else:
                    ok = s["k"] == "array" or (s["k"] == "ty" and s["src"].startswith(("field:", "expr:")))  # computed arrays / wrappers
                    if ok and s["k"] == "array" and s["ty"] and r["ty"] and s["ty"] != r["ty"] and not s["ty"].startswith("Offset") == (not r["ty"].startswith("Offset")):
                        ok = False
                chk.ob("C04-a", f"{base}[{i}] {r['name']}: reader {r['k']} {r['ty']} <-> writer {s['src']} {s['k']} {s['ty']}", ok,
                       key=f"{fname}|{base}|width|{r['name']}", file=rel, line=f["line"],
                       detail=f"field {i} `{r['name']}`: the reader expects {r['k']} of {r['ty']} but the writer emits {s['k']} of {s['ty']} ({s['src']})")
                # condition
                rc = ws(r["cond"] or "")
                sc = ws((s["cond"] or "").replace("self . ", ""))
                chk.ob("C04-a", f"{base}[{i}] {r['name']}: condition `{r['cond']}` <-> `{s['cond']}`", rc == sc,
                       key=f"{fname}|{base}|cond|{r['name']}", file=rel, line=f["line"],
                       detail=f"field `{r['name']}` is read under `{r['cond']}` but written under `{s['cond']}`")
            # C04-b
            names = [r["name"] for r in rfields]
            for i, r in enumerate(rfields):
                if r["k"] == "array" and r.get("count_of") in names:
                    j = names.index(r["count_of"])
                    sj, si = steps[j], steps[i]
                    if sj["src"].startswith("count:") and si["src"].startswith("field:"):
                        n_counts += 1
                        # several arrays may share one count: the count must come from one of them
                        sharing = [steps[k2]["src"][6:] for k2, r2 in enumerate(rfields) if r2["k"] == "array" and r2.get("count_of") == r["count_of"]
                                   and steps[k2]["src"].startswith("field:")]
                        chk.ob("C04-b", f"{base}: count `{r['count_of']}` written from len of `{sj['src'][6:]}`; array `{r['name']}` written from `{si['src'][6:]}`",
                               sj["src"][6:] in sharing, key=f"{fname}|{base}|count|{r['name']}", file=rel, line=f["line"],
                               detail=f"the reader sizes `{r['name']}` by `{r['count_of']}`, but the writer stores the length of `{sj['src'][6:]}` there "
                                      f"and writes `{si['src'][6:]}` as the array")
    chk.floor("C04-a", "reader/writer type pairs compared", n_pairs, 150)
    chk.floor("C04-b", "count/array pairs checked", n_counts, 60)
    chk.floor("C04-d", "array-length unwraps checked against validate", n_unwrap, 80)
    chk.stats["C04:pairs"] = n_pairs
