"""C02 — skrifa and IFT client APIs are total on hostile fonts and arguments.  Claimed in part:

  C02-a  no unsafe code in skrifa / incremental-font-transfer (the only FFI is the brotli decoder crate)
  C02-b  every call-graph cycle reachable in skrifa / IFT / read-fonts is depth bounded (T-REC)
  C02-c  interpreter execution bounds: who may write the program counter; backward jumps, loop calls and calls are
         dominated by their budget / depth checks; the dispatch loop counts against MAX_RUN_INSTRUCTIONS
  C02-e  scratch memory: a too-small buffer becomes DrawError::InsufficientMemory; alloc_slice's split is dominated by
         its own length test on the (re-aligned) buffer
  C02-f  explicit-panic census for skrifa and IFT equals the confirmed inventory (F5 is a known finding)
  C02-g  IFT decode discipline: decode results propagated, output cap is the patch's own max_uncompressed_length,
         the sparse-bit-set height guard dominates node decoding
"""
import json
import os
import re

from ..facts import Facts, VERIF
from ..zone import panic_kind
from ..guards import branch_guards, bail_error_variants, result_fate, calls_in_expr, _reaches_avoiding
from ..sym import expr_of, show, strip_casts
from ..mir import op_place

SK = "skrifa"
IFT = "incremental_font_transfer"
DECODER = "read_fonts::tables::glyf::bytecode::decode::Decoder"
PSTATE = "skrifa::outline::glyf::hint::program::ProgramState"
H = "skrifa::outline::glyf::hint::"


def field_writers(facts, crates, adt, field):
    out = []
    for c in crates:
        for b in facts.all_bodies(c):
            for bb, j, st in b.stmts():
                if st[0] == "A" and st[1][1]:
                    last = st[1][1][-1]
                    if isinstance(last, list) and last[0] == "f" and last[2] == field and len(last) > 3 and last[3] == adt:
                        out.append((b, bb, st))
    return out


def run(chk):
    configs = ["union"] if chk.tier == "quick" else ["union", "allfeat", "skrifa_libm", "ift_rust_brotli"]
    for cfg in configs:
        chk.configs.append(cfg)
        facts = Facts(cfg)
        if "skrifa" in facts.crates:
            run_skrifa(chk, facts, cfg)
        if IFT in facts.crates:
            run_ift(chk, facts, cfg)
        census(chk, facts, cfg)
        from .sites import run_sites
        run_sites(chk, facts, "C02-d", cfg)
        run_sites(chk, facts, "C02-i", cfg)
        if cfg == "union":
            from .sites import run_engine_fixture
            run_engine_fixture(chk)
        from .iterprog import run_iterprog
        run_iterprog(chk, facts, "C02-h", ("skrifa", "incremental_font_transfer", "shared_brotli_patch_decoder"), 1)
    from . import trec
    trec.run_scope(chk, "C02-b", scope="client", floor=12)
    chk.assume("not decided: the sites and loops that rules/site_baseline.json lists as untriaged (scaler buffer slicing, autohinter "
               "indexing and ring walks, cursor-driven decoders), finiteness of repo-defined iterators, non-finite float handling")


def run_skrifa(chk, facts, cfg):
    # ---- C02-a -----------------------------------------------------------------------------------
    chk.rule("C02-a", "no unsafe code in skrifa and incremental-font-transfer")
    for c in (SK, IFT):
        if c not in facts.crates:
            continue
        cr = list(facts.records("crate", c))
        attrs = " ".join(cr[0]["attrs"]) if cr else ""
        ub = list(facts.records("unsafe_block", c))
        chk.ob("C02-a", f"{c}: forbid(unsafe_code) and {len(ub)} unsafe blocks", "unsafe_code" in attrs and not ub, key=f"unsafe|{c}",
               detail=f"unsafe blocks: {[(u['file'], u['line']) for u in ub][:4]}")

    # ---- C02-c -----------------------------------------------------------------------------------
    chk.rule("C02-c", "T-WHO/T-GUARD: program counter writers; budget checks dominate backward jumps / loop calls / calls; "
                      "dispatch loop bounded by MAX_RUN_INSTRUCTIONS")
    pcw = field_writers(facts, (SK, "read_fonts"), DECODER, "pc")
    # a writer of the program counter is recognised by what it does, not by its name: the decoder's own module (forward
    # decoding, constructor), the jump routine (the function that charges LoopBudget::doing_backward_jump -- checked in
    # detail below) or the return path (the function that pops the call stack)
    def pc_writer_kind(b):
        if "/tables/glyf/bytecode/" in b.file and b.crate == "read_fonts":
            return "decoder module"
        cs = [t.callee for _, t in b.calls()]
        if any(c.endswith("LoopBudget::doing_backward_jump") for c in cs):
            return "jump routine (charges the loop budget)"
        if any(c.endswith("call_stack::CallStack::pop") for c in cs):
            return "return path (pops the call stack)"
        return None
    for b, bb, st in pcw:
        nm = b.path.split("::")[-1]
        kind = pc_writer_kind(b)
        chk.ob("C02-c", f"Decoder.pc written in {nm} ({os.path.basename(b.file)}:{st[3][0]})", kind is not None, why=kind, key=f"pc-writer|{b.path}",
               file=b.file, line=st[3][0], fn=b.path,
               detail="a new writer of the program counter can move execution backwards without charging the loop budget")
    chk.floor("C02-c", "writers of Decoder.pc", len(pcw), 4)
    dw = field_writers(facts, (SK,), PSTATE, "decoder")
    for b, bb, st in dw:
        nm = b.path.split("::")[-1]
        e = expr_of(b, st[2][1]) if st[2][0] == "use" else ("?",)
        fresh = e[0] == "call" and e[1].endswith("bytecode::decode::Decoder::<'a>::new")
        chk.ob("C02-c", f"ProgramState.decoder replaced in {nm} by {show(b, e)[:40]}", fresh, key=f"decoder-writer|{b.path}",
               file=b.file, line=st[3][0], fn=b.path,
               detail="the decoder (and with it the program counter) may only be replaced by a fresh Decoder::new(..)")
    # the jump routine: on the negative side the pc write is preceded by doing_backward_jump()?, and -1 is rejected
    jumpers = [b for b in {b.path: b for b, _, _ in pcw}.values() if any(t.callee.endswith("LoopBudget::doing_backward_jump") for _, t in b.calls())]
    dj = chk.anchor("C02-c", "the jump routine (writes Decoder.pc and charges doing_backward_jump)", jumpers[0] if len(jumpers) == 1 else None)
    store = [bb for b, bb, st in pcw if b.path == dj.path]
    bj = [bb for bb, t in dj.calls() if t.callee.endswith("LoopBudget::doing_backward_jump")]
    ok = False
    why = "no `jump_offset < 0` test found"
    from ..recur import _cmp_guards
    for gbb, op, a, c, t_true, t_false in _cmp_guards(dj):
        if op == "Lt" and c[0] == "const" and c[2] == 0 and store and bj:
            # every path from the negative edge to the pc store passes the budget call (and its `?` Continue edge)
            passes = not _reaches_avoiding(dj, t_true, store[0], bj[0])
            fate = result_fate(dj, bj[0])
            ok = passes and fate == {"propagated"}
            why = f"negative edge reaches the pc store only through doing_backward_jump(): {passes}; its result is {sorted(fate)}"
    chk.ob("C02-c", f"do_jump: backward jump charged to the loop budget ({why})", ok, key="do_jump|budget", file=dj.file, line=dj.lo, fn=dj.path,
           detail="a backward jump that is not charged can loop forever")
    rej = any(op == "Eq" and c[0] == "const" and c[2] == -1 for gbb, op, a, c, tt, tf in _cmp_guards(dj))
    chk.ob("C02-c", "do_jump: the self-jump offset -1 is rejected", rej, key="do_jump|selfjump", file=dj.file, line=dj.lo, fn=dj.path)
    # op_loopcall: do_call dominated by doing_loop_call(count)?
    lc = chk.anchor("C02-c", "op_loopcall", facts.one_body(r"engine::Engine<'_>>::op_loopcall$", SK))
    dc = [bb for bb, t in lc.calls() if t.callee.endswith("::do_call")]
    bl = [(bb, t) for bb, t in lc.calls() if t.callee.endswith("LoopBudget::doing_loop_call")]
    ok = bool(dc) and bool(bl) and all(lc.dominates(bl[0][0], d) for d in dc) and result_fate(lc, bl[0][0]) == {"propagated"}
    chk.ob("C02-c", "op_loopcall: do_call dominated by doing_loop_call(count)?", ok, key="loopcall|budget", file=lc.file, line=lc.lo, fn=lc.path,
           detail="LOOPCALL with a huge count must be charged to the execution budget before the call")
    # LoopBudget::doing_* compare against self.limit and return Err
    for nm in ("doing_backward_jump", "doing_loop_call"):
        lb = chk.anchor("C02-c", nm, facts.one_body(r"engine::LoopBudget::" + nm + "$", SK))
        good = False
        for gbb, op, a, c, tt, tf in _cmp_guards(lb):
            if op in ("Gt", "Ge") and "limit" in show(lb, c):
                errs = [st for bb in lb.reachable_from(tt) for st in lb.blocks[bb].stmts
                        if st[0] == "A" and st[2][0] == "agg" and st[2][1][0] == "adt" and st[2][1][3] == "Err"]
                good = bool(errs)
        chk.ob("C02-c", f"LoopBudget::{nm}: exceeding self.limit returns Err", good, key=f"budget|{nm}", file=lb.file, line=lb.lo, fn=lb.path)
    # ProgramState::enter: CallStack::push(..)? dominates the decoder store; push is bounds checked
    en = chk.anchor("C02-c", "ProgramState::enter", facts.one_body(r"program::ProgramState::<'a>::enter$", SK))
    pushes = [(bb, t) for bb, t in en.calls() if t.callee.endswith("CallStack::push")]
    stores = [bb for b, bb, st in dw if b.path == en.path]
    ok = bool(pushes) and bool(stores) and all(en.dominates(pushes[0][0], s) for s in stores) and result_fate(en, pushes[0][0]) == {"propagated"}
    chk.ob("C02-c", "ProgramState::enter: CallStack::push(..)? precedes switching the decoder", ok, key="enter|push", file=en.file, line=en.lo, fn=en.path,
           detail="a call that is not recorded on the bounded call stack gives unbounded call depth")
    cp = chk.anchor("C02-c", "CallStack::push", facts.one_body(r"call_stack::CallStack::push$", SK))
    gm = [(bb, t) for bb, t in cp.calls() if t.callee.endswith("::get_mut")]
    ok = bool(gm) and any("CallStackOverflow" in str(calls_in_expr(expr_of(cp, t.args[0])) + [show(cp, expr_of(cp, a)) for a in t.args])
                          for bb, t in cp.calls() if t.callee.endswith("::ok_or"))
    chk.ob("C02-c", "CallStack::push writes through get_mut(len).ok_or(CallStackOverflow)?", ok, key="callstack|push", file=cp.file, line=cp.lo, fn=cp.path)
    # Engine::run: counter incremented each iteration and compared with MAX_RUN_INSTRUCTIONS -> Err
    rn = chk.anchor("C02-c", "Engine::run", facts.one_body(r"engine::dispatch::<impl skrifa::outline::glyf::hint::engine::Engine<'a>>::run$", SK))
    ok = False
    for gbb, op, a, c, tt, tf in _cmp_guards(rn):
        if op in ("Gt", "Ge") and c[0] == "const" and c[2] is not None and 1000 <= c[2] <= 100_000_000:
            # the true edge builds an Err with ExceededExecutionBudget; the guard is inside the dispatch loop
            kinds = [st[2][1][3] for bb in rn.reachable_from(tt) for st in rn.blocks[bb].stmts if st[0] == "A" and st[2][0] == "agg" and st[2][1][0] == "adt"]
            in_loop = gbb in rn.reachable_from(tf)
            disp = [bb for bb, t in rn.calls() if t.callee.endswith("::dispatch")]
            # the exceeding edge must leave the loop for good (no path back to a dispatch)
            leaves = not any(d in rn.reachable_from(tt) for d in disp)
            ok = "ExceededExecutionBudget" in kinds and in_loop and bool(disp) and all(gbb in rn.reachable_from(d) for d in disp) and leaves
            chk.sample({"Engine::run budget": c[2]})
    chk.ob("C02-c", "Engine::run: every dispatch is followed by the MAX_RUN_INSTRUCTIONS test", ok, key="run|budget", file=rn.file, line=rn.lo, fn=rn.path,
           detail="the interpreter's main loop must stop after a bounded number of instructions")

    # looped instructions (SHPIX, IP, FLIPPT, ALIGNRP, ..) run graphics.loop_counter times inside ONE dispatched instruction, out of
    # reach of the run / jump budgets: every value ever stored into the counter must be small
    from ..intervals import Intervals
    GS = H + "graphics::GraphicsState"
    lcw = field_writers(facts, (SK,), GS, "loop_counter")
    for b, bb, st in lcw:
        iv = Intervals(b)
        j = b.blocks[bb].stmts.index(st)
        stt = iv.state_before_stmt(bb, j) if iv.converged else None
        r = None
        if stt is not None and st[2][0] == "use":
            r = iv.rng(stt, st[2][1])
        elif stt is not None and st[2][0] == "cast":
            a = iv.rng(stt, st[2][2])
            r = a if (a is not None and 0 <= a[0] and a[1] < (1 << 32)) else (0, (1 << 32) - 1)
        ok = stt is None or (r is not None and 0 <= r[0] and r[1] <= 0xFFFF)
        chk.ob("C02-c", f"{b.path.split('::')[-1]} line {st[3][0]}: loop_counter = value in {r}", ok, key=f"loop-counter|{b.path}",
               file=b.file, line=st[3][0], fn=b.path,
               detail=f"a looped instruction iterates loop_counter times without charging any budget; the stored value has range {r}, "
                      f"expected at most 0xFFFF (FreeType's clamp)")
    chk.floor("C02-c", "writers of GraphicsState.loop_counter", len(lcw), 3)
    for b in facts.all_bodies(SK):
        for bb, j, st in b.stmts():
            if st[0] == "A" and st[2][0] in ("ref", "raw") and (st[2][1] == "mut" or "Mut" in str(st[2][1])) and st[2][2][1]:
                last = st[2][2][1][-1]
                if isinstance(last, list) and last[0] == "f" and last[2] == "loop_counter" and len(last) > 3 and last[3] == GS:
                    chk.ob("C02-c", f"{b.path}: &mut graphics.loop_counter", False, key=f"loop-counter-borrow|{b.path}", file=b.file,
                           line=st[3][0], fn=b.path, detail="the loop counter is handed out by mutable reference: its writers cannot be enumerated")

    # ---- C02-e -----------------------------------------------------------------------------------
    chk.rule("C02-e", "T-ERR/T-GUARD: scratch memory constructors' None becomes InsufficientMemory; alloc_slice splits only after "
                      "its length test on the same (aligned) buffer")
    n = 0
    for b in facts.all_bodies(SK):
        for bb, t in b.calls():
            if re.search(r"(FreeType|HarfBuzz)OutlineMemory::<'a>::new$", t.callee) or re.search(r"OutlineMemory::new$", t.callee):
                n += 1
                e = None
                fate = result_fate(b, bb)
                # Option -> ok_or(InsufficientMemory) -> ?
                ok = fate <= {"propagated", "returned", "matched"} and bool(fate)
                names = [v for _, _, _, ops, st in [] for v in []]
                s = " ".join(t2.callee for _, t2 in b.calls())
                has_err = any(st[0] == "A" and st[2][0] == "agg" and st[2][1][0] == "adt" and st[2][1][3] == "InsufficientMemory" for _, _, st in b.stmts())
                chk.ob("C02-e", f"{b.path.split('::')[-1]}: {t.callee.split('::')[-2]}::new -> {sorted(fate)}, InsufficientMemory built: {has_err}",
                       ok and has_err, key=f"mem|{b.path}|{t.callee.split('::')[-2]}", file=b.file, line=t.line, fn=b.path,
                       detail="a too-small caller buffer must surface as DrawError::InsufficientMemory")
    chk.floor("C02-e", "outline memory constructor call sites", n, 2)
    # the carver (today `alloc_slice`): the function of the memory module that splits the byte buffer and casts the front part
    cands = [b for b in facts.all_bodies("skrifa") if b.path.startswith("skrifa::outline::glyf::memory::") and "{closure" not in b.path
             and any(t.callee.endswith("::split_at_mut") for _, t in b.calls())
             and any("bytemuck::" in t.callee and "cast_slice" in t.callee for _, t in b.calls())]
    al = chk.anchor("C02-e", "the carver of the scratch-memory module (alloc_slice)",
                    cands[0] if len(cands) == 1 else facts.body("skrifa::outline::glyf::memory::alloc_slice"))
    sp = [(bb, t) for bb, t in al.calls() if t.callee.endswith("::split_at_mut")]
    chk.anchor("C02-e", "split_at_mut in alloc_slice", sp)
    for bb, t in sp:
        mid = strip_casts(expr_of(al, t.args[1]))
        buf_root = al.root_place(op_place(t.args[0]))
        ok = False
        for g in branch_guards(al, bb):
            c = g.cond
            if c[0] == "bin" and c[1] in ("Gt", "Le"):
                lhs, rhs = strip_casts(c[2]), strip_casts(c[3])
                if lhs == mid and rhs[0] == "call" and rhs[1].endswith("::len"):
                    # the len is of the very slice being split
                    arg = rhs[2][0]
                    while arg[0] in ("ref",):
                        arg = arg[1]
                    same = show(al, arg).replace("&", "").replace("(*", "").replace(")", "") == show(al, strip_casts(expr_of(al, t.args[0]))).replace("&", "").replace("(*", "").replace(")", "")
                    if same and ((c[1] == "Gt" and g.taken_val == 0) or (c[1] == "Le" and g.taken_val != 0)):
                        ok = True
        chk.ob("C02-e", "alloc_slice: split_at_mut(len) dominated by `len_in_bytes > buf.len()` == false on the same buffer", ok,
               key="alloc_slice|split", file=al.file, line=t.line, fn=al.path,
               detail="the length test must be made on the buffer that is actually split (after alignment padding was skipped)")


def run_ift(chk, facts, cfg):
    # ---- C02-g -----------------------------------------------------------------------------------
    chk.rule("C02-g", "IFT decode discipline: every decode result is propagated; its cap argument derives from the patch's "
                      "max_uncompressed_length(); the sparse-bit-set height guard dominates node decoding")
    DECODE = "shared_brotli_patch_decoder::SharedBrotliDecoder::decode"
    n = 0
    for b in facts.all_bodies(IFT):
        for bb, t in b.calls():
            if t.callee == DECODE:
                n += 1
                fate = result_fate(b, bb)
                cap = calls_in_expr(expr_of(b, t.args[3]))
                ok = fate <= {"propagated", "returned"} and any(c.endswith("::max_uncompressed_length") for c in cap)
                chk.ob("C02-g", f"{b.path.split('::')[-1]} line {t.line}: decode -> {sorted(fate)}, cap from {[c.split('::')[-1] for c in cap]}", ok,
                       key=f"decode|{b.path}|{t.line - b.lo > 0}", file=b.file, line=t.line, fn=b.path,
                       detail="the decoder's output cap must be the patch's own max_uncompressed_length and failures must propagate")
    chk.floor("C02-g", "decode call sites", n, 3)
    if "read_fonts" in facts.crates:
        fs = facts.find_bodies(r"sparse_bit_set::<impl read_fonts::collections::int_set::IntSet<u32>>::from_sparse_bit_set_bounded$", "read_fonts")
        chk.anchor("C02-g", "IntSet::from_sparse_bit_set_bounded", fs)
        b = fs[0]
        nodes = [(bb, t) for bb, t in b.calls() if t.callee.endswith("::decode_sparse_bit_set_nodes")]
        okc = 0
        for bb, t in nodes:
            for g in branch_guards(b, bb):
                s = g.cond_str()
                if "max_height" in s and g.cond[0] == "bin" and g.cond[1] in ("Gt", "Ge") and g.taken_val == 0:
                    okc += 1
                    break
        chk.ob("C02-g", f"{okc}/{len(nodes)} decode_sparse_bit_set_nodes calls dominated by `height > max_height()` == false", okc == len(nodes) and okc >= 4,
               key="sbs|height", file=b.file, line=b.lo, fn=b.path, detail="without the height guard the node count computation overflows")


def census(chk, facts, cfg):
    chk.rule("C02-f", "explicit-panic census: unwrap/expect/panic!/assert! sites in skrifa and IFT equal the confirmed inventory")
    conf = json.load(open(os.path.join(VERIF, "rules", "confirmed_panics_client.json")))
    total = 0
    for c in (SK, IFT, "shared_brotli_patch_decoder"):
        if c not in facts.crates:
            continue
        inv, where = {}, {}
        for b in facts.all_bodies(c):
            for bb, t in b.calls():
                k = panic_kind(t.callee)
                if k in ("unwrap", "panic"):
                    inv.setdefault(b.path, {}).setdefault(k, 0)
                    inv[b.path][k] += 1
                    where.setdefault((b.path, k), (b.file, t.line))
        from ..zone import inventory_slack, draw_slack
        slack = inventory_slack({q: e for q, e in conf.items() if q.startswith(c + "::") or q.startswith("<" + c + "::")}, inv)
        for p, counts in sorted(inv.items()):
            for k, n in counts.items():
                total += n
                allowed = conf.get(p, {}).get("counts", {}).get(k, 0)
                if n > allowed and draw_slack(slack, p, k, n - allowed):
                    allowed = n      # the confirmed function was renamed / moved inside its module
                f_, l_ = where[(p, k)]
                chk.ob("C02-f", f"{p}: {n} {k} site(s)", n <= allowed, why=conf.get(p, {}).get("reason"), key=f"panic|{p}|{k}",
                       file=f_, line=l_, fn=p,
                       detail=f"{n} explicit `{k}` site(s) but {allowed} confirmed: these crates document that they never panic; a new "
                              f"unwrap/expect/panic! must be justified (rules/confirmed_panics_client.json)")
    if cfg == "union":
        chk.floor("C02-f", "explicit panic sites enumerated", total, 30)
