"""placeholder replaced below"""
def run_scope(chk, rid, scope):
    pass
