"""T-REC — every cycle of the instance-level call graph matches a bounded-recursion idiom.

Recognisers (enumerated from the tree, DESIGN.md §3):
  R-a  depth parameter threaded through the cycle, entry guard against a constant, +c on some edge of every cycle
  R-b  depth field of self: guard against a constant, +/-1 step dominating the in-cycle call, no other writers
  R-c  bool flag parameter: the in-cycle call sits under a test of the flag and passes the opposite literal
  R-d  const-generic instance: the self call passes a different constant under an equality test on the parameter
  R-f  dyn forwarders: every in-cycle edge is a virtual (trait-object) call and every function in the cycle is loop-free
  R-g  memoised evaluation over strictly prior indices (IFT EntryIntersectionCache, found by shape), with its three side conditions
"""
import itertools
import sys
import re

from ..facts import Facts
from ..callgraph import CallGraph
from ..mir import op_place, op_const
from ..recur import _cmp_guards, depth_param_guard, INT_TYS
from ..sym import expr_of, strip_casts, is_param_plus_const, show, rvalue_expr
from ..guards import branch_guards, adt_aggregates

SCOPES = {
    "read": ("read_fonts::", "font_types::", "<read_fonts::", "<font_types::"),
    "client": ("skrifa::", "incremental_font_transfer::", "shared_brotli_patch_decoder::", "read_fonts::", "font_types::"),
    "ift": ("incremental_font_transfer::", "shared_brotli_patch_decoder::"),
    "skrifa": ("skrifa::",),
    "color": ("skrifa::color::", "skrifa::decycler::", "read_fonts::tables::colr::", "<skrifa::color::"),
}
LIMIT_MAX = 1024

_cache = {}


def graph_for(cfg):
    if cfg not in _cache:
        facts = Facts(cfg)
        _cache[cfg] = (facts, CallGraph(facts))
    return _cache[cfg]


def in_scope(path, prefixes):
    p = path.lstrip("<")
    if any(p.startswith(x.lstrip("<")) for x in prefixes):
        return True
    # trait impls: `<Type as Trait>::m` — in scope when the self type or trait is
    m = re.match(r"^<(.*?) as (.*)>::", path)
    if m:
        return any(m.group(1).lstrip("&").startswith(x.lstrip("<")) or m.group(2).startswith(x.lstrip("<")) for x in prefixes)
    return False


class Scc:
    def __init__(self, facts, g, comps):
        self.facts = facts
        self.g = g
        self.nodes = sorted(set(itertools.chain.from_iterable(comps)))
        self.paths = sorted(set(g.nodes[i]["path"] for i in self.nodes))
        self.bodies = {p: facts.body(p) for p in self.paths if facts.body(p) is not None}
        nodeset = set(self.nodes)
        # def-level edges with kinds and lines
        self.edges = []  # (src_path, dst_path, kind, line)
        for i in self.nodes:
            for j, infos in g.succ[i].items():
                if j in nodeset:
                    for kind, line, c in infos:
                        self.edges.append((g.nodes[i]["path"], g.nodes[j]["path"], kind, line))
        self.edges = sorted(set(self.edges))

    def call_terms(self, src, dst, line):
        """call terminators in src's body at `line` that can be the edge to dst (by method name)"""
        b = self.bodies.get(src)
        if b is None:
            return []
        name = dst.split("::")[-1]
        out = []
        for bb, t in b.calls():
            if t.line == line and (t.callee == dst or t.callee.split("::")[-1] == name):
                out.append((bb, t))
        return out

    def in_cycle_calls(self, src):
        out = []
        for s, d, kind, line in self.edges:
            if s == src:
                for bb, t in self.call_terms(s, d, line):
                    out.append((d, kind, bb, t))
        return out

    def def_succ(self):
        m = {p: set() for p in self.paths}
        for s, d, kind, line in self.edges:
            m[s].add(d)
        return m


def acyclic(succ, removed=()):
    nodes = [n for n in succ if n not in removed]
    color = {}

    def dfs(n):
        color[n] = 1
        for m in succ[n]:
            if m in removed:
                continue
            if color.get(m) == 1:
                return False
            if m not in color and not dfs(m):
                return False
        color[n] = 2
        return True
    return all(dfs(n) for n in nodes if n not in color)


# ---- R-a ---------------------------------------------------------------------------------------
def try_ra(scc):
    bodies = scc.bodies
    if set(bodies) != set(scc.paths):
        return None
    cands = {}
    for p, b in bodies.items():
        cs = [i for i in range(1, b.argc + 1) if b.local_ty(i) in INT_TYS and not b.defs().get(i)]
        if not cs:
            return None
        cands[p] = cs
    paths = list(bodies)
    total = 1
    for p in paths:
        total *= len(cands[p])
    if total > 256:
        return None
    calls = {p: scc.in_cycle_calls(p) for p in paths}
    if any(not calls[p] for p in paths):
        return None
    for assign in itertools.product(*[cands[p] for p in paths]):
        A = dict(zip(paths, assign))
        zero = {p: set() for p in paths}
        ok = True
        ninc = 0
        for p in paths:
            b = bodies[p]
            for d, kind, bb, t in calls[p]:
                ai = A[d] - 1
                if ai >= len(t.args):
                    ok = False
                    break
                e = strip_casts(expr_of(b, t.args[ai]))
                if e == ("param", A[p]):
                    zero[p].add(d)
                elif is_param_plus_const(e, A[p]) is not None:
                    ninc += 1
                else:
                    ok = False
                    break
            if not ok:
                break
        if not ok or not acyclic(zero):
            continue
        guards = {}
        for p in paths:
            b = bodies[p]
            gs = [g for g in depth_param_guard(b, [bb for _, _, bb, _ in calls[p]], LIMIT_MAX) if g[0] == A[p]]
            if gs:
                guards[p] = gs[0]
        if not guards:
            continue
        if not acyclic(scc.def_succ(), removed=set(guards)):
            continue
        desc = "; ".join(f"{p.split('::')[-1]}: `{bodies[p].local_name(A[p])}` < {guards[p][1]}" for p in guards)
        return f"R-a depth parameter ({desc}); {ninc} incrementing call site(s), {sum(len(v) for v in zero.values())} pass-through"
    return None


# ---- R-b ---------------------------------------------------------------------------------------
def _self_field(e):
    """('proj', ('param',1), ('*', ('f', idx, name))) -> name"""
    e = strip_casts(e)
    if e[0] == "proj" and e[1] == ("param", 1) and len(e[2]) == 2 and e[2][0] == "*" and e[2][1][0] == "f":
        return e[2][1][2]
    return None


def try_rb(scc, facts):
    succ = scc.def_succ()
    for p, b in scc.bodies.items():
        if b.argc < 1 or not b.local_ty(1).startswith("&mut "):
            continue
        calls = scc.in_cycle_calls(p)
        if not calls:
            continue
        call_bbs = [bb for _, _, bb, _ in calls]
        if not acyclic(succ, removed={p}):
            continue
        for gbb, op, a, c, t_true, t_false in _cmp_guards(b):
            fld = _self_field(a)
            if fld is None or c[0] != "const" or c[2] is None:
                continue
            k = c[2]
            if op in ("Eq", "Ge", "Gt"):
                bail, cont = t_true, t_false
            elif op in ("Ne", "Lt"):
                bail, cont = t_false, t_true
            else:
                continue
            if any(cb in b.reachable_from(bail) for cb in call_bbs):
                continue
            if not all(b.dominates(gbb, cb) for cb in call_bbs):
                continue
            # step statements on the same field
            steps = []
            for bb, j, st in b.stmts():
                if st[0] == "A" and st[1][0] == 1 and len(st[1][1]) == 2 and st[1][1][0] == "*" and st[1][1][1][0] == "f" and st[1][1][1][2] == fld:
                    e = strip_casts(rvalue_expr(b, st[2], 0))
                    if e[0] == "bin" and e[1] in ("Add", "Sub") and _self_field(e[2]) == fld and strip_casts(e[3])[0] == "const":
                        steps.append((bb, e[1], strip_casts(e[3])[2]))
                    else:
                        steps.append((bb, "other", None))
            if any(s[1] == "other" for s in steps):
                continue
            pre = [s for s in steps if all(b.dominates(s[0], cb) for cb in call_bbs) and b.dominates(gbb, s[0])]
            if not pre:
                continue
            direction = pre[0][1]
            up = direction == "Add"
            if up and not (op in ("Eq", "Ge", "Gt") and k <= LIMIT_MAX):
                continue
            if (not up) and not (op == "Eq" and k == 0 or op in ("Ne",) and k == 0):
                continue
            if op in ("Eq", "Ne") and pre[0][2] != 1:
                continue
            # no other function of the cycle writes the field
            other_writers = []
            for q, qb in scc.bodies.items():
                if q == p:
                    continue
                for bb, j, st in qb.stmts():
                    if st[0] == "A" and st[1][1] and any(isinstance(x, list) and x[0] == "f" and x[2] == fld for x in st[1][1]) \
                            and qb.local_ty(st[1][0]) == b.local_ty(1):
                        other_writers.append(q)
            if other_writers:
                continue
            init = ""
            if not up:
                # count-down: every construction of the struct initialises the field with a small constant
                sty = b.local_ty(1)[len("&mut "):]
                adt_path = re.sub(r"<.*$", "", sty)
                inits = []
                for ob in facts.all_bodies(b.crate):
                    for bb2, adt, variant, ops, st in adt_aggregates(ob, range(len(ob.blocks))):
                        if adt == adt_path:
                            rec = [r for r in facts.records("adt", b.crate) if r["path"] == adt_path]
                            if not rec:
                                return None
                            names = [f[0] for f in rec[0]["variants"][0][1]]
                            if fld not in names:
                                return None
                            e = strip_casts(expr_of(ob, ops[names.index(fld)]))
                            inits.append(e[2] if e[0] == "const" else None)
                if not inits or any(v is None or v > LIMIT_MAX for v in inits):
                    continue
                init = f", initialised to {sorted(set(inits))} at {len(inits)} construction site(s)"
            return (f"R-b depth field `self.{fld}` in {p.split('::')[-1]}: guard `{op} {k}` at line {b.blocks[gbb].term.line}, "
                    f"step {direction} {pre[0][2]} dominates {len(call_bbs)} in-cycle call(s){init}")
    return None


# ---- R-c ---------------------------------------------------------------------------------------
def try_rc(scc):
    if len(scc.paths) != 1:
        return None
    p = scc.paths[0]
    b = scc.bodies.get(p)
    if b is None:
        return None
    calls = scc.in_cycle_calls(p)
    if not calls:
        return None
    flags = [i for i in range(1, b.argc + 1) if b.local_ty(i) == "bool" and not b.defs().get(i)]
    for f in flags:
        ok = True
        for d, kind, bb, t in calls:
            # dominated by a switch on the flag
            val_needed = None
            for g in branch_guards(b, bb):
                c = g.cond
                neg = False
                while c[0] == "un" and c[1] == "Not":
                    c = c[2]
                    neg = not neg
                if c == ("param", f):
                    # taken_val is the switch value leading to the call: 0 => flag false (after negation handling)
                    tv = g.taken_val
                    truth = (tv != 0) if tv != "otherwise" else True
                    if tv == "otherwise":
                        truth = True
                    if neg:
                        truth = not truth
                    val_needed = truth
            if val_needed is None:
                ok = False
                break
            e = strip_casts(expr_of(b, t.args[f - 1]))
            if not (e[0] == "const" and e[2] is not None and bool(e[2]) != val_needed):
                ok = False
                break
        if ok:
            return f"R-c flag `{b.local_name(f)}`: {len(calls)} recursive call(s) sit under a test of the flag and pass the opposite literal"
    return None


# ---- R-d ---------------------------------------------------------------------------------------
def try_rd(scc):
    if len(scc.paths) != 1:
        return None
    p = scc.paths[0]
    b = scc.bodies.get(p)
    if b is None:
        return None
    consts = [g[0] for g in b.d["generics"] if g[1] == "const"]
    if not consts:
        return None
    calls = [(bb, t) for bb, t in b.calls() if t.callee == p]
    if not calls:
        return None
    for bb, t in calls:
        m = re.match(r"^\[(\d+)_\w+\]$", t.d["cargs"])
        if not m:
            return None
        k2 = int(m.group(1))
        ok = False
        for g in branch_guards(b, bb):
            c = g.cond
            if c[0] == "bin" and c[1] == "Eq" and g.taken_val != 0:
                x, y = strip_casts(c[2]), strip_casts(c[3])
                for u, v in ((x, y), (y, x)):
                    if u[0] == "const" and u[2] is None and len(u) > 3 and u[3] in consts and v[0] == "const" and v[2] is not None and v[2] != k2:
                        ok = True
        if not ok:
            return None
    return f"R-d const instance: {len(calls)} self call(s) pass a constant generic argument different from the one tested on the path"


# ---- R-f ---------------------------------------------------------------------------------------
def has_loop(b):
    # a back edge exists iff some block can reach itself
    for i in range(len(b.blocks)):
        if b.blocks[i].cleanup:
            continue
        for s in b.succ(i):
            if i in b.reachable_from(s):
                return True
    return False


def try_rf(scc):
    if not scc.edges:
        return None
    if not all(kind in ("virtual", "virtual-default") or (kind == "call" and False) for _, _, kind, _ in scc.edges):
        # allow static calls only from a default trait method back into the impl of the same object (self.fill -> fill_glyph)
        dyn = [e for e in scc.edges if e[2] in ("virtual", "virtual-default")]
        if not dyn:
            return None
        succ = {p: set() for p in scc.paths}
        for s, d, kind, line in scc.edges:
            if kind not in ("virtual", "virtual-default"):
                succ[s].add(d)
        if not acyclic(succ):
            return None
    for p, b in scc.bodies.items():
        calls = scc.in_cycle_calls(p)
        for d, kind, bb, t in calls:
            # the in-cycle call must not sit in a loop of this function
            if bb in set().union(*[b.reachable_from(s) for s in b.succ(bb)]) if b.succ(bb) else False:
                return None
    return (f"R-f dyn forwarders: every cycle passes a trait-object call and no in-cycle call sits in a loop "
            f"({len(scc.paths)} defs, {len(scc.edges)} edges); depth = nesting of the trait objects, which the callers build "
            f"one level per frame of an already bounded recursion")


# ---- R-g (IFT) ---------------------------------------------------------------------------------
# Everything is found by shape and type, not by (private) name: the memo type is "the type whose methods form the cycle", the
# memo method "the member that looks a key up in a HashMap before it calls into the cycle and inserts afterwards", the driver
# "its only caller outside the cycle", the child field "the Vec<key> field of the element type of the memo's slice".
IFTC = "incremental_font_transfer"


def _rg_fail(n):
    """which side condition of R-g failed (FV_DEBUG_RG=1 prints it); the caller only sees "not recognised"""
    import os
    if os.environ.get("FV_DEBUG_RG"):
        print(f"[fv] R-g: side condition #{n} does not hold", file=sys.stderr)
    return None


def _rg_owner(p):
    return re.sub(r"(::\{closure#\d+\})+$", "", p).rsplit("::", 1)[0]


def _adt_fields(facts, path):
    for r in facts.records("adt", IFTC):
        if r.get("path") == path and r.get("variants"):
            return r["variants"][0][1]
    return None


def _len_of_entries(c, epath):
    """`c` is `<Vec<E> or [E]>::len(..)` for the entry type E"""
    return (c[0] == "call" and c[1].endswith("::len") and len(calls_of(c)) == 1 and len(c) > 4 and c[4]
            and epath in str(c[4][0]))


def _guarded_store(facts, dec, sbb, epath):
    """a test `i >= entries.len() -> Err`, made for every index, precedes the store at block `sbb` of `dec`"""
    for gbb, op, a, c, t_true, t_false in _cmp_guards(dec):
        if op == "Ge":
            bail, cont = t_true, t_false
        elif op == "Lt":
            bail, cont = t_false, t_true
        else:
            continue
        c = strip_casts(c)
        # the bound is exactly entries.len() (the number of entries decoded so far)
        if not _len_of_entries(c, epath):
            continue
        if sbb in dec.reachable_from(bail):
            continue  # the failing edge must leave without storing
        # the guard sits in a loop that precedes the store
        if gbb in dec.reachable_from(cont) and sbb in dec.reachable_from(gbb) and gbb not in dec.reachable_from(sbb):
            return "`i >= entries.len()` -> Err is tested in a loop before the child indices are stored"
    # the same test as a predicate closure: `if it.any(|i| i >= max) { return Err }` / `if !it.all(|i| i < max) { return Err }`
    # with `max` captured from entries.len(); the adaptor visits every index (it stops only to bail)
    for cbb, t in dec.calls():
        kind = t.callee.rsplit("::", 1)[-1]
        if not (t.callee.startswith("core::iter::traits::iterator::Iterator::") and kind in ("any", "all") and len(t.args) == 2):
            continue
        if not (sbb in dec.reachable_from(cbb) and cbb not in dec.reachable_from(sbb)):
            continue
        ce = strip_casts(expr_of(dec, t.args[1]))
        if not (ce[0] == "agg" and ce[1][0] == "closure" and len(ce[2]) == 1):
            continue
        cap = strip_casts(ce[2][0])
        if cap[0] == "ref":
            cap = strip_casts(cap[1])
        if not _len_of_entries(cap, epath):
            continue
        clo = facts.body(ce[1][1], _fuzzy=False)
        if clo is None or len(clo.return_blocks()) != 1 or len(clo.blocks) != 1:
            continue
        re_ = strip_casts(expr_of(clo, ["m", [0, []]]))
        if not (re_[0] == "bin" and re_[2] == ("param", 2) and re_[3][0] == "proj" and re_[3][1] == ("param", 1)
                and [x for x in re_[3][2] if x != "*"] and all(x == "*" or (isinstance(x, tuple) and x[0] == "f" and x[1] == 0) for x in re_[3][2])):
            continue
        if (kind, re_[1]) not in (("any", "Ge"), ("all", "Lt")):
            continue
        nb = t.targets[0] if t.targets else None
        sw = dec.blocks[nb].term if nb is not None else None
        if sw is None or sw.kind != "switch" or len(sw.d[2]) != 1 or str(sw.d[2][0][0]) != "0":
            continue
        on_false, on_true = sw.d[2][0][1], sw.d[3]
        bail, cont = (on_true, on_false) if kind == "any" else (on_false, on_true)
        if sbb in dec.reachable_from(bail) or sbb not in dec.reachable_from(cont):
            continue
        return (f"`{kind}(|i| i {'>=' if kind == 'any' else '<'} entries.len())` decides for every index whether to leave with Err "
                f"before the child indices are stored")
    # the same test extracted into a helper: a call that precedes the store, receives `entries.len()` as an argument and
    # whose callee rejects (in a loop) every value >= that parameter; its Err is propagated (the store is not reachable
    # from the call's failing side because `?` returns)
    for cbb, t in dec.calls():
        hb = facts.body(t.callee, _fuzzy=False)
        if hb is None or hb.crate != dec.crate:
            continue
        if not (sbb in dec.reachable_from(cbb) and cbb not in dec.reachable_from(sbb)):
            continue
        for k, a in enumerate(t.args):
            e = strip_casts(expr_of(dec, a))
            if not _len_of_entries(e, epath):
                continue
            for gbb, op, a2, c2, t_true, t_false in _cmp_guards(hb):
                if op == "Ge":
                    bail, cont = t_true, t_false
                elif op == "Lt":
                    bail, cont = t_false, t_true
                else:
                    continue
                c2 = strip_casts(c2)
                if c2 != ("param", k + 1):
                    continue
                # the failing edge returns Err, the passing edge loops
                bail_rets = [rb for rb in hb.return_blocks() if rb in hb.reachable_from(bail)]
                if gbb in hb.reachable_from(cont) and bail_rets and gbb not in hb.reachable_from(bail):
                    return ("a helper called before the child indices are stored rejects, in a loop, every index >= its "
                            "parameter, which receives entries.len()")
    return None


def try_rg(scc, facts):
    owners = {_rg_owner(p) for p in scc.paths}
    if len(owners) != 1:
        return _rg_fail(1)
    own = owners.pop()
    if not own.startswith(IFTC + "::"):
        return _rg_fail(2)
    memo_adt = re.sub(r"::<.*>$", "", own)
    mfields = _adt_fields(facts, memo_adt)
    if not mfields:
        return _rg_fail(3)
    # the memo's HashMap<K, _> and its slice of entries
    ktys = [m.group(1) for _, ty, _ in mfields for m in [re.match(r"std::collections::hash::map::HashMap<(\w+), ", ty)] if m]
    etys = [m.group(1) for _, ty, _ in mfields for m in [re.match(r"&(?:'\w+ )?\[(.+)\]$", ty)] if m]
    if len(ktys) != 1 or len(etys) != 1:
        return _rg_fail(4)
    kty, epath = ktys[0], etys[0]
    why = []
    # (1) memo: cache.get hit returns before compute; cache.insert follows compute on every path to return
    ib = comps = gets = ins = None
    for p_, b_ in scc.bodies.items():
        g_ = [(bb, t) for bb, t in b_.calls() if t.callee.endswith("HashMap::<K, V, S, A>::get")]
        i_ = [(bb, t) for bb, t in b_.calls() if t.callee.endswith("HashMap::<K, V, S, A>::insert")]
        c_ = [(bb, t) for bb, t in b_.calls() if t.callee in scc.bodies and t.callee != p_]
        if len(g_) == 1 and len(i_) == 1 and len(c_) == 1:
            if ib is not None:
                return _rg_fail(5)
            ib, gets, ins, comps = b_, g_, i_, c_
    if ib is None:
        return _rg_fail(6)
    if not ib.dominates(gets[0][0], comps[0][0]):
        return _rg_fail(7)
    # key of get and insert is the same parameter
    ge = strip_casts(expr_of(ib, gets[0][1].args[1]))
    ie = strip_casts(expr_of(ib, ins[0][1].args[1]))
    gk = ge[1] if ge[0] == "ref" else None
    if gk is not None and gk[0] == "proj" and not gk[2]:
        gk = gk[1]
    if not (gk is not None and gk[0] == "param" and ie == gk):
        return _rg_fail(8)
    # every return reachable from compute passes insert
    rets = [r for r in ib.return_blocks() if r in ib.reachable_from(comps[0][0])]
    if not rets or not all(ib.dominates(ins[0][0], r) or _passes(ib, comps[0][0], r, ins[0][0]) for r in rets):
        return _rg_fail(9)
    mname = ib.path.split("::")[-1]
    why.append(f"{mname}(): the HashMap lookup of the key parameter dominates the call into the cycle and the insert of the same key "
               f"lies on every path from it to return")
    # (2) the only driver evaluates every index in increasing order before any `continue`
    drvs = [ob for ob in facts.all_bodies(IFTC) if ob.path not in scc.bodies and _rg_owner(ob.path) != own
            and any(t.callee == ib.path for _, t in ob.calls())]
    if len(drvs) != 1:
        return _rg_fail(10)
    drv = drvs[0]
    dcalls = [(bb, t) for bb, t in drv.calls() if t.callee == ib.path]
    if len(dcalls) != 1:
        return _rg_fail(11)
    cb, ct = dcalls[0]
    nexts = [(bb, t) for bb, t in drv.calls() if t.callee.endswith("Enumerate<I> as core::iter::traits::iterator::Iterator>::next") and cb in drv.reachable_from(bb)]
    if len(nexts) != 1:
        return _rg_fail(12)
    hb = nexts[0][0]
    # all back edges into the loop header come from blocks dominated by the memo call
    preds = drv.preds()
    loop_preds = [p for p in preds[hb] if p in drv.reachable_from(hb)]
    if not loop_preds or not all(drv.dominates(cb, p) for p in loop_preds):
        return _rg_fail(13)
    # the index argument is the enumerate counter
    s = show(drv, strip_casts(expr_of(drv, ct.args[1])))
    if "next(" not in s or "as Some" not in s or not s.endswith(".0"):
        return _rg_fail(14)
    why.append(f"{drv.path.split('::')[-1]}(): {mname}(order, ..) is evaluated for every enumerate() index before any "
               "`continue` (the call dominates every back edge of the loop)")
    # the memo type is constructed only there
    cons = []
    for ob in facts.all_bodies(IFTC):
        for bb2, adt, variant, ops, st in adt_aggregates(ob, range(len(ob.blocks))):
            if adt == memo_adt:
                cons.append(ob.path)
    if cons != [drv.path]:
        return _rg_fail(15)
    why.append(f"{memo_adt.split('::')[-1]} is constructed only in that function")
    # (3) child indices refer to prior entries only: every store to a Vec<key> field of the entry type is guarded
    efields = _adt_fields(facts, epath)
    if not efields:
        return _rg_fail(16)
    cfields = {n for n, ty, _ in efields if ty == f"alloc::vec::Vec<{kty}>"}
    if not cfields:
        return _rg_fail(17)
    nstores, whys3 = 0, set()
    for ob in facts.all_bodies(IFTC):
        if ob.path in scc.bodies:
            continue
        for bb, j, st in ob.stmts():
            if st[0] == "A" and st[1][1] and st[1][1][-1][0] == "f" and st[1][1][-1][2] in cfields:
                nstores += 1
                w3 = _guarded_store(facts, ob, bb, epath)
                if w3 is None:
                    return _rg_fail(18)
                whys3.add(f"{ob.path.split('::')[-1]}(): {w3}")
    if nstores == 0:
        return _rg_fail(19)
    why.extend(sorted(whys3))
    return "R-g memoised evaluation over strictly prior indices: " + "; ".join(why) + " => recursion depth <= 2"


def calls_of(e):
    from ..guards import calls_in_expr
    return calls_in_expr(e)


def _passes(b, start, end, via):
    """every path start->end passes `via` (via dominates end when start is made the entry): remove via and test reachability"""
    seen = {start}
    st = [start]
    while st:
        x = st.pop()
        if x == via:
            continue
        if x == end:
            return False
        for s in b.succ(x):
            if s not in seen:
                seen.add(s)
                st.append(s)
    return True


def _preds_closure(b, bb):
    return b.preds()[bb]


# ---- driver ------------------------------------------------------------------------------------
def classify(scc, facts):
    for fn in (try_ra, lambda s: try_rb(s, facts), try_rc, try_rd, lambda s: try_rg(s, facts), try_rf):
        try:
            r = fn(scc)
        except Exception as e:  # a recogniser that crashes recognises nothing
            r = None
        if r:
            return r
    return None


def run_scope(chk, rid, scope, configs=None, floor=None):
    chk.rule(rid, "T-REC: every cycle of the instance-level call graph (resolved callees, CHA for trait objects, closures "
                  "attached to their creator) touching this scope matches a bounded-recursion idiom (R-a..R-g)")
    configs = configs or (["union"] if chk.tier == "quick" else ["union", "allfeat"])
    total = 0
    for cfg in configs:
        facts, g = graph_for(cfg)
        prefixes = SCOPES[scope]
        groups = {}
        for comp in g.sccs():
            paths = tuple(sorted(set(g.nodes[i]["path"] for i in comp)))
            if not any(in_scope(p, prefixes) for p in paths):
                continue
            groups.setdefault(paths, []).append(comp)
        chk.stats[f"{rid}:{cfg}:instances"] = len(g.nodes)
        chk.stats[f"{rid}:{cfg}:edges"] = sum(len(s) for s in g.succ)
        chk.stats[f"{rid}:{cfg}:cyclic_def_groups_in_scope"] = len(groups)
        for paths, comps in sorted(groups.items()):
            scc = Scc(facts, g, comps)
            why = classify(scc, facts)
            total += 1
            head = paths[0] if len(paths) == 1 else f"{paths[0]} (+{len(paths) - 1} more)"
            b0 = scc.bodies.get(paths[0])
            key = "cycle|" + "|".join(p for p in paths[:6]) + (f"|+{len(paths) - 6}" if len(paths) > 6 else "")
            chk.ob(rid, f"{head} [{len(comps)} instance group(s)]", why is not None, why=why, key=key,
                   file=b0.file if b0 else None, line=b0.lo if b0 else None, fn=paths[0],
                   detail=f"recursion cycle with no recognised bound: {list(paths)[:8]}; in-cycle edges: "
                          f"{[(s.split('::')[-1], d.split('::')[-1], k, l) for s, d, k, l in scc.edges[:10]]}")
            if why:
                chk.sample({"cycle": head, "bounded_by": why})
    if floor:
        chk.floor(rid, "cyclic def-groups classified", total, floor)
    chk.assume("A-CB: calls dispatched on an uninstantiated type parameter of a public generic API and callbacks made by "
               "std through its own trait objects get no call-graph edge")
    chk.assume("drop glue is not followed (recursion through Drop of owned trees is outside the claim)")
