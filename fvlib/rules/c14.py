"""C14 — integer sets and the sparse-bit-set codec act as mathematical sets.  Claimed for two structural clauses only
(set algebra over operation histories and codec round-trip are model-equivalence facts and are not decided):

  C14-a  "decoding arbitrary bytes never panics": in every read-fonts function reachable (instance-level call graph)
         from IntSet::<u32>::from_sparse_bit_set / from_sparse_bit_set_bounded
           - every site that panics in every build profile (indexing, slicing, division, Vec::insert ..) is proved safe
             for every input by the interval/relational analysis or carries a confirmed reason (an *untriaged*
             baseline site inside the decoder is a violation here, unlike in C01-h);
           - every explicit unwrap/expect/panic! is in the confirmed inventory of C01-g;
           - no call-graph cycle (the decoder is iterative: a queue, not recursion);
           - the `height > branch_factor.max_height()` rejection dominates every decode_sparse_bit_set_nodes call
             (without it `BF.pow(height)` overflows).
  C14-b  hash / equality agreement: `Hash for IntSet<T>` observes the set only through member observers
         (iter_ranges / iter / len ...), never through the membership mode or the raw pages, and the mixed-mode arms of
         `PartialEq::eq` compare iter_ranges(): two sets with the same members but different modes then hash alike.
"""
import json
import os
import re

from ..callgraph import CallGraph
from ..facts import Facts, VERIF
from ..guards import branch_guards
from ..sym import expr_of, show
from ..zone import panic_kind
from .sites import census, norm_fn, load_baseline, ALWAYS

RF = "read_fonts"
ROOT_RE = re.compile(r"int_set::sparse_bit_set::<impl read_fonts::collections::int_set::IntSet<u32>>::from_sparse_bit_set(_bounded)?$")
OBSERVERS = ("iter_ranges", "iter", "len", "is_empty", "first", "last", "contains", "inclusive_iter", "iter_after")


def run(chk):
    configs = ["union"] if chk.tier == "quick" else ["union", "allfeat"]
    for cfg in configs:
        chk.configs.append(cfg)
        run_config(chk, Facts(cfg), cfg)
    chk.assume("A-CB: calls dispatched on an uninstantiated type parameter get no call-graph edge (the decoder has none)")
    chk.notes.append("Not decided: membership / size / iteration results after operation histories, the mode-case tables of "
                     "union/intersect/subtract, RangeSet merging, encode->decode round trip, equality of the decoded members "
                     "with the specification's algorithm (all value level).  Overflow-checked arithmetic inside the decoder is "
                     "on the C20-f census, not here.")


def run_config(chk, facts, cfg):
    # ---- C14-a -----------------------------------------------------------------------------------
    chk.rule("C14-a", "T-ZONE over the decoder's reachable set: every always-panicking site is proved or confirmed (no untriaged "
                      "site), explicit panics are in the confirmed inventory, no recursion, height guard dominates node decoding")
    g = CallGraph(facts)
    roots = [i for i, n in enumerate(g.nodes) if ROOT_RE.search(n["path"])]
    chk.anchor("C14-a", "IntSet::<u32>::from_sparse_bit_set(_bounded)", roots)
    reach = g.reachable(roots)
    paths = {g.nodes[i]["path"] for i in reach}
    local = {p for p in paths if facts.body(p) is not None and facts.body(p).crate == RF and not facts.body(p).generated}
    chk.floor("C14-a", "read-fonts functions reachable from the decoder", len(local), 15)
    chk.stats[f"C14-a:{cfg}:reachable_instances"] = len(reach)
    normed = {norm_fn(p) for p in local}
    # (1) always-panicking sites
    base = load_baseline().get("C01-h", {})
    sites, n_ok, groups, nfn = census(facts, "C01-h", cfg)
    n_sites = 0
    for s in sites:
        if norm_fn(s["body"].path) not in normed:
            continue
        n_sites += 1
        if s["ok"]:
            chk.ob("C14-a", f"{s['body'].path} line {s['line']}: {s['kind']}", True, why=s["why"])
    for key, ss in sorted(groups.items()):
        fn = key.split("|", 1)[0]
        if fn not in normed:
            continue
        ent = base.get(key) or {}
        ok = ent.get("status") == "confirmed"
        b = ss[0]["body"]
        chk.ob("C14-a", f"{key}: {len(ss)} site(s) at line(s) {sorted(s['line'] for s in ss)}", ok, why=ent.get("reason"),
               key=f"decoder-site|{key}", file=b.file, line=ss[0]["line"], fn=b.path,
               detail="a panic-capable operation reachable from the sparse-bit-set decoder is neither proved safe nor confirmed: "
                      + "; ".join(sorted({s["why"] for s in ss}))[:200])
    chk.floor("C14-a", "always-panicking sites in the decoder's reachable set", n_sites, 4)
    # (2) explicit panics
    conf = json.load(open(os.path.join(VERIF, "rules", "confirmed_panics_read_fonts.json")))
    for p in sorted(local):
        b = facts.body(p)
        cnt = {}
        for bb, t in b.calls():
            k = panic_kind(t.callee)
            if k in ("unwrap", "panic") and not (k == "panic" and "debug_assert" in ((t.macro or "") + (t.outer_macro or ""))):
                cnt[k] = cnt.get(k, 0) + 1
        for k, n in cnt.items():
            allowed = conf.get(p, {}).get("counts", {}).get(k, 0)
            chk.ob("C14-a", f"{p}: {n} explicit {k} site(s)", n <= allowed, why=conf.get(p, {}).get("reason"), key=f"decoder-panic|{p}|{k}",
                   file=b.file, line=b.lo, fn=p, detail=f"{n} explicit `{k}` in the decoder but {allowed} confirmed")
    # (3) no recursion inside the reachable set
    cyc = [comp for comp in g.sccs() if any(i in reach for i in comp) and any(g.nodes[i]["path"] in local for i in comp)]
    chk.ob("C14-a", f"call-graph cycles through the decoder's read-fonts functions: {len(cyc)}", not cyc, key="decoder-cycle",
           detail=str([g.nodes[i]["path"] for i in (cyc[0] if cyc else [])][:4]))
    # (4) height guard
    for r in roots:
        b = facts.body(g.nodes[r]["path"])
        if b is None or not b.path.endswith("from_sparse_bit_set_bounded"):
            continue
        nodes = [(bb, t) for bb, t in b.calls() if "decode_sparse_bit_set_nodes" in t.callee]
        okc = 0
        for bb, t in nodes:
            for gd in branch_guards(b, bb):
                sgd = gd.cond_str()
                if "max_height" in sgd and gd.cond[0] == "bin" and gd.cond[1] in ("Gt", "Ge") and gd.taken_val == 0:
                    okc += 1
                    break
        chk.ob("C14-a", f"{okc}/{len(nodes)} decode_sparse_bit_set_nodes calls dominated by `height > max_height()` == false",
               okc == len(nodes) and okc >= 4, key="decoder-height", file=b.file, line=b.lo, fn=b.path,
               detail="without the height rejection `(BF as u64).pow(exp)` overflows for large heights")

    # ---- C14-b -----------------------------------------------------------------------------------
    chk.rule("C14-b", "T-WHO: Hash for IntSet observes the set only through member observers; the mixed-mode arm of PartialEq::eq "
                      "compares iter_ranges() of both sides")
    hb = chk.anchor("C14-b", "impl Hash for IntSet", facts.one_body(r"^<read_fonts::collections::int_set::IntSet<T> as core::hash::Hash>::hash$", RF))
    calls = [t.callee for _, t in hb.calls()]
    uses_members = any(c.endswith("IntSet::<T>::iter_ranges") or c.endswith("IntSet::<T>::iter") for c in calls)
    # any projection through *self other than passing self on as a receiver reads the representation
    rep_reads = []
    for bb, j, st in hb.stmts():
        if st[0] != "A":
            continue
        rv = st[2]
        pl = None
        if rv[0] in ("ref", "raw"):
            pl = rv[2]
        elif rv[0] == "use" and rv[1][0] in ("c", "m"):
            pl = rv[1][1]
        elif rv[0] == "disc":
            pl = rv[1]
        if pl is not None and hb.root_local(pl if isinstance(pl, list) and pl and isinstance(pl[0], int) else pl) == 1:
            projs = hb.root_place(pl)[1] if isinstance(pl, list) else []
            if any(isinstance(e, list) and e[0] in ("f", "d") for e in projs):
                rep_reads.append(st[3][0])
    bad_calls = [c for c in calls if c.endswith("::is_inverted") or "Membership" in c]
    chk.ob("C14-b", f"Hash::hash reads members through iter_ranges/iter and never the representation (field reads at lines {rep_reads})",
           uses_members and not rep_reads and not bad_calls, key="hash-members", file=hb.file, line=hb.lo, fn=hb.path,
           detail="hashing the membership mode or the raw pages makes two equal sets (same members, different modes) hash differently")
    eb = chk.anchor("C14-b", "impl PartialEq for IntSet", facts.one_body(r"^<read_fonts::collections::int_set::IntSet<T> as core::cmp::PartialEq>::eq$", RF))
    n_ir = sum(1 for _, t in eb.calls() if t.callee.endswith("IntSet::<T>::iter_ranges"))
    chk.ob("C14-b", f"PartialEq::eq calls iter_ranges() {n_ir} times (both sides of the mixed-mode comparison)", n_ir >= 2, key="eq-members",
           file=eb.file, line=eb.lo, fn=eb.path,
           detail="sets with different membership modes must be compared by their effective members")
