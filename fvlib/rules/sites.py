"""Panic-site census ("no new unproven panic-capable site"), shared by C01-h, C02-d and C20-f.

Rule.  In scope S every panic-capable MIR site of the kinds K is
  (i)   discharged by the analysis (interval analysis with guard refinement, dominating guards, dead code), or
  (ii)  tolerated by `rules/site_baseline.json`, which lists, per function and per site signature, how many such
        sites existed on the pinned tree.  An entry is either `confirmed` (read by hand, one reason) or `untriaged`
        (exists today, NOT claimed safe: it is outside what this rule decides), or
  (iii) a known finding (known_findings.json, exact key).
Anything else is a violation: a panic-capable operation on a value the analysis cannot bound was added to code that
handles untrusted font data, or a guard that used to make an existing site provably safe was removed.

The signature is deliberately coarse -- site kind, operator, operand types and constant operands -- and the match is
by multiset count per function, so edits that move, rename or reorder code do not change it; only a *new* unproven
site (or the loss of a proof) does.  The baseline is never written at check time (`./fv baseline` regenerates it).
"""
import json
import os
import re

from ..facts import VERIF
from ..intervals import Intervals
from ..mir import op_const
from ..zone import check_zone

BASELINE = os.path.join(VERIF, "rules", "site_baseline.json")

ALWAYS = ("assert:bounds", "assert:div_zero", "assert:rem_zero", "call:slice-index", "call:slice-op",
          "call:vec-op", "call:refcell", "call:div-call", "call:clamp-call")
ARITH = ("assert:overflow", "assert:overflow_neg", "call:arith-call", "call:debug-assert")
DIVLIKE = ("div_euclid", "rem_euclid", "ilog", "ilog2", "ilog10", "isqrt", "div", "rem", "div_assign", "rem_assign")

CORE_RE = re.compile(r"read-fonts/src/(font_data|read|array|offset|offset_array|table_ref)\.rs$")

LOOPS = ("loop:",)

SCOPES = {
    # rule id -> (crates, kinds, description)
    "C01-j": (("font_types", "read_fonts"), LOOPS,
              "hand-written font-types / read-fonts code: natural loops (termination pacing)"),
    "C02-i": (("skrifa", "incremental_font_transfer", "shared_brotli_patch_decoder"), LOOPS,
              "skrifa / incremental-font-transfer / brotli wrapper: natural loops (termination pacing)"),
    "C01-h": (("font_types", "read_fonts"), ALWAYS,
              "hand-written font-types / read-fonts code: indexing, slicing, split/copy and division sites"),
    "C02-d": (("skrifa", "incremental_font_transfer", "shared_brotli_patch_decoder"), ALWAYS,
              "skrifa / incremental-font-transfer / brotli wrapper: indexing, slicing, split/copy and division sites"),
    "C20-f": (("font_types", "read_fonts", "skrifa", "incremental_font_transfer"), ARITH,
              "font-types / read-fonts / skrifa / incremental-font-transfer: overflow-checked arithmetic, negation, "
              "shifts, abs/pow and debug assertions"),
    # the sfnt container writer: FontBuilder::build is infallible (no error channel), so every site that can panic in it or
    # in the directory arithmetic it calls breaks "for any set of tagged blobs the assembled font opens"
    "C06-i": (("write_fonts",), ALWAYS + ARITH,
              "the sfnt container writer (write-fonts font_builder.rs, util.rs): indexing, slicing, split/copy, division and "
              "overflow-checked arithmetic sites", r"write-fonts/src/(font_builder|util)\.rs$"),
    "C06-j": (("write_fonts",), LOOPS,
              "the sfnt container writer (write-fonts font_builder.rs, util.rs): natural loops (termination pacing)",
              r"write-fonts/src/(font_builder|util)\.rs$"),
}


def scope_of(rid):
    sc = SCOPES[rid]
    return sc[0], sc[1], sc[2], (re.compile(sc[3]) if len(sc) > 3 else None)


def norm_fn(path):
    return re.sub(r"\{closure#\d+\}", "{closure}", path)


def _opsig(body, iv, op):
    if op[0] == "k":
        c = op_const(op)
        return f"{c[1]}{c[0]}" if c and c[1] is not None else f"const:{op[1]}"
    t = iv.op_type(op)
    if t is None:
        p = op[1]
        t = "place"
        # type of a field projection is recorded on the projection element when available
        last = p[1][-1] if p[1] else None
        if isinstance(last, list) and last[0] == "f" and len(last) > 4:
            t = str(last[4])
    return t


def site_sig(site):
    """coarse, edit-stable signature of a site"""
    b, bb = site["body"], site["bb"]
    t = b.blocks[bb].term
    kind = site["kind"]
    if kind.startswith("loop:"):
        return kind
    if t.kind == "assert":
        iv = site["iv"]
        ops = t.d[4]
        return kind + "(" + ",".join(_opsig(b, iv, o) for o in ops) + ")"
    return kind


def classify_kind(site):
    """map zone.py kinds to census kinds"""
    k = site["kind"]
    if k.startswith("loop:"):
        return k
    b, bb = site["body"], site["bb"]
    t = b.blocks[bb].term
    if k.startswith("call:panic") and t.kind == "call" and (("debug_assert" in (t.macro or "")) or ("debug_assert" in (t.outer_macro or ""))):
        return "call:debug-assert"
    return k


USE_ARGSUM = os.environ.get("FV_NO_ARGSUM") is None


def collect(facts, crates, kinds, files=None):
    """-> (sites, n_functions): every site of the requested kinds in hand-written code of `crates` (restricted to the files
    matching `files`, if given)"""
    if kinds == LOOPS:
        from ..loops import collect_loops
        ss, nfn = collect_loops(facts, crates)
        if files is not None:
            ss = [x for x in ss if files.search(x["body"].file)]
            nfn = len({x["body"].path for x in ss})
        return ss, nfn
    from ..intervals import register_adts
    from .. import counters
    from .. import fieldinv
    register_adts(facts)
    counters.register(facts)
    fieldinv.register(facts)
    from .. import retsum
    retsum.register(facts)
    out = []
    nfn = 0
    from .. import argsum, intervals
    asum = argsum.get(facts) if USE_ARGSUM else None
    saved = intervals.PARAM_INFO
    if asum is not None:
        intervals.PARAM_INFO = asum.reg
    try:
        for c in crates:
            if c not in facts.crates:
                continue
            for b in facts.all_bodies(c):
                if b.generated or CORE_RE.search(b.file) or (files is not None and not files.search(b.file)):
                    continue
                nfn += 1
                res = check_zone([b], keep_iv=True, iv_of=asum.iv_of if asum is not None else None)
                for s in res.sites:
                    s["kind"] = classify_kind(s)
                    if not any(s["kind"].startswith(k) for k in kinds):
                        continue
                    if not s["ok"] is False and s.get("iv") is not None and s["iv"].used_param_info:
                        s["why"] = f"{s['why']} [entry facts from {asum.reg[b.path].get('sites')} call site(s)]"
                    out.append(s)
    finally:
        intervals.PARAM_INFO = saved
    return out, nfn


WITNESSES = os.path.join(VERIF, "rules", "site_witnesses.json")


def load_witnesses():
    return json.load(open(WITNESSES)) if os.path.exists(WITNESSES) else {}


def _fn_bodies(facts, rx):
    cache = facts.__dict__.setdefault("_wit_fn_cache", {})
    if rx not in cache:
        r = re.compile(rx)
        cache[rx] = [b for c in facts.crates for b in facts.all_bodies(c) if r.search(norm_fn(b.path))]
    return cache[rx]


REPO_CRATE_RE = re.compile(r"^<?(font_types|read_fonts|skrifa|write_fonts|klippa|incremental_font_transfer|shared_brotli_patch_decoder)::")


def call_sig(b, t):
    """argument and result types of a call: stable under a rename of the callee"""
    atys = t.d.get("atys") or []
    try:
        rty = b.locals[t.dest[0]][0] if not t.dest[1] else "?"
    except Exception:
        rty = "?"
    return ",".join(a.replace(" ", "") for a in atys) + "->" + rty.replace(" ", "")


def _callee_matcher(w, rx_ix):
    """callee test of a call-shaped witness: the recorded name, or -- when the witness carries {"sig": ..} (recorded by
    `./fv witness-sigs`, never by a check) -- any function of the repository with the recorded signature, so that renaming
    a private helper does not void the confirmation while deleting the call does"""
    rx = re.compile(w[rx_ix])
    opts = w[-1] if isinstance(w[-1], dict) else {}
    sig = opts.get("sig")

    def m(b, t):
        if rx.search(t.callee):
            return True
        return bool(sig) and REPO_CRATE_RE.search(t.callee) is not None and call_sig(b, t) == sig
    return m


def eval_witness(facts, w, ss):
    """One structural witness of a `confirmed` reason -> (ok, text).  Forms:
       ["dom_call", callee_rx]            every site is dominated by a block that calls a matching callee
       ["dom_calls", callee_rx, n]        ... by at least n such blocks
       ["dom_call_same_loop", callee_rx]  ... by such a block that lies inside every natural loop containing the site
       ["dom_call_after", callee_rx, after_rx]  ... by such a call that is itself dominated by a call matching after_rx
                                          (a guard evaluated per element: after the loop's `next`)
       ["fn_call", fn_rx, callee_rx]      some function whose path matches fn_rx calls a matching callee
       ["entry_range", fn_rx, local, lo, hi]    the entry facts of the closed function bound parameter _local within [lo, hi]
       ["operand_within", i, lo, hi, n]   the interval analysis bounds operand i of at least n sites of the group in [lo, hi]
       ["arg_within_const_generic", fn_rx, callee_rx, i]  every such call passes argument i within [0, N], N its first const generic
       ["fn_ret_const", fn_rx, value]     some function matching fn_rx assigns the constant to its return place
       ["dom_cmp", [ops], const, edge]    every site is dominated by the `edge` ("true" | "false") successor of a comparison
                                          whose operator is one of ops and one of whose operands is the integer constant
                                          (null: any operands; "$operand": one operand is an operand of the site's own Assert)
                                          -- a guard such as `if n > 64 { return }` (["Gt"], 64, "false")
       ["any", w1, w2, ...]               one of the alternatives holds"""
    kind = w[0]
    if kind == "any":
        rs = [eval_witness(facts, x, ss) for x in w[1:] if isinstance(x, list)]
        return any(r[0] for r in rs), " or ".join(r[1] for r in rs)
    if kind in ("dom_call", "dom_calls", "dom_call_same_loop"):
        match = _callee_matcher(w, 1)
        need = w[2] if kind == "dom_calls" else 1
        same_loop = kind == "dom_call_same_loop"
        txt = (f"every site is dominated by {need} call(s) matching /{w[1]}/" +
               (" made in the same loop iteration (inside every loop the site is in)" if same_loop else ""))
        for s in ss:
            b, sb = s["body"], s.get("bb")
            if sb is None:
                return False, txt + " (site has no block)"
            loops = []
            if same_loop:
                from ..loops import natural_loops
                loops = [body for _, _, body in natural_loops(b) if sb in body]
            n = sum(1 for bb, t in b.calls() if match(b, t) and bb != sb and b.dominates(bb, sb)
                    and all(bb in body for body in loops))
            if n < need:
                return False, txt + f" (line {s['line']}: {n})"
        return True, txt
    if kind == "dom_call_after":
        match, arx = _callee_matcher(w, 1), re.compile(w[2])
        txt = f"every site is dominated by a call matching /{w[1]}/ that is itself dominated by a call matching /{w[2]}/"
        for s in ss:
            b, sb = s["body"], s.get("bb")
            if sb is None:
                return False, txt + " (site has no block)"
            afters = [bb for bb, t in b.calls() if arx.search(t.callee)]
            ok = any(match(b, t) and bb != sb and b.dominates(bb, sb) and
                     any(a != bb and b.dominates(a, bb) for a in afters) for bb, t in b.calls())
            if not ok:
                return False, txt + f" (line {s['line']}: none)"
        return True, txt
    if kind == "entry_range":
        # the entry facts (argsum) of a closed function still bound a parameter: all its call sites establish the range
        from .. import argsum
        a = argsum.get(facts)
        bodies = _fn_bodies(facts, w[1])
        txt = f"every call site of /{w[1]}/ passes argument _{w[2]} within [{w[3]}, {w[4]}]"
        if not bodies:
            return False, txt + " (function not found)"
        for b in bodies:
            a.ensure(b)
            r = (a.reg.get(b.path) or {}).get("ranges", {}).get(w[2])
            if r is None or r[0] < w[3] or r[1] > w[4]:
                return False, txt + f" (established today: {r})"
        return True, txt
    if kind == "operand_within":
        which, lo, hi = w[1], w[2], w[3]
        need = w[4] if len(w) > 4 else 1
        txt = f"the analysis bounds operand {which} of at least {need} of the sites within [{lo}, {hi}]"
        n = 0
        for s in ss:
            m = re.search(r"of \((-?\d+), (-?\d+)\) and \((-?\d+), (-?\d+)\)", s.get("why") or "")
            if m:
                r = (int(m.group(1)), int(m.group(2))) if which == 0 else (int(m.group(3)), int(m.group(4)))
                if lo <= r[0] and r[1] <= hi:
                    n += 1
        return n >= need, txt + f" ({n} today)"
    if kind == "arg_within_const_generic":
        # every call of callee_rx inside functions matching fn_rx passes argument i within [0, N] where N is the call's
        # first const generic argument (e.g. stack_mem::<N, _>(size, ..) only with size <= N)
        from .. import argsum
        a = argsum.get(facts)
        crx = re.compile(w[2])
        txt = f"every call of /{w[2]}/ in /{w[1]}/ passes argument {w[3]} within its const generic bound"
        n = 0
        for b in _fn_bodies(facts, w[1]):
            iv = a.iv_of(b)
            for bb, t in b.calls():
                if not crx.search(t.callee):
                    continue
                n += 1
                cargs = t.d.get("cargs") or ""
                m = re.match(r"^\[?\s*(\d+)_usize\b", cargs if isinstance(cargs, str) else str(cargs[0]) if cargs else "")
                st = iv.state_at_term(bb) if iv is not None else None
                if st is None and iv is not None:
                    continue      # dead call
                r = iv.rng(st, t.args[w[3]]) if (iv is not None and w[3] < len(t.args)) else None
                if m is None or r is None or r[0] < 0 or r[1] > int(m.group(1)):
                    return False, txt + f" (line {t.line}: argument in {r}, const generic args {str(cargs)[:24]})"
        return n > 0, txt + f" ({n} call(s))"
    if kind == "fn_call":
        match = _callee_matcher(w, 2)
        bodies = _fn_bodies(facts, w[1])
        ok = any(match(b, t) for b in bodies for _, t in b.calls())
        return ok, f"a function matching /{w[1]}/ ({len(bodies)} found) calls /{w[2]}/"
    if kind == "dom_cmp":
        from ..recur import _cmp_guards
        from ..sym import strip_casts
        ops, kconst, edge = w[1], w[2], w[3]
        txt = (f"every site is dominated by the {edge} edge of a comparison {'/'.join(ops)}"
               + (f" with the constant {kconst}" if kconst is not None else ""))

        from ..sym import expr_of

        def is_k(e):
            e = strip_casts(e)
            return e[0] == "const" and len(e) > 2 and e[2] == kconst
        for s_ in ss:
            b, sb = s_["body"], s_.get("bb")
            if sb is None:
                return False, txt + " (site has no block)"
            ok = False
            # "$operand": the comparison is about a value the site itself uses (an operand of its Assert)
            site_ops = []
            if kconst == "$operand":
                t_ = b.blocks[sb].term
                if t_.kind == "assert":
                    site_ops = [strip_casts(expr_of(b, o)) for o in t_.d[4]]
            for gbb, op, a, c, t_true, t_false in _cmp_guards(b):
                if op not in ops:
                    continue
                if kconst == "$operand":
                    if not any(strip_casts(x) in site_ops for x in (a, c)):
                        continue
                elif kconst is not None and not (is_k(a) or is_k(c)):
                    continue
                tgt = t_true if edge == "true" else t_false
                other = t_false if edge == "true" else t_true
                if tgt is not None and b.dominates(tgt, sb) and (other is None or sb not in b.reachable_from(other) or b.dominates(tgt, sb)):
                    ok = True
                    break
            if not ok:
                return False, txt + f" (not at line {s_.get('line')})"
        return True, txt
    if kind == "fn_ret_const":
        bodies = _fn_bodies(facts, w[1])
        ok = False
        for b in bodies:
            for _, _, st in b.stmts():
                if st[0] == "A" and st[1][0] == 0 and not st[1][1] and st[2][0] == "use" and st[2][1][0] == "k":
                    kc = op_const(st[2][1])
                    if kc is not None and kc[1] == w[2]:
                        ok = True
        return ok, f"a function matching /{w[1]}/ ({len(bodies)} found) returns the constant {w[2]} on some path"
    return False, f"unknown witness form {w!r}"


def load_baseline():
    if not os.path.exists(BASELINE):
        return {}
    return json.load(open(BASELINE))


def census(facts, rid, cfg):
    crates, kinds, _, files = scope_of(rid)
    sites, nfn = collect(facts, crates, kinds, files)
    groups = {}
    n_ok = 0
    for s in sites:
        if s["ok"]:
            n_ok += 1
            continue
        key = f"{norm_fn(s['body'].path)}|{site_sig(s)}"
        groups.setdefault(key, []).append(s)
    return sites, n_ok, groups, nfn


def run_sites(chk, facts, rid, cfg):
    crates, kinds, what, _files = scope_of(rid)
    if kinds == LOOPS:
        chk.rule(rid, f"T-LOOP census: {what}: every natural loop is paced (each trip advances a finite / caller-supplied / "
                      f"repo-defined iterator, or moves a counter by a constant towards a loop-invariant bound that ends the "
                      f"loop), has no trip that skips every exit test (a path from the loop head back to it through no block "
                      f"that can leave the loop) and no trip that writes nothing any branch in the loop depends on, or tolerated by rules/site_baseline.json (confirmed with a reason, or untriaged = existed on the "
                      f"pinned tree and is not claimed); a new unpaced loop, or a loop that lost its pacing, is a violation")
        chk.assume("A-REPO-ITER: a loop paced by a repo-defined iterator terminates if that iterator is finite; finiteness of the "
                   "sequence is not decided here (its `next` is subject to the progress rule C01-i / C02-h)")
    else:
        chk.rule(rid, f"T-ZONE census: {what}: every site is discharged by interval/guard analysis, or tolerated by "
                      f"rules/site_baseline.json (confirmed with a reason, or untriaged = existed on the pinned tree and is "
                      f"not claimed), or a known finding; a new unproven site is a violation")
    base = load_baseline().get(rid)
    if base is None:
        chk.finding(rid, "anchor|baseline", f"rules/site_baseline.json has no section {rid} (fail closed)")
        return
    sites, n_ok, groups, nfn = census(facts, rid, cfg)
    r = chk.rules[rid]
    # discharged sites: one obligation each
    r["obligations"] += n_ok
    r["discharged"] += n_ok
    shown = 0
    for s in sites:
        if s["ok"] and shown < 12:
            shown += 1
            r["instances"].append(f"{s['body'].path} line {s['line']}: {s['kind']} -- {s['why']}")
    n_conf = n_untri = n_moved = n_wit = 0
    wits = load_witnesses().get(rid, {})

    def allowed_of(ent):
        if ent is None:
            return 0
        n = ent["n"]
        return n.get(cfg, max(n.values()) if n else 0) if isinstance(n, dict) else int(n)
    # allowances of the baseline that the same function does not use on this tree (it was renamed, moved, split, or lost
    # sites): per (file, signature).  A function whose unproven sites exceed its own allowance may draw on them, so that
    # moving code inside a file is not an alarm; a genuinely new site still has nothing to draw on.
    slack = {}
    for key, ent in base.items():
        sig = key.split("|", 1)[1]
        unused = allowed_of(ent) - len(groups.get(key, ()))
        if unused > 0:
            fk = (ent.get("file"), sig)
            slack[fk] = slack.get(fk, 0) + unused
    for key, ss in sorted(groups.items()):
        ent = base.get(key)
        allowed = allowed_of(ent)
        b = ss[0]["body"]
        lines = sorted(s["line"] for s in ss)
        if len(ss) > allowed:
            fk = (b.file, key.split("|", 1)[1])
            need = len(ss) - allowed
            if slack.get(fk, 0) >= need:
                slack[fk] -= need
                n_moved += need
                allowed = len(ss)
        if len(ss) <= allowed:
            ent = ent or {}
            if ent.get("status") == "confirmed":
                n_conf += len(ss)
                for w in wits.get(key, ()):
                    n_wit += 1
                    ok, txt = eval_witness(facts, w, ss)
                    chk.ob(rid, f"confirmed reason of {key[:140]} keeps its witness: {txt}", ok,
                           key=f"witness|{key}|{json.dumps(w)}", file=b.file, line=lines[-1], fn=b.path,
                           detail=(f"the site is tolerated because it was read and confirmed safe for this reason: "
                                   f"{ent.get('reason', '')[:300]} -- the structural fact that reason rests on ({txt}) no "
                                   f"longer holds, so the confirmation is void: the guard was removed or rewritten"))
            else:
                n_untri += len(ss)
            r["obligations"] += len(ss)
            r["discharged"] += len(ss)
            continue
        whys = "; ".join(sorted({s["why"] for s in ss}))[:300]
        extra = ""
        asum0 = getattr(facts, "_argsum", None)
        if asum0 is not None and asum0.closed(b):
            cs = []
            for cp, cbb in asum0.callers.get(b.path, [])[:6]:
                cb = facts.body(cp, _fuzzy=False)
                if cb is not None:
                    cs.append(f"{cb.file}:{cb.blocks[cbb].term.line}")
            extra = (f"; this function is entered only through its direct call site(s) ({', '.join(cs)}), whose argument facts are "
                     f"assumed on entry ({asum0.reg.get(b.path) or 'none established today'}): a caller that no longer establishes "
                     f"a bound or ordering it used to establish makes the site unprovable here")
        chk.ob(rid, f"{key}: {len(ss)} unproven site(s) at line(s) {lines}, baseline tolerates {allowed}", False,
               key=f"site|{key}", file=b.file, line=lines[-1], fn=b.path,
               detail=(f"a loop without a recognised reason to terminate was added, or an existing loop lost its pacing (the "
                       f"step no longer happens on every trip, the bound changes inside the loop, or the iterator is not "
                       f"finite by construction): {whys}" if kinds == LOOPS else
                       f"a panic-capable operation that the analysis cannot prove safe for every input was added to code "
                       f"that handles untrusted data, or a guard that made it provable was removed ({whys}){extra}"))
    if any(s.get("iv") is not None and s["iv"].used_steps_assumption for s in sites):
        from ..intervals import A_STEPS
        chk.assume(A_STEPS)
    chk.stats[f"{rid}:{cfg}:functions"] = nfn
    chk.stats[f"{rid}:{cfg}:sites"] = len(sites)
    chk.stats[f"{rid}:{cfg}:discharged_by_analysis"] = n_ok
    chk.stats[f"{rid}:{cfg}:tolerated_confirmed"] = n_conf
    chk.stats[f"{rid}:{cfg}:confirmed_reason_witnesses_checked"] = n_wit
    chk.stats[f"{rid}:{cfg}:tolerated_untriaged_not_claimed"] = n_untri
    chk.stats[f"{rid}:{cfg}:tolerated_as_moved_within_file"] = n_moved
    asum = getattr(facts, "_argsum", None)
    if asum is not None:
        n_entry = sum(1 for s in sites if s["ok"] and "[entry facts from" in s["why"])
        chk.stats[f"{rid}:{cfg}:closed_functions_summarised"] = asum.stats["closed"]
        chk.stats[f"{rid}:{cfg}:closed_functions_with_entry_facts"] = len(asum.reg)
        chk.stats[f"{rid}:{cfg}:call_sites_evaluated_for_entry_facts"] = asum.stats["callsites"]
        chk.stats[f"{rid}:{cfg}:sites_in_functions_analysed_with_entry_facts"] = n_entry
        chk.assume("A-CLOSED: a function with restricted visibility that is neither a trait item nor ever used as a function "
                   "value is entered only through the direct calls in the analysed crates (test-only callers are not part "
                   "of the build the property is about)")
    return sites, n_ok


def make_baseline():
    """./fv baseline : regenerate rules/site_baseline.json from the current tree (all configurations), keeping the
    status/reason of entries that still exist.  Never called by a check."""
    from ..facts import Facts, CONFIGS
    old = load_baseline()
    rp = os.path.join(VERIF, "rules", "site_reasons.json")
    reasons = json.load(open(rp)) if os.path.exists(rp) else {}
    new = {}
    for cfg in CONFIGS:
        facts = Facts(cfg)
        for rid in SCOPES:
            if not any(c in facts.crates for c in SCOPES[rid][0]):
                continue
            _, _, groups, _ = census(facts, rid, cfg)
            sec = new.setdefault(rid, {})
            for key, ss in groups.items():
                e = sec.setdefault(key, {"n": {}, "status": "untriaged", "file": ss[0]["body"].file})
                e["n"][cfg] = len(ss)
                why = reasons.get(rid, {}).get(key)
                if why:
                    e["status"] = "confirmed"
                    e["reason"] = why
    for rid in new:
        new[rid] = dict(sorted(new[rid].items()))
    with open(BASELINE, "w") as fh:
        json.dump(new, fh, indent=0, sort_keys=False)
        fh.write("\n")
    for rid, rs in reasons.items():
        for key in rs:
            if key not in new.get(rid, {}):
                print(f"note: reason for {rid} {key[:90]} matches no baseline entry (site proved or gone)")
    for rid, sec in new.items():
        print(rid, "entries", len(sec), "sites(union)", sum(e["n"].get("union", 0) for e in sec.values()),
              "confirmed", sum(1 for e in sec.values() if e["status"] == "confirmed"))


def record_witness_sigs():
    """./fv witness-sigs : for every call-shaped witness whose named callee is a function of the repository, record the
    callee's signature next to the name (rules/site_witnesses.json).  Never called by a check."""
    from ..facts import Facts
    facts = Facts("union")
    W = load_witnesses()
    n = 0
    for rid, sec in W.items():
        _, _, groups, _ = census(facts, rid, "union")
        for key, ws in sec.items():
            ss = groups.get(key, [])
            for w in ws:
                if not isinstance(w, list) or w[0] not in ("dom_call", "dom_calls", "dom_call_same_loop", "dom_call_after", "fn_call"):
                    continue
                rx = re.compile(w[2] if w[0] == "fn_call" else w[1])
                bodies = _fn_bodies(facts, w[1]) if w[0] == "fn_call" else [s_["body"] for s_ in ss]
                sigs = {call_sig(b, t) for b in bodies for _, t in b.calls() if rx.search(t.callee) and REPO_CRATE_RE.search(t.callee)}
                if isinstance(w[-1], dict):
                    w.pop()
                if len(sigs) == 1:
                    w.append({"sig": sigs.pop()})
                    n += 1
    with open(WITNESSES, "w") as fh:
        json.dump(W, fh, indent=1)
    print(f"recorded {n} callee signatures")


def run_engine_fixture(chk, rid="engine-fixture"):
    """The analysis that discharges sites is itself checked on every run against a fixture crate: every `bad_*` function
    holds one site that is unsafe for some input and must stay unproven (a trap for an unsound shortcut), every `good_*`
    function holds only safe sites that must be proved.  A failure here means the checker, not /repo, is broken."""
    from ..facts import Facts
    from .. import intervals
    chk.rule(rid, "engine self-check on fixtures/engine: each trap (`bad_*`) keeps an unproven site, each safe idiom (`good_*`) "
                  "is fully proved")
    facts = Facts("fixture:engine", callgraph=False)
    # the whole-crate side analyses run on the fixture too (and are restored afterwards)
    saved = (dict(intervals.FIELD_RANGES), set(intervals.COUNTER_FIELDS), dict(intervals.RET_RANGES), dict(intervals.GETTERS))
    try:
        from .. import counters, fieldinv, retsum
        intervals.GETTERS.clear()
        intervals.GETTERS.update(retsum.getters(facts))
        saved_pr = dict(intervals.PROMOTED_RANGES)
        intervals.PROMOTED_RANGES.clear()
        intervals.PROMOTED_RANGES.update(retsum.promoted_ranges(facts))
        intervals.COUNTER_FIELDS.clear()
        intervals.COUNTER_FIELDS.update(counters.compute(facts))
        intervals.FIELD_RANGES.clear()
        intervals.FIELD_RANGES.update(fieldinv.infer(facts))
        intervals.RET_RANGES.clear()
        _rs = retsum.compute(facts)
        _rs.update(retsum.closed_trait_summaries(facts, _rs))
        intervals.RET_RANGES.update(_rs)
        saved_rf = dict(intervals.RET_FACTS)
        intervals.RET_FACTS.clear()
        intervals.RET_FACTS.update(retsum.ret_facts(facts))
        nb = ng = 0
        from .. import argsum
        asum = argsum.get(facts)
        saved_pi = intervals.PARAM_INFO
        intervals.PARAM_INFO = asum.reg
        for b in facts.all_bodies(facts.crates[0]):
            name = b.path.split("::")[-1]
            if "{closure" in b.path or not (name.startswith("bad_") or name.startswith("good_")):
                continue
            res = check_zone([b], iv_of=asum.iv_of)
            bad = [s for s in res.sites if not s["ok"]]
            if name.startswith("bad_"):
                nb += 1
                chk.ob(rid, f"trap {name}: {len(bad)} unproven of {len(res.sites)} site(s)", len(bad) >= 1, key=f"trap|{name}",
                       file=b.file, line=b.lo, fn=b.path,
                       detail="the interval engine proved a site that is unsafe for some input: the engine is unsound "
                              "(this is a defect of the checker, not of /repo)")
            else:
                ng += 1
                chk.ob(rid, f"idiom {name}: {len(res.sites) - len(bad)} of {len(res.sites)} site(s) proved", not bad and bool(res.sites),
                       key=f"idiom|{name}", file=b.file, line=b.lo, fn=b.path,
                       detail="a standard safe idiom is no longer proved: " + "; ".join(s["why"] for s in bad)[:200])
        chk.floor(rid, "traps", nb, 49)
        chk.floor(rid, "safe idioms", ng, 35)
        # the loop census on its own fixtures
        from ..loops import collect_loops
        lsites, _ = collect_loops(facts, [facts.crates[0]])
        by_fn = {}
        for s in lsites:
            by_fn.setdefault(s["body"].path.split("::")[-1], []).append(s)
        nlb = nlg = 0
        for name, ss in sorted(by_fn.items()):
            # `loop*_exit_*` fixtures exercise the exit-free-trip clause only, the others the pacing classification only
            want = ("loop:exit-free-trip" if name.startswith(("loopbad_exit_", "loopgood_exit_")) else
                    "loop:stutter-trip" if name.startswith(("loopbad_stutter_", "loopgood_stutter_")) else None)
            ss = [s for s in ss if (s["kind"] == want if want else s["kind"] not in ("loop:exit-free-trip", "loop:stutter-trip"))]
            if not ss:
                continue
            if name.startswith("loopbad_"):
                nlb += 1
                chk.ob(rid, f"loop trap {name}: {sum(1 for s in ss if not s['ok'])} unpaced of {len(ss)} loop(s)", any(not s["ok"] for s in ss),
                       key=f"looptrap|{name}", file=ss[0]["body"].file, line=ss[0]["line"], fn=ss[0]["body"].path,
                       detail="the loop census accepted a loop that does not terminate for some input (a defect of the checker)")
            elif name.startswith("loopgood_"):
                nlg += 1
                chk.ob(rid, f"loop idiom {name}: {sum(1 for s in ss if s['ok'])} of {len(ss)} loop(s) paced", all(s["ok"] for s in ss),
                       key=f"loopidiom|{name}", file=ss[0]["body"].file, line=ss[0]["line"], fn=ss[0]["body"].path,
                       detail="a standard terminating loop is no longer recognised: " + "; ".join(s["why"] for s in ss if not s["ok"])[:200])
        chk.floor(rid, "loop traps", nlb, 11)
        chk.floor(rid, "loop idioms", nlg, 10)
    finally:
        if "saved_pi" in locals():
            intervals.PARAM_INFO = saved_pi
        intervals.FIELD_RANGES.clear()
        intervals.FIELD_RANGES.update(saved[0])
        intervals.COUNTER_FIELDS.clear()
        intervals.COUNTER_FIELDS.update(saved[1])
        intervals.RET_RANGES.clear()
        intervals.RET_RANGES.update(saved[2])
        intervals.GETTERS.clear()
        intervals.GETTERS.update(saved[3])
        if "saved_rf" in locals():
            intervals.RET_FACTS.clear()
            intervals.RET_FACTS.update(saved_rf)
        if "saved_pr" in locals():
            intervals.PROMOTED_RANGES.clear()
            intervals.PROMOTED_RANGES.update(saved_pr)
