"""Iterator progress (a structural necessary condition of "terminates in time proportional to the input").

Rule.  For every hand-written `impl Iterator for T` in scope, every CFG path of `next(&mut self)` that returns
`Some(..)` (or a value whose variant is not known statically) passes through a *mutation of `*self`*: a store to a
place behind `self`, or a call that receives `self` or a `&mut` reborrow of (a part of) `*self`.  A `next` that can
return `Some` without changing the iterator's state returns `Some` again on the following call with the same state:
the consumer (`for`, `count`, `collect`, `to_string`) never finishes on that input.

Mutation through interior mutability is not recognised (none of the iterators in scope uses it).
"""
import re

from ..mir import op_place, op_local
from ..typestate import Explorer, ret_class, trace_lines

NEXT_RE = re.compile(r" as core::iter::traits::iterator::Iterator>::next$")


def _derived_from_self(body, l, depth=0, root=1):
    """is pointer local l the parameter `root` (default: self) or a (re)borrow of a place behind it?"""
    if l == root or (isinstance(root, frozenset) and l in root):
        return True
    if depth > 8 or (0 < l <= body.argc):
        return False
    sd = body.single_def(l)
    if sd is None:
        return False
    if hasattr(sd[2], "callee"):
        # a pointer (or Option/Result of one) returned by a call that received a derived `&mut`: `as_mut()`, `unwrap()`,
        # `get_mut(i)`, `iter_mut()` ... hand out access to the same state
        ty = body.locals[l][0]
        if "&mut" not in ty and "IterMut" not in ty:
            return False
        t = sd[2]
        for a, aty in zip(t.args, t.d.get("atys") or []):
            al = op_local(a)
            if al is not None and ("&mut" in aty) and _derived_from_self(body, al, depth + 1, root):
                return True
        return False
    rv = sd[2]
    if rv[0] in ("ref", "raw"):
        if rv[2][1] and rv[2][1][0] == "*":
            return _derived_from_self(body, rv[2][0], depth + 1, root)
        # a borrow of a local closure that captured (a reborrow of) the root: calling it can write through the capture
        sd2 = body.single_def(rv[2][0])
        if sd2 is not None and not hasattr(sd2[2], "callee") and sd2[2][0] == "agg" and sd2[2][1][0] == "closure":
            return any(op_local(o) is not None and _derived_from_self(body, op_local(o), depth + 1, root) for o in sd2[2][2])
        return False
    if rv[0] == "use":
        p = op_place(rv[1])
        if p is None:
            return False
        if not p[1]:
            return _derived_from_self(body, p[0], depth + 1, root)
        # a pointer loaded from behind the root (e.g. a closure's captured `&mut`) or taken out of a derived
        # Option<&mut T>: writes through it change state that is reachable from the root
        return body.locals[l][0].startswith(("&mut", "*mut")) and _derived_from_self(body, p[0], depth + 1, root)
    return False


def _enum_kind(ty):
    if ty.startswith("core::option::Option<"):
        return (1, 0)       # (success variant, failure variant)
    if ty.startswith("core::result::Result<"):
        return (0, 1)
    return None


_summaries = {}


def summary(facts, path, depth=0, root=1):
    """for a function taking a `&mut` in parameter `root`: (writes through it on every success exit, on every failure exit)"""
    key = (path, root)
    if key in _summaries:
        return _summaries[key]
    _summaries[key] = (True, True)     # optimistic for recursion
    b = facts.body(path) if facts is not None else None
    res = None
    roots = root if isinstance(root, frozenset) else frozenset([root])
    if b is not None and depth < 5 and all(b.argc >= r and b.locals[r][0].startswith("&mut") for r in roots):
        exits = []
        try:
            _explore(b, facts, exits, depth + 1, root)
            ok_m = all(e[0] == "M" for e in exits if e[1] != "err")
            err_m = all(e[0] == "M" for e in exits if e[1] == "err")
            res = (ok_m, err_m)
        except Exception:
            res = None
    _summaries[key] = res
    return res


def _explore(body, facts, exits, depth=0, root=1):
    def on_stmt(bb, j, st, state, env, trace):
        if st[0] != "A":
            return None
        pl = st[1]
        if pl[1] and pl[1][0] == "*" and _derived_from_self(body, pl[0], 0, root):
            return "M"
        return None

    def on_call(bb, t, state, env, trace):
        if state == "M":
            return None       # absorbing: nothing more to learn on this path
        hits = []
        for i, (a, ty) in enumerate(zip(t.args, t.d.get("atys") or [])):
            l = op_local(a)
            if l is None:
                continue
            if (ty.startswith("&mut") or ty.startswith("*mut")) and _derived_from_self(body, l, 0, root):
                hits.append(i + 1)
            elif "&mut " in ty and not ty.startswith("{closure@") and _derived_from_self(body, l, 0, root):
                # a value that carries a `&mut` into the iterator's state (`Option<&mut Inner>` from `as_mut()`,
                # handed to `and_then` / `map` / `unwrap`): the callee can write through it
                hits.append(i + 1)
            elif ty.startswith("{closure@"):
                sdc = body.single_def(l)
                if sdc is not None and not hasattr(sdc[2], "callee") and sdc[2][0] == "agg" and sdc[2][1][0] == "closure" and \
                        any(op_local(o) is not None and _derived_from_self(body, op_local(o), 0, root) for o in sdc[2][2]):
                    hits.append(i + 1)
        hit = (hits[0] if len(hits) == 1 else frozenset(hits)) if hits else None
        d = t.dest
        if d[1] and d[1][0] == "*" and _derived_from_self(body, d[0], 0, root):
            return [("M", None)]
        if hit is None:
            return None
        # the callee may leave *self untouched when it fails: fork on the variant of its result
        ek = _enum_kind(body.locals[d[0]][0]) if not d[1] else None
        if ek is None:
            return [("M", None)]
        sm = summary(facts, t.callee, depth, hit) if facts is not None and facts.body(t.callee) is not None else None
        ok_m, err_m = sm if sm is not None else (True, False)
        return [("M" if ok_m else state, {d[0]: ek[0]}), ("M" if err_m else state, {d[0]: ek[1]})]

    def on_exit(bb, state, rv, env, trace):
        exits.append((state, ret_class(body, rv), trace_lines(body, trace)))

    Explorer(body, on_call=on_call, on_stmt=on_stmt, on_exit=on_exit, max_states=60000, absorbing=("M",)).run("C")


def check_next(body, facts=None):
    """-> (ok, message, lines)"""
    if body.argc < 1 or not body.locals[1][0].startswith("&mut"):
        return True, "next does not take &mut self", []
    exits = []
    try:
        _explore(body, facts, exits)
    except Exception as e:   # state space exceeded: fail closed
        return False, f"exploration failed: {e}", []
    bad = [(None, e[2]) for e in exits if e[1] != "err" and e[0] != "M"]
    if bad:
        return False, "a path returns Some(..) without mutating *self", bad[0][1][-12:]
    return True, "every Some-returning path mutates *self", []


def run_iterprog(chk, facts, rid, crates, floor):
    chk.rule(rid, "T-STATE {clean, mutated}: every path of a hand-written Iterator::next that does not return None passes a "
                  "store into *self or a call receiving (a reborrow of) &mut self: an iterator that can yield without changing "
                  "state never terminates")
    n = 0
    for c in crates:
        if c not in facts.crates:
            continue
        for b in facts.all_bodies(c, kinds=("fn",)):
            if b.generated or not NEXT_RE.search(b.path):
                continue
            n += 1
            ok, msg, lines = check_next(b, facts)
            chk.ob(rid, f"{b.path}: {msg}", ok, key=f"next|{b.path}", file=b.file, line=b.lo, fn=b.path,
                   detail=f"{msg}; path through lines {lines}: the same call then yields forever on that state")
    chk.floor(rid, "hand-written Iterator::next bodies", n, floor)
    # closures handed to `core::iter::from_fn` are `next` bodies too: their captured variables are the iterator's state
    nf = 0
    for c in crates:
        if c not in facts.crates:
            continue
        closures = {}
        for b in facts.all_bodies(c, kinds=("closure",)):
            closures.setdefault((b.file, b.lo), []).append(b)
        seen = set()
        for b in facts.all_bodies(c, kinds=("fn", "closure")):
            if b.generated:
                continue
            for bb, t in b.calls():
                if not t.callee.endswith("iter::sources::from_fn::from_fn") and not t.callee.endswith("core::iter::from_fn"):
                    continue
                for aty in (t.d.get("atys") or []):
                    m = re.match(r"^\{closure@([^:]+):(\d+):", aty)
                    if not m:
                        continue
                    for cb in closures.get((m.group(1), int(m.group(2))), []):
                        if cb.path in seen or not cb.locals[1][0].startswith("&mut"):
                            continue
                        seen.add(cb.path)
                        nf += 1
                        ok, msg, lines = check_next(cb, facts)
                        chk.ob(rid, f"from_fn closure {cb.path}: {msg}", ok, key=f"from_fn|{cb.path}", file=cb.file, line=cb.lo, fn=cb.path,
                               detail=f"{msg}; path through lines {lines}: the iterator built by from_fn then yields forever "
                                      f"(a consumer such as count() / collect() never returns)")
    chk.stats[f"{rid}:from_fn_closures"] = nf
    return n
