"""C01 — parsing and traversing untrusted bytes never panics or hangs; observations are a pure function of the bytes.
Claimed in part (structural clauses):

  C01-a  core zone discipline: in font_data/read/array/offset/offset_array/table_ref every arithmetic/bounds Assert is
         discharged by intervals and there is no unwrap/expect/panic/range-index call at all
  C01-b  the single gate: TableRef is constructed only in Cursor::finish (after check_in_bounds(pos)? succeeded) and in
         re-wrappers that reuse an existing TableRef's own data; Cursor.pos is written only from saturating_add
  C01-c  zero-copy layout: every type instantiating read_ref_at / read_array (and the bytemuck casts) has alignment 1;
         every FixedSize record has size == RAW_BYTE_LEN; the unsafe impls in font-types are the confirmed set
  C01-e  recursion through font data is depth guarded (T-REC over read-fonts)
  C01-f  purity: forbid(unsafe_code), no unsafe blocks, no mutable statics, no time/env/random calls, pointer casts only
         feed address differences
  C01-g  explicit panics in hand-written readers: the inventory of unwrap/expect/panic! sites equals the confirmed one
  (C01-d generated reader/marker/getter agreement lives in gencheck, see c04.py)
"""
import json
import os
import re

from ..facts import Facts, VERIF
from ..zone import check_zone, report, panic_kind
from ..guards import branch_guards
from ..sym import expr_of, show, strip_casts
from ..mir import op_place

RF = "read_fonts"
CORE = [r"read-fonts/src/(font_data|read|array|offset|offset_array|table_ref)\.rs$"]
TABLEREF = "read_fonts::table_ref::TableRef"


def run(chk):
    configs = ["union"] if chk.tier == "quick" else ["union", "allfeat", "skrifa_libm"]
    for cfg in configs:
        chk.configs.append(cfg)
        run_config(chk, Facts(cfg), cfg)
    from . import trec
    trec.run_scope(chk, "C01-e", scope="read", floor=8)
    from .c04 import check_readers
    check_readers(chk, "C01-d")
    chk.assume("not decided: the sites and loops that rules/site_baseline.json lists as untriaged, finiteness of repo-defined "
               "iterators, and the linear-time clause (a paced loop inside a paced loop passes) -- see DESIGN.md 9.6 / 9.10")


def run_config(chk, facts, cfg):
    from .sites import run_sites
    run_sites(chk, facts, "C01-h", cfg)
    run_sites(chk, facts, "C01-j", cfg)
    if cfg == "union":
        from .sites import run_engine_fixture
        run_engine_fixture(chk)
    from .iterprog import run_iterprog
    run_iterprog(chk, facts, "C01-i", ("font_types", "read_fonts"), 25 if cfg == "union" else 10)
    # ---- C01-a -----------------------------------------------------------------------------------
    chk.rule("C01-a", "T-ZONE: core reader modules: every Assert discharged by interval analysis; no panicking call "
                      "(unwrap/expect/panic!/range index/copy_from_slice/split_at)")
    bodies = facts.bodies_in_files(RF, CORE)
    flen = facts.body("read_fonts::font_data::FontData::<'a>::len")
    flen_ok = flen is not None and [t.callee for _, t in flen.calls()] == ["core::slice::<impl [T]>::len"] \
        and ".bytes" in show(flen, expr_of(flen, [t for _, t in flen.calls()][0].args[0]))

    def discharge(b, bb, t, iv, st):
        # split_at(slice, mid) dominated by the `mid <= slice.len()` edge of a comparison
        if t.callee.endswith("::split_at") or t.callee.endswith("::split_at_mut"):
            mid = strip_casts(expr_of(b, t.args[1]))
            for g in branch_guards(b, bb):
                c = g.cond
                if c[0] == "bin" and c[1] in ("Gt", "Le"):
                    lhs, rhs = strip_casts(c[2]), strip_casts(c[3])
                    is_len = rhs[0] == "call" and (rhs[1] == "core::slice::<impl [T]>::len" or (flen_ok and rhs[1] == flen.path))
                    want = 0 if c[1] == "Gt" else 1
                    if lhs == mid and is_len and ((g.taken_val == 0) if c[1] == "Gt" else (g.taken_val != 0)):
                        return f"dominated by `{show(b, c)}` == false (mid <= len)" if c[1] == "Gt" else "dominated by mid <= len"
        return None
    res = check_zone(bodies, call_discharge=discharge)
    report(chk, "C01-a", res, "the core reader must not contain an operation that can panic on some input")
    chk.floor("C01-a", "functions in the core zone", len(bodies), 90)
    chk.floor("C01-a", "Assert sites in the core zone", sum(1 for s in res.sites if s["kind"].startswith("assert:")), 12)
    # checked arithmetic results are consumed by `?`/ok_or, not unwrapped: covered by "no unwrap in zone"

    # ---- C01-b -----------------------------------------------------------------------------------
    chk.rule("C01-b", "T-GUARD/T-WHO: TableRef aggregates only in Cursor::finish (dominated by check_in_bounds(pos)?) or "
                      "re-wrapping self.data of an existing TableRef; Cursor.pos written only by saturating_add")
    fin = chk.anchor("C01-b", "Cursor::finish", facts.body("read_fonts::font_data::Cursor::<'a>::finish"))
    cons = []
    for b in facts.all_bodies(RF, kinds=("fn", "closure", "const")):
        for bb, j, st in b.stmts():
            if st[0] == "A" and st[2][0] == "agg" and st[2][1][0] == "adt" and st[2][1][1] == TABLEREF:
                cons.append((b, bb, st))
    n_rewrap = 0
    for b, bb, st in cons:
        if b.path == fin.path:
            # dominated by the Continue edge of check_in_bounds(..)?
            ok = False
            for g in branch_guards(b, bb):
                s = g.cond_str()
                if "check_in_bounds" in s and "branch(" in s and g.taken_val == 0:
                    ok = True
                    # argument of check_in_bounds is self.pos
                    cb = [t for _, t in b.calls() if t.callee.endswith("FontData::<'a>::check_in_bounds")]
                    ok = ok and bool(cb) and show(b, expr_of(b, cb[0].args[1])).endswith(".pos")
            chk.ob("C01-b", "Cursor::finish builds TableRef only after check_in_bounds(self.pos)? succeeded", ok,
                   key="finish|gate", file=b.file, line=st[3][0], fn=b.path,
                   detail="the single bounds check that licenses every later unwrap in generated getters is missing or bypassed")
            continue
        # re-wrapper: data operand is the `data` field of an existing TableRef (self)
        ops = st[2][2]
        data_ok = False
        for o in ops:
            e = strip_casts(expr_of(b, o))
            s = show(b, e)
            if e[0] == "call" and e[1].endswith("::clone") and e[2]:
                e = e[2][0]
                while e[0] == "ref":
                    e = e[1]
            if e[0] == "proj" and any(isinstance(x, tuple) and x[0] == "f" and x[2] == "data" and (len(x) < 4 or x[3] == TABLEREF) for x in e[2]):
                data_ok = True
        n_rewrap += 1
        chk.ob("C01-b", f"{b.path.split('::')[-1]} ({os.path.basename(b.file)}:{st[3][0]}) re-wraps an existing TableRef's data", data_ok,
               key=f"tableref-cons|{b.path}", file=b.file, line=st[3][0], fn=b.path,
               detail="a TableRef constructed from data that did not pass Cursor::finish has unvalidated field ranges")
    chk.floor("C01-b", "TableRef construction sites", len(cons), 5)
    # Cursor.pos writers
    pos_w = 0
    for b in facts.bodies_in_files(RF, [r"read-fonts/src/font_data\.rs$"]):
        for bb, j, st in b.stmts():
            if st[0] == "A" and st[1][1] and isinstance(st[1][1][-1], list) and st[1][1][-1][0] == "f" and st[1][1][-1][2] == "pos" \
                    and (len(st[1][1][-1]) < 4 or st[1][1][-1][3] == "read_fonts::font_data::Cursor"):
                pos_w += 1
                e = strip_casts(expr_of(b, st[2][1])) if st[2][0] == "use" else ("?",)
                ok = e[0] == "call" and e[1].endswith("::saturating_add")
                chk.ob("C01-b", f"{b.path.split('::')[-1]}: Cursor.pos = {show(b, e)[:50]}", ok, key=f"pos-writer|{b.path}",
                       file=b.file, line=st[3][0], fn=b.path, detail="Cursor.pos must only advance by saturating_add (it is compared once, at finish)")
    chk.floor("C01-b", "writes of Cursor.pos", pos_w, 2)

    # ---- C01-c -----------------------------------------------------------------------------------
    chk.rule("C01-c", "T-TYPE: zero-copy types have alignment 1 and size == RAW_BYTE_LEN; unsafe impls in font-types are the confirmed set")
    seen = {}
    for c in facts.crates:
        for r in facts.records("cgnode", c):
            if r.get("targs"):
                fn = r["path"].split("::")[-1]
                if fn == "alloc_slice" or "outline::glyf::memory::" in r["path"]:
                    continue  # skrifa's scratch-memory carver handles alignment itself (C02-e)
                for ty, sz, al in r["targs"]:
                    seen.setdefault((fn, ty), (sz, al))
    for (fn, ty), (sz, al) in sorted(seen.items()):
        chk.ob("C01-c", f"{fn}::<{ty[:70]}> size {sz} align {al}", al == 1, key=f"align|{fn}|{ty}",
               detail="bytemuck::from_bytes / cast_slice panics on misaligned data: a zero-copy type must have alignment 1")
    chk.floor("C01-c", "zero-copy instantiation types", len(seen), 60)
    nfs = 0
    for c in ("font_types", RF):
        for r in facts.records("impl", c):
            if r["trait"] == "font_types::raw::FixedSize" and r["mono"] and r["layout"]:
                raw = dict((k, int(v)) for k, v in r["consts"]).get("RAW_BYTE_LEN")
                if raw is None:
                    continue
                # only types that are actually cast from bytes need size == RAW_BYTE_LEN: packed records and BigEndian
                is_record = any(a["path"] == r["self_ty"].split("<")[0] and a["repr_packed"] for a in facts.records("adt", c))
                if not is_record:
                    continue
                nfs += 1
                chk.ob("C01-c", f"{r['self_ty'][:60]}: RAW_BYTE_LEN {raw}, layout {r['layout']}", r["layout"] == [raw, 1],
                       key=f"fixedsize|{r['self_ty']}", file=r["file"], line=r["line"],
                       detail="a packed record whose size differs from RAW_BYTE_LEN is read with the wrong stride")
    chk.floor("C01-c", "packed FixedSize records checked", nfs, 40)
    unsafe_impls = sorted((r["trait"].split("::")[-1], r["self_ty"]) for r in facts.records("impl", "font_types")
                          if r["unsafe_impl"] and not (r["mac"] or "").startswith("bytemuck") and not r["derived"])
    want = [("AnyBitPattern", "font_types::raw::BigEndian<T>"), ("NoUninit", "font_types::point::Point<T>"), ("Zeroable", "font_types::raw::BigEndian<T>")]
    chk.ob("C01-c", f"hand-written unsafe impls in font-types: {unsafe_impls}", unsafe_impls == want, key="unsafe-impls",
           detail=f"expected exactly {want}")

    # ---- C01-c2: instantiations that no call makes -- type aliases and field types ---------------------------------
    chk.rule("C01-c2", "T-TYPE: a generic type whose methods cast bytes to a *bare* type parameter (read_ref_at::<T>, read_array::<T>, "
                       "directly or by forwarding T to such a type) is never instantiated -- by a type alias or a field type of the "
                       "reader crates -- with a native multi-byte number: `X<u16>` would be cast from unaligned bytes (panic in "
                       "bytemuck, and native byte order otherwise; F35).  Instantiations that are *called* are covered by C01-c")
    PRIM = re.compile(r"(?<![\w:<])(u16|i16|u32|i32|u64|i64|u128|i128|usize|isize|f32|f64)(?![\w>]*::)\b")
    ZC = re.compile(r"(FontData::<'a>::|Cursor::<'a>::)(read_ref_at|read_array|read_ref|read_array_unchecked|read_ref_unchecked)$")

    def adt_names_in(path):
        return set(re.findall(r"([A-Za-z_][\w:]*::[A-Z]\w*)(?=<|::<|>| as |$)", path))
    adts = {r["path"] for c in (RF, "skrifa", "font_types") if c in facts.crates for r in facts.records("adt", c)}
    owners = set()
    bare = re.compile(r"(^|[\[, ])T/#\d+|(^|[\[, ])[A-Z]\w*/#\d+")
    for rnd in range(3):
        before = len(owners)
        for b in facts.all_bodies(RF):
            for bb, t in b.calls():
                ca = t.d.get("cargs") or ""
                if not isinstance(ca, str) or not bare.search(ca):
                    continue
                hit = ZC.search(t.callee) is not None and re.search(r"(^|[\[, ])[A-Z]\w*/#\d+\]?$|, [A-Z]\w*/#\d+[\],]", ca) is not None \
                    and not re.search(r"<[A-Z]\w*/#\d+>", ca)
                fwd = any(o.split("::")[-1] + "<" in t.callee or o.split("::")[-1] + "::<" in t.callee for o in owners) and \
                    not re.search(r"BigEndian<[A-Z]\w*/#\d+>", ca)
                if hit or fwd:
                    for a in adts:
                        short = a.split("::")[-1]
                        if re.search(r"\b" + re.escape(short) + r"(<|::<)", b.path) and a.startswith("read_fonts::tables"):
                            owners.add(a)
        if len(owners) == before:
            break
    chk.anchor("C01-c2", "generic types that cast bytes to a bare type parameter (StateEntry<T> ..)", sorted(owners))
    n_inst = 0
    insts = []
    for c in (RF, "skrifa"):
        if c not in facts.crates:
            continue
        for r in facts.records("alias", c):
            insts.append((r["path"], r["ty"], r["file"], r["line"], "type alias"))
        for r in facts.records("adt", c):
            for v in r.get("variants") or []:
                for fld in v[1]:
                    insts.append((f"{r['path']}.{fld[0]}", fld[1], r["file"], r["line"], "field type"))
    for name, ty, file, line, what in insts:
        for o in owners:
            for m in re.finditer(re.escape(o) + r"<([^<>]*(?:<[^<>]*>[^<>]*)*)>", ty):
                n_inst += 1
                args = [a.strip() for a in re.split(r",(?![^<]*>)", m.group(1))]
                bad = [a for a in args if PRIM.fullmatch(a)]
                chk.ob("C01-c2", f"{what} {name} = ..{o.split('::')[-1]}<{m.group(1)[:50]}>", not bad,
                       key=f"zc-inst|{name}|{o}", file=file, line=int(line), fn=name,
                       detail=f"{o} casts bytes to its type parameter without a byte-order wrapper; instantiating it with `{bad}` "
                              f"(alignment > 1, native byte order) makes its accessors panic at odd addresses and return "
                              f"byte-swapped values elsewhere: use BigEndian<..>")
    chk.stats["C01-c2:owners"] = sorted(owners)
    chk.floor("C01-c2", "alias / field instantiations of such types", n_inst, 1)

    # ---- C01-g2: the guard of one confirmed explicit panic that lives in the caller ------------------------------------
    chk.rule("C01-g2", "T-GUARD: `parse_entry`'s `Blend => unreachable!()` (a confirmed explicit panic of C01-g) stays dead: in every "
                       "caller a comparison of the operator with `Operator::Blend` dominates the call to parse_entry (the test is made "
                       "on every path to it), and the equal edge of such a comparison cannot reach the call")
    # parse_entry is found by what it is, not by its (private) name: a hand-written function that takes a DICT `Operator` by
    # value and contains an explicit panic
    PEs = {b.path for b in facts.all_bodies(RF) if not b.generated and not b.path.startswith("<") and "{closure" not in b.path
           and any(b.locals[i][0].endswith("postscript::dict::Operator") for i in range(1, b.argc + 1))
           and any(t.callee.startswith("core::panicking::") for _, t in b.calls())}
    callers = [b for b in facts.all_bodies(RF) if any(t.callee in PEs for _, t in b.calls())]
    if PEs:
        chk.anchor("C01-g2", "callers of dict::parse_entry", callers)
    else:
        chk.ob("C01-g2", "no function that takes a DICT Operator contains an explicit panic: nothing to guard", True)

    def promoted_variant(b, op):
        # `&Operator::X` passed as a promoted constant -> "X"
        l = op[1][0] if op[0] in ("c", "m") else None
        for _ in range(5):
            if l is None:
                return None
            sd = b.single_def(l)
            if sd is None or hasattr(sd[2], "callee"):
                return None
            rv = sd[2]
            if rv[0] == "use" and rv[1][0] == "k" and len(rv[1]) > 3 and isinstance(rv[1][3], str) and "promoted[" in rv[1][3]:
                pb = facts.body(rv[1][3], _fuzzy=False)
                if pb is None:
                    return None
                for _, _, st in pb.stmts():
                    if st[0] == "A" and st[2][0] == "agg" and st[2][1][0] == "adt" and st[2][1][1].endswith("dict::Operator"):
                        return st[2][1][3]
                return None
            if rv[0] in ("use", "ref"):
                pl = rv[1][1] if rv[0] == "use" and rv[1][0] in ("c", "m") else (rv[2] if rv[0] == "ref" else None)
                l = pl[0] if pl is not None and (not pl[1] or pl[1] == ["*"]) else None
            else:
                return None
        return None
    for b in callers:
        pe_blocks = [bb for bb, t in b.calls() if t.callee in PEs]
        cmps = []
        for bb, t in b.calls():
            if t.callee.endswith("dict::Operator as core::cmp::PartialEq>::eq") and len(t.args) == 2:
                if "Blend" in (promoted_variant(b, t.args[0]), promoted_variant(b, t.args[1])):
                    # the block the call returns to switches on the result: `otherwise` is the equal edge
                    nb = t.targets[0] if t.targets else None
                    sw = b.blocks[nb].term if nb is not None else None
                    eq_edge = sw.d[3] if sw is not None and sw.kind == "switch" else None
                    cmps.append((bb, eq_edge))
        for pb_ in pe_blocks:
            dom = any(b.dominates(cb, pb_) for cb, _ in cmps)
            # "cannot reach the call" within the same trip of the token loop: `continue` goes back to the loop head
            from ..loops import natural_loops
            hdrs = {l[0] for l in natural_loops(b) if b.dominates(l[0], pb_)}

            def reaches(src, dst):
                seen, st_ = set(), [src]
                while st_:
                    x = st_.pop()
                    if x == dst:
                        return True
                    if x in seen or x in hdrs or b.blocks[x].cleanup:
                        continue
                    seen.add(x)
                    st_.extend(b.blocks[x].term.targets)
                return False
            cut = any(e is not None and not reaches(e, pb_) for _, e in cmps)
            chk.ob("C01-g2", f"{b.path.split('::dict::')[-1]}: {len(cmps)} comparisons with Operator::Blend; one dominates the parse_entry "
                             f"call ({dom}), one cuts it off on equality ({cut})", dom and cut,
                   key=f"{b.path}|blend-guard", file=b.file, line=b.blocks[pb_].term.line or b.lo, fn=b.path,
                   detail="parse_entry panics (`unreachable!()`) when it is handed the `blend` operator; the caller no longer tests for "
                          "it on every path to the call (or no longer leaves before the call when it is one): a DICT containing byte "
                          "23 evaluated without a variation store panics")
    if PEs:
        chk.floor("C01-g2", "callers checked", len(callers), 1)

    # ---- C01-f -----------------------------------------------------------------------------------
    chk.rule("C01-f", "T-PURE: read-fonts forbids unsafe code and contains none; font-types/read-fonts have no mutable or "
                      "interior-mutable statics and make no time/env/random/thread calls; pointer-to-integer casts only feed differences")
    cr = list(facts.records("crate", RF))
    attrs = " ".join(cr[0]["attrs"]) if cr else ""
    chk.ob("C01-f", "#![forbid(unsafe_code)] on read-fonts", "unsafe_code" in attrs and ("Forbid" in attrs or "forbid" in attrs), key="forbid-unsafe",
           detail="crate attribute forbid(unsafe_code) not found on read-fonts")
    ub = list(facts.records("unsafe_block", RF))
    chk.ob("C01-f", f"unsafe blocks in read-fonts: {len(ub)}", not ub, key="unsafe-blocks",
           detail=str([(u['file'], u['line']) for u in ub][:5]))
    for c in ("font_types", RF):
        for r in facts.records("static", c):
            chk.ob("C01-f", f"static {r['path']} immutable", r["freeze"] and not r["mutable"], key=f"static|{r['path']}", file=r["file"], line=r["line"],
                   detail="state that survives a call makes observations depend on history")
    FORBID = re.compile(r"^(std::time::|std::env::|std::thread::|rand::|std::process::|std::fs::|std::net::|std::hash::random::|"
                        r"<std::hash::random::|core::fmt::Pointer|<\*const T as core::fmt::Pointer|"
                        r"core::slice::<impl \[T\]>::align_to(_mut)?$|bytemuck::(internal::)?(try_)?pod_align_to(_mut)?$|"
                        r"core::ptr::(const_ptr|mut_ptr)::<impl \*(const|mut) T>::(align_offset|is_aligned|is_aligned_to)$)")
    ncalls = 0
    for c in ("font_types", RF):
        for b in facts.all_bodies(c):
            for bb, t in b.calls():
                ncalls += 1
                if FORBID.search(t.callee):
                    chk.ob("C01-f", f"{b.path} calls {t.callee}", False, key=f"forbid|{b.path}|{t.callee}", file=b.file, line=t.line, fn=b.path,
                           detail="an observation of time / environment / randomness / thread identity / memory address alignment in a parsing path")
    chk.floor("C01-f", "calls scanned in font-types + read-fonts", ncalls, 20000 if cfg == "union" else 5000)
    # iteration order of a RandomState-hashed container is a per-process / per-map random observation
    from .c07 import random_hash_iterations
    his = random_hash_iterations(facts, ("font_types", RF))
    for b, bb, t, m, norm, sensitive in his:
        chk.ob("C01-f", f"{b.path} line {t.line}: HashMap/HashSet::{m} -> {norm}", not sensitive, key=f"hash-iter|{b.path}|{m}",
               file=b.file, line=t.line, fn=b.path,
               detail=f"the iteration order of a std hash container (random per map) reaches {norm}: what is observed for the same "
                      f"bytes can differ between calls and threads")
    chk.stats[f"C01-f:{cfg}:hash_iteration_sites"] = len(his)
    if cfg == "union":
        # positive example for this zero-expected rule: the fixture crate iterates a HashMap into a result
        fx = Facts("fixture:engine", callgraph=False)
        fxs = [x for x in random_hash_iterations(fx, fx.crates) if x[0].path.endswith("hash_order_observed")]
        chk.ob("C01-f", f"scanner self-check: fixture hash_order_observed flagged ({len(fxs)} site(s))", any(x[5] for x in fxs),
               key="hash-iter|selfcheck", detail="the hash-iteration scanner no longer recognises a plain `for k in map.keys()` (checker defect)")
    from ..ptrtaint import PtrTaint
    pt = PtrTaint(facts, list(facts.crates))
    npc = 0
    for b, st, r in pt.run():
        if b.crate not in ("font_types", RF):
            continue
        npc += 1
        bad = [d for v, d in r if v == "bad"]
        chk.ob("C01-f", f"{b.path.split('::')[-1]} line {st[3][0]}: pointer-to-integer cast -> {[d for v, d in r][:2]}", not bad,
               key=f"ptrcast|{b.path}|{bad[:1]}", file=b.file, line=st[3][0], fn=b.path,
               detail=f"an address observed as an integer reaches {bad}: the observation depends on where the bytes sit in memory")
    chk.floor("C01-f", "pointer-to-integer casts followed", npc, 6 if cfg == "union" else 1)

    # ---- C01-g -----------------------------------------------------------------------------------
    chk.rule("C01-g", "explicit-panic census: unwrap/expect/panic!/unreachable! sites in hand-written read-fonts code equal the "
                      "confirmed inventory (function -> count, one reason per function)")
    conf = json.load(open(os.path.join(VERIF, "rules", "confirmed_panics_read_fonts.json")))
    inv = {}
    where = {}
    for b in facts.all_bodies(RF):
        if b.generated:
            continue
        for bb, t in b.calls():
            k = panic_kind(t.callee)
            if k in ("unwrap", "panic"):
                if k == "panic" and t.macro and "debug_assert" in t.macro:
                    continue
                inv.setdefault(b.path, {}).setdefault(k, 0)
                inv[b.path][k] += 1
                where.setdefault((b.path, k), (b.file, t.line))
    total = 0
    from ..zone import inventory_slack, draw_slack
    slack = inventory_slack(conf, inv)
    for p, counts in sorted(inv.items()):
        for k, n in counts.items():
            total += n
            allowed = conf.get(p, {}).get("counts", {}).get(k, 0)
            if n > allowed and draw_slack(slack, p, k, n - allowed):
                allowed = n      # the confirmed function was renamed / moved inside its module
            f_, l_ = where[(p, k)]
            chk.ob("C01-g", f"{p}: {n} {k} site(s)", n <= allowed, why=conf.get(p, {}).get("reason"), key=f"panic|{p}|{k}", file=f_, line=l_, fn=p,
                   detail=f"{n} explicit `{k}` site(s) but {allowed} confirmed: read-fonts promises never to panic on any input; a new "
                          f"unwrap/expect/panic! must be justified (rules/confirmed_panics_read_fonts.json)")
    chk.stats[f"C01-g:{cfg}:sites"] = total
    if cfg == "union":
        chk.floor("C01-g", "explicit panic sites enumerated", total, 30)
