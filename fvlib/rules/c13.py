"""C13 — colour glyph painting terminates with balanced, correctly nested callbacks.

Decided (structural, all CFG paths):
  C13-a  every Ok/unknown-classified exit of traverse_with_callbacks / ColorGlyph::paint /
         traverse_v0_range / the default methods of ColorPainter has an empty push/pop stack over
         the caller's painter, pops match the last push, no pop on an empty stack
  C13-a2 CollectFillGlyphPainter forwards nothing but fill_glyph to its parent painter
  C13-b  recursion depth parameter: entry guard against a constant <= 1024, every self call +1
  C13-c  the self calls in the ColrLayers / ColrGlyph arms and the root call are dominated by
         the Ok edge of Decycler::enter; enter's write is bounds-guarded; guard drop decrements
"""
from ..facts import Facts
from ..mir import op_place, op_local
from ..typestate import Explorer, Violation, ret_class, trace_lines
from ..recur import check_depth_param_recursion
from ..sym import expr_of, show, strip_casts

PUSH = {"push_transform": "transform", "push_clip_glyph": "clip", "push_clip_box": "clip",
        "push_layer": "layer"}
POP = {"pop_transform": "transform", "pop_clip": "clip", "pop_layer": "layer",
       "pop_layer_with_mode": "layer"}
TRAIT = "skrifa::color::ColorPainter::"
POISON = "POISON"
PROBE_ERR = "PROBE_ERR"


def painter_locals(body):
    """parameters whose type is the caller-supplied painter (a type parameter / Self behind &mut)"""
    out = []
    for i in range(1, body.argc + 1):
        ty = body.local_ty(i)
        if ty in ("&mut impl ColorPainter", "&mut Self") or ty.startswith("&mut dyn skrifa::color::ColorPainter"):
            out.append(i)
    return out


def balance_check(chk, rid, body, balanced_callees, painters, init=(), want=(), probes=()):
    """Explore `body`; events are trait calls on `painters`; calls to `balanced_callees` passing a
    painter are forked into Ok (stack unchanged) / Err (poisoned)."""
    findings = []
    stats = {"events": 0, "forks": 0}

    def on_call(bb, t, state, env, trace):
        callee = t.callee
        d = t.d
        if isinstance(state, tuple) and state[:1] == (PROBE_ERR,):
            # a probe below this node has failed with an error; the client stack is tracked underneath
            inner = state[1]
            r = on_call(bb, t, inner, env, trace)
            if r is None:
                return None
            return [((PROBE_ERR, s2) if (s2 != POISON and not (isinstance(s2, tuple) and s2[:1] == (PROBE_ERR,)) and not _real_ok(t, s2, inner)) else s2, e2)
                    for s2, e2 in r]
        if callee.startswith(TRAIT) and d["args"]:
            m = callee[len(TRAIT):]
            recv = body.root_local(d["args"][0])
            if recv in painters:
                if m in PUSH:
                    stats["events"] += 1
                    if state == POISON:
                        return [(state, None)]
                    if len(state) >= 8:
                        raise Violation(f"push depth exceeds 8 without a pop (push inside a loop?) at line {t.line}", bb, trace)
                    return [(state + (PUSH[m],), None)]
                if m in POP:
                    stats["events"] += 1
                    if state == POISON:
                        return [(state, None)]
                    if not state:
                        raise Violation(f"`{m}` at line {t.line} on an empty stack (nothing was pushed on this path)", bb, trace)
                    if state[-1] != POP[m]:
                        raise Violation(f"`{m}` at line {t.line} pops a `{state[-1]}` (not last-in-first-out)", bb, trace)
                    return [(state[:-1], None)]
            return None
        for bc in balanced_callees:
            if callee == bc:
                # does it receive one of our painters?
                passes = any(body.root_local(a) in painters for a in d["args"] if op_place(a) is not None)
                if not passes:
                    if probes and any(body.root_local(a) in probes for a in d["args"] if op_place(a) is not None):
                        # a probe: the nested traversal runs over a painter that forwards nothing but fill_glyph (C13-a2), so
                        # the client stack is unchanged either way; its *error* must not get lost
                        stats["forks"] += 1
                        dl = d["dest"][0] if not d["dest"][1] else None
                        if state == POISON:
                            return [(POISON, None)]
                        return [(state, {dl: 0} if dl is not None else None),
                                ((PROBE_ERR, state), {dl: 1} if dl is not None else None)]
                    return None
                stats["forks"] += 1
                dl = d["dest"][0] if not d["dest"][1] else None
                if state == POISON:
                    return [(POISON, None)]
                ok = (state, {dl: 0} if dl is not None else None)
                err = (POISON, {dl: 1} if dl is not None else None)
                return [ok, err]
        return None

    def _real_ok(t, new_state, inner):
        # after a failed probe, a real nested traversal (one that received the client painter) that came back Ok has walked the
        # same sub-graph without error: the probe's error was the probe's own; an Err fork is POISON already
        if t.callee in balanced_callees and new_state == inner:
            return any(body.root_local(a) in painters for a in t.d["args"] if op_place(a) is not None)
        return False

    def on_exit(bb, state, rv, env, trace):
        cls = ret_class(body, rv)
        if cls == "err":
            return
        if isinstance(state, tuple) and state[:1] == (PROBE_ERR,):
            findings.append((f"exit classified `{cls}` reachable after a probe traversal failed and no real traversal of the "
                             f"sub-graph followed: the error (cycle, depth limit, malformed paint) is lost", bb, trace))
            return
        if state == POISON:
            findings.append((f"exit classified `{cls}` reachable after a failed nested traversal whose pushes were not "
                             f"popped", bb, trace))
        elif state != want:
            findings.append((f"exit classified `{cls}` with stack {list(state)} (expected {list(want)})", bb, trace))

    ex = Explorer(body, on_call=on_call, on_exit=on_exit)
    try:
        ex.run(init)
    except Violation as v:
        findings.append((v.msg, v.bb, v.trace))
    n_exit = len(ex.exits)
    desc = f"{body.path}: {len(ex.visited)} (block,state,facts) triples, {n_exit} exits, {stats['events']} push/pop events, {stats['forks']} nested-call forks"
    if findings:
        seen = set()
        for msg, bb, trace in findings:
            lines = trace_lines(body, trace)
            k = f"{body.path}|{msg.split(' at line')[0]}"
            if k in seen:
                continue
            seen.add(k)
            chk.ob(rid, desc, False, key=k, file=body.file, line=body.blocks[bb].term.line or body.lo,
                   fn=body.path, detail=f"{msg}; path through lines {lines[-25:]}")
    else:
        chk.ob(rid, desc, True)
    return stats, ex


def run(chk):
    configs = ["union"] if chk.tier == "quick" else ["union", "allfeat", "skrifa_libm"]
    for cfg in configs:
        chk.configs.append(cfg)
        facts = Facts(cfg)
        run_config(chk, facts)
    from . import trec
    trec.run_scope(chk, "C13-d", scope="color", floor=2)
    chk.assume("the embedder's ColorPainter implementation is a black box: balance is established for the "
               "callback stream skrifa emits, per call of paint()")
    chk.assume("A-CB: calls dispatched on the embedder's type parameter get no call-graph edge")


def run_config(chk, facts):
    # the two crate-private traversal entry points are the functions of the traversal module that the public
    # ColorGlyph::paint calls: the COLRv1 one takes the resolved paint, the COLRv0 one a layer range
    paint0 = facts.body("skrifa::color::ColorGlyph::<'a>::paint")
    ENTRY_NAME, V0_NAME = "skrifa::color::traversal::traverse_with_callbacks", "skrifa::color::traversal::traverse_v0_range"
    if paint0 is not None:
        cal = sorted({t.callee for _, t in paint0.calls() if t.callee.startswith("skrifa::color::traversal::")})
        if len(cal) == 2 and not (ENTRY_NAME in cal and V0_NAME in cal):
            with_paint = [c for c in cal if facts.body(c, _fuzzy=False) is not None
                          and any("ResolvedPaint" in facts.body(c, _fuzzy=False).locals[i][0]
                                  for i in range(1, facts.body(c, _fuzzy=False).argc + 1))]
            if len(with_paint) == 1:
                ENTRY_NAME = with_paint[0]
                V0_NAME = [c for c in cal if c != ENTRY_NAME][0]
    entry = chk.anchor("C13-a", ENTRY_NAME, facts.body(ENTRY_NAME))
    # The recursive traversal is the entry itself or -- since the fix for F31 -- the function a thin wrapper forwards
    # to: a wrapper has no self call and exactly one call into the module, to which it passes its own parameters, in
    # order, as the leading arguments (so parameter positions -- painter, decycler, depth -- carry over).
    twc = entry
    if not any(t.callee == entry.path for _, t in entry.calls()):
        cs = [(bb, t) for bb, t in entry.calls() if t.callee.startswith("skrifa::color::traversal::")]
        fw = None
        if len(cs) == 1 and len(cs[0][1].args) >= entry.argc:
            t = cs[0][1]
            if all(entry.root_local(t.args[i]) == i + 1 for i in range(entry.argc) if op_place(t.args[i]) is not None) \
                    and all(op_place(t.args[i]) is not None for i in range(entry.argc)):
                fw = facts.body(t.callee)
        twc = chk.anchor("C13-a", "the recursive function traverse_with_callbacks forwards to", fw)
    entry_paths = {entry.path, twc.path}
    paint = chk.anchor("C13-a", "ColorGlyph::paint", facts.body("skrifa::color::ColorGlyph::<'a>::paint"))
    v0 = chk.anchor("C13-a", "traverse_v0_range", facts.body(V0_NAME))

    # ---- C13-a balance --------------------------------------------------------------------
    chk.rule("C13-a", "T-STATE: stack automaton over push_*/pop_* calls on the caller's painter; every exit not "
                      "classified Err has an empty stack; pops are LIFO-matched; nested traversals balanced on Ok "
                      "(inductive hypothesis), poisoned on Err")
    balanced = sorted(entry_paths) + [v0.path]
    total_events = 0
    for b in ([twc, paint, v0] if entry is twc else [twc, entry, paint, v0]):
        ps = painter_locals(b)
        chk.anchor("C13-a", f"painter parameter of {b.path}", ps)
        probes = [i for i in range(1, len(b.locals)) if "CollectFillGlyphPainter" in b.locals[i][0] and not b.locals[i][0].startswith("&")]
        stats, ex = balance_check(chk, "C13-a", b, balanced, ps, probes=probes)
        total_events += stats["events"]
        chk.sample({"fn": b.path, "states": len(ex.visited), "exits": [(bb, list(s) if s != POISON else s, ret_class(b, rv)) for bb, s, rv in ex.exits[:6]]})
    chk.floor("C13-a", "push/pop call sites seen on the painter", total_events, 10)
    # default methods of the trait that call back into self
    # (a default method stands for the event its name says: its net effect must be exactly that)
    for b in facts.find_bodies(r"^skrifa::color::ColorPainter::\w+$", "skrifa"):
        ps = painter_locals(b)
        m = b.path.split("::")[-1]
        if ps and any(t.callee.startswith(TRAIT) for _, t in b.calls()):
            init = (POP[m],) if m in POP else ()
            want = (PUSH[m],) if m in PUSH else ()
            balance_check(chk, "C13-a", b, [], ps, init=init, want=want)

    # ---- C13-a2 the glyph-fill optimiser forwards only fill_glyph ------------------------
    chk.rule("C13-a2", "T-WHO: impl ColorPainter for CollectFillGlyphPainter calls nothing on parent_painter except "
                       "fill_glyph, so a nested traversal over the optimiser emits no push/pop to the client")
    cf = facts.find_bodies(r"^<skrifa::color::traversal::CollectFillGlyphPainter<'_> as skrifa::color::ColorPainter>::", "skrifa")
    chk.floor("C13-a2", "methods of impl ColorPainter for CollectFillGlyphPainter", len(cf), 8)
    for b in cf:
        for bb, t in b.calls():
            if t.callee.startswith(TRAIT) or "as skrifa::color::ColorPainter>::" in t.callee:
                m = t.callee.split("::")[-1]
                chk.ob("C13-a2", f"{b.path.split('::')[-1]} -> parent.{m} (line {t.line})", m == "fill_glyph",
                       key=f"{b.path}|{m}", file=b.file, line=t.line, fn=b.path,
                       detail=f"CollectFillGlyphPainter forwards `{m}` to the client painter; nested optimiser "
                              f"traversals are assumed to emit only fill_glyph")

    # ---- C13-b recursion depth --------------------------------------------------------------
    chk.rule("C13-b", "T-REC R-a: entry comparison of the depth parameter against a constant (<= 1024) with an exit "
                      "that reaches no recursive call; every recursive call passes depth + c, c >= 1")
    self_calls = [(bb, t) for bb, t in twc.calls() if t.callee == twc.path]
    chk.floor("C13-b", "recursive call sites of traverse_with_callbacks", len(self_calls), 7)
    ok, why = check_depth_param_recursion(twc, self_calls)
    chk.ob("C13-b", f"{twc.path}: {why}", ok, key=f"{twc.path}|depth", file=twc.file, line=twc.lo, fn=twc.path, detail=why)
    # the root call passes a constant
    def param_index(body, pred):
        for i in range(1, body.argc + 1):
            if pred(body.local_name(i), body.locals[i][0]):
                return i - 1
        return None
    depth_ix = param_index(twc, lambda n, ty: "depth" in n and ty in ("u32", "usize", "u16", "u8", "i32"))
    decy_ix = param_index(twc, lambda n, ty: "Decycler" in ty)
    if depth_ix is None:
        chk.ob("C13-b", "traverse_with_callbacks has an integer depth parameter", False, key=f"{twc.path}|depth-param",
               file=twc.file, line=twc.lo, fn=twc.path, detail="no integer parameter named *depth*: the recursion has no depth counter")
    for bb, t in paint.calls():
        if t.callee in entry_paths and depth_ix is not None and depth_ix < len(t.args):
            e = strip_casts(expr_of(paint, t.args[depth_ix]))
            chk.ob("C13-b", f"ColorGlyph::paint passes initial depth {show(paint, e)}",
                   e[0] == "const" and e[2] is not None and e[2] <= 8,
                   key=f"{paint.path}|root-depth", file=paint.file, line=t.line, fn=paint.path,
                   detail=f"initial recursion depth is `{show(paint, e)}`, expected a small constant")

    # ---- C13-e no node is descended into twice (except by a cut-off probe) ----------------------
    chk.rule("C13-e", "T-ONCE: a path through the recursive traversal descends into the same child paint at most once, "
                      "unless the first descent is a probe: it passes the constant `true` in a bool parameter P, every other "
                      "recursive call passes P through unchanged, and both descents are dominated by the false edge of a "
                      "test of P whose true edge reaches no recursive call (so probes do not nest: 2^depth otherwise, F31)")
    RESOLVE = "skrifa::color::instance::resolve_paint"
    rps = [(bb, t) for bb, t in twc.calls() if t.callee == RESOLVE]
    chk.floor("C13-e", "resolve_paint calls in the traversal", len(rps), 6)

    paint_ix = param_index(twc, lambda n, ty: "ResolvedPaint" in ty)
    chk.anchor("C13-e", "the paint parameter of the traversal", paint_ix is not None and [paint_ix])

    def child_key(t):
        # the child this call descends into, as the symbolic expression of the paint argument (locals with a single
        # definition are expanded, so `let child = resolve_paint(..)?; f(&child)` and `f(&resolve_paint(..)?)` agree)
        if paint_ix is None or paint_ix >= len(t.args):
            return None
        return show(twc, strip_casts(expr_of(twc, t.args[paint_ix])))
    keys = {bb: child_key(t) for bb, t in self_calls}
    bool_params = [i for i in range(1, twc.argc + 1) if twc.locals[i][0] == "bool"]

    def arg_kind(t, pl):
        # 'true' | 'false' | 'param' | 'other' for the argument passed in parameter position pl (1-based local)
        if pl - 1 >= len(t.args):
            return "other"
        e = strip_casts(expr_of(twc, t.args[pl - 1]))
        if e[0] == "const":
            return "true" if e[2] == 1 else "false" if e[2] == 0 else "other"
        if e[0] in ("param", "local") and e[1] == pl:
            return "param"
        return "other"
    n_pairs = 0
    for i, (b1, t1) in enumerate(self_calls):
        reach = twc.reachable_from(twc.blocks[b1].term.targets[0]) if twc.blocks[b1].term.targets else set()
        for b2, t2 in self_calls:
            if b2 == b1 or b2 not in reach or keys[b1] is None or keys[b1] != keys[b2]:
                continue
            n_pairs += 1
            ok, why = False, "no bool parameter marks the first descent as a probe"
            for pl in bool_params:
                if arg_kind(t1, pl) != "true":
                    continue
                others = [(bb, t, arg_kind(t, pl)) for bb, t in self_calls if bb != b1]
                bad = [t.line for bb, t, k in others if k != "param"]
                if bad:
                    why = f"recursive call(s) at line(s) {bad} do not pass `{twc.local_name(pl)}` through unchanged (a probe could nest again below them)"
                    continue
                cut = False
                for sb, blk in enumerate(twc.blocks):
                    tm = blk.term
                    if blk.cleanup or tm.kind != "switch" or op_place(tm.d[1]) is None:
                        continue
                    if twc.root_local(tm.d[1]) != pl and strip_casts(expr_of(twc, tm.d[1])) not in (("local", pl), ("param", pl)):
                        continue
                    zero = [bb for v, bb in tm.d[2] if str(v) == "0"]
                    t_true = tm.d[3] if zero else None
                    if not zero or t_true is None:
                        continue
                    f_edge = zero[0]
                    sc_blocks = {bb for bb, _ in self_calls}
                    if twc.dominates(f_edge, b1) and twc.dominates(f_edge, b2) and not (twc.reachable_from(t_true) & sc_blocks):
                        cut = True
                if cut:
                    ok, why = True, f"first descent is a probe (`{twc.local_name(pl)}` = true), cut off at nested occurrences"
                else:
                    why = (f"the two descents are not dominated by the false edge of a test of `{twc.local_name(pl)}` whose true edge "
                           f"makes no recursive call")
            chk.ob("C13-e", f"lines {t1.line} and {t2.line} both descend into `{keys[b1]}`: {why}", ok,
                   key=f"{twc.path}|double-descent|{keys[b1]}", file=twc.file, line=t2.line, fn=twc.path,
                   detail=f"one visit of this node traverses the child `{keys[b1]}` twice (lines {t1.line} and {t2.line}); nested "
                          f"occurrences multiply: a chain of n such nodes costs 2^n. {why}")
    chk.stats["C13-e:double_descent_pairs"] = n_pairs
    chk.stats["C13-e:recursive_calls"] = len(self_calls)

    # ---- C13-f errors of nested traversals surface -----------------------------------------------
    chk.rule("C13-f", "T-ERR: the Result of every nested traversal (recursive calls, the wrapper's forward, paint()'s root calls) "
                      "is propagated with `?` or becomes the function's return value; it is never bound to `_`, dropped, "
                      "unwrapped or defaulted (a cyclic / too deep / malformed sub-graph must fail the paint, not succeed)")
    from ..guards import result_fate as _rf
    n_res = 0
    nested = set(entry_paths) | {v0.path}
    for b in ([twc, paint, v0] if entry is twc else [twc, entry, paint, v0]):
        for bb, t in b.calls():
            if t.callee in nested:
                n_res += 1
                fate = _rf(b, bb)
                chk.ob("C13-f", f"{b.path.split('::')[-1]} line {t.line}: result of {t.callee.split('::')[-1]} is {sorted(fate)}",
                       bool(fate) and fate <= {"propagated", "returned"},
                       key=f"{b.path}|nested-result|{sorted(fate - {'propagated', 'returned'})}", file=b.file, line=t.line, fn=b.path,
                       detail=f"the Result of a nested traversal is {sorted(fate)}: an error below this node (cycle, depth limit, "
                              f"malformed paint) can be lost and the paint reported as successful")
    chk.floor("C13-f", "nested traversal calls", n_res, 9)

    # ---- C13-c cycle guard ------------------------------------------------------------------
    chk.rule("C13-c", "T-GUARD: recursive calls that follow a ColrLayers / ColrGlyph edge (and the root call) pass a "
                      "DecyclerGuard obtained from Decycler::enter(..)? on the same path; enter bounds-checks depth "
                      "before writing; DecyclerGuard::drop decrements")
    ENTER = "skrifa::decycler::Decycler::<T, D>::enter"
    n_guarded = 0
    for b, calls in ((twc, self_calls), (paint, [(bb, t) for bb, t in paint.calls() if t.callee in entry_paths])):
        for bb, t in calls:
            # decycler argument: rooted at a guard local (from enter) or at the parameter
            if decy_ix is None or decy_ix >= len(t.args):
                chk.ob("C13-c", "traverse_with_callbacks takes the decycler", False, key=f"{twc.path}|decycler-param",
                       file=twc.file, line=twc.lo, fn=twc.path, detail="no Decycler parameter: paint-graph cycles are not guarded")
                break
            arg = t.args[decy_ix]
            root = b.root_place(op_place(arg))
            rl = root[0]
            # `let mut g = decycler.enter(id)?;` : g is the Continue payload of Try::branch(enter(..))
            from_guard = False
            enter_bb = None
            sd = b.single_def(rl)
            if sd is not None and hasattr(sd[2], "callee") and sd[2].callee.endswith("as core::ops::try_trait::Try>::branch") \
                    and any(isinstance(e, list) and e[0] == "d" and e[2] == "Continue" for e in root[1]):
                src = b.root_local(sd[2].args[0])
                sd2 = b.single_def(src)
                if sd2 is not None and hasattr(sd2[2], "callee") and sd2[2].callee == ENTER:
                    from_guard = True
                    enter_bb = sd2[0]
            # the arm is a "new edge" arm iff it resolves a paint id: calls v1_layer / v1_base_glyph dominate it
            id_calls = [cb for cb, ct in b.calls()
                        if (ct.callee.endswith("::v1_layer") or ct.callee.endswith("::v1_base_glyph")) and b.dominates(cb, bb)]
            needs = bool(id_calls) or b is paint
            if needs:
                # guard local must be the Ok payload of an enter call dominating this call
                ok = from_guard and enter_bb is not None and b.dominates(enter_bb, bb)
                n_guarded += 1 if ok else 0
                chk.ob("C13-c", f"{b.path.split('::')[-1]} line {t.line}: call on a new paint-graph edge passes a cycle guard from enter()",
                       ok, key=f"{b.path}|guard|{len(id_calls)}|{t.line - b.lo > 0 and 'call'}|{calls.index((bb, t))}",
                       file=b.file, line=t.line, fn=b.path,
                       detail="this recursive call follows a ColrLayers/ColrGlyph/root edge but is not dominated by "
                              "`decycler.enter(id)?` whose guard is passed down")
            else:
                # same node continues: must pass the parameter decycler or an existing guard
                pass
    chk.floor("C13-c", "guarded recursive calls (ColrLayers, ColrGlyph, root)", n_guarded, 3)
    # a cycle / depth error from the decycler must surface as an error of the traversal (T-ERR)
    from ..guards import result_fate
    for b in (twc, paint):
        for bb, t in b.calls():
            if t.callee == ENTER:
                fate = result_fate(b, bb)
                chk.ob("C13-c", f"{b.path.split('::')[-1]} line {t.line}: Decycler::enter result is {sorted(fate)}",
                       fate == {"propagated"}, key=f"{b.path}|enter-fate|{sorted(fate)}", file=b.file, line=t.line, fn=b.path,
                       detail="a CycleDetected / DepthLimitExceeded from the decycler must be propagated with `?`; "
                              "handling it locally turns a cyclic paint graph into a success")

    enter = chk.anchor("C13-c", ENTER, facts.body(ENTER))
    # the two fields of the decycler by type, not by name: the array of ids on the path and the integer depth
    IDS, DEPTH = "node_ids", "depth"
    for r in facts.records("adt", "skrifa"):
        if r.get("path", "").endswith("decycler::Decycler") and r.get("variants"):
            flds = r["variants"][0][1]
            arr = [n for n, ty, _ in flds if ty.startswith("[") and ";" in ty]
            ints = [n for n, ty, _ in flds if ty in ("usize", "u32", "u16", "u8")]
            if len(arr) == 1 and len(ints) == 1:
                IDS, DEPTH = arr[0], ints[0]
    # enter: the write node_ids[depth] = id is dominated by depth < D true edge; Ok exit only after depth += 1
    writes = []
    for bb, j, st in enter.stmts():
        if st[0] == "A" and st[1][1] and any(isinstance(e, list) and e[0] == "f" and e[2] == IDS for e in st[1][1]):
            writes.append((bb, st))
    chk.ob("C13-c", f"Decycler::enter writes node_ids in {len(writes)} place(s)", len(writes) == 1,
           key="enter|writes", file=enter.file, line=enter.lo, fn=enter.path)
    from ..recur import _cmp_guards
    guard_ok = False
    for gbb, op, a, b2, t_true, t_false in _cmp_guards(enter):
        sa, sb = show(enter, a), show(enter, b2)
        if op == "Lt" and DEPTH in sa and (b2[0] == "const" or "D" in sb):
            if writes and enter.dominates(t_true, writes[0][0]) and writes[0][0] not in enter.reachable_from(t_false):
                guard_ok = True
    chk.ob("C13-c", "Decycler::enter: `depth < D` dominates the node_ids write", guard_ok, key="enter|guard",
           file=enter.file, line=enter.lo, fn=enter.path,
           detail="the store into node_ids[depth] is not dominated by the true edge of `self.depth < D`")
    # Ok exits of enter pass through depth += 1
    incs = [bb for bb, j, st in enter.stmts() if st[0] == "A" and st[1][1] and st[1][1][-1][0] == "f" and st[1][1][-1][2] == DEPTH]
    oks = [bb for bb, j, st in enter.stmts() if st[0] == "A" and st[1] == [0, []] and st[2][0] == "agg" and st[2][1][:1] == ["adt"] and st[2][1][3] == "Ok"]
    chk.ob("C13-c", "Decycler::enter: every Ok is preceded by depth += 1",
           bool(incs) and bool(oks) and all(any(enter.dominates(i, o) for i in incs) for o in oks),
           key="enter|inc", file=enter.file, line=enter.lo, fn=enter.path)
    drop = facts.find_bodies(r"^<skrifa::decycler::DecyclerGuard<'_, T, D> as core::ops::drop::Drop>::drop$", "skrifa")
    chk.anchor("C13-c", "impl Drop for DecyclerGuard", drop)
    d = drop[0]
    dec = False
    for bb, j, st in d.stmts():
        if st[0] == "A" and st[1][1] and st[1][1][-1][0] == "f" and st[1][1][-1][2] == DEPTH:
            e = expr_of(d, st[2][1]) if st[2][0] == "use" else None
            if e and e[0] == "bin" and e[1] == "Sub":
                dec = True
    chk.ob("C13-c", "DecyclerGuard::drop decrements depth", dec, key="guard|drop", file=d.file, line=d.lo, fn=d.path)
    # D is a small constant
    chk.sample({"decycler": "PaintDecycler = Decycler<usize, 64>", "enter_cargs": [t.d["cargs"] for _, t in twc.calls() if t.callee == ENTER][:1]})
    for _, t in list(twc.calls()) + list(paint.calls()):
        if t.callee == ENTER:
            import re
            m = re.search(r"(\d+)_usize\]$", t.d["cargs"])
            chk.ob("C13-c", f"Decycler depth bound D = {m.group(1) if m else '?'} (line {t.line})",
                   bool(m) and int(m.group(1)) <= 1024, key=f"enter|D|{t.d['cargs']}", file=twc.file, line=t.line)
