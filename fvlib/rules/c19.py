"""C19 — IFT patch selection (structural clauses).

  C19-a  group shape is type-level: a selected group is Full(one patch) | Mixed{ift, iftx}, each scope is
         PartialInvalidation(one patch) | NoInvalidation(map keyed by the URI string) — so "at most one invalidating
         patch per table, nothing beside a full one, no URI twice in a scope" holds for every value (T-TYPE), and the
         map key is the patch's own URI string at the one insertion site
  C19-b  progress: every Ok exit of apply_next_patches_with_decoder flips at least one Pending entry to Applied
         (T-STATE): either the Pending arm's store, or the non-empty accumulated list (filled only under Pending arms)
         followed by the flip loop over the same iterator
  C19-c  evaluation recursion over child entries is bounded (T-REC) — see fvlib/rules/trec.py
"""
import re

from ..facts import Facts
from ..mir import op_place
from ..typestate import Explorer, ret_class, trace_lines
from ..sym import expr_of, rvalue_expr, show
from ..guards import calls_in_expr

IFT = "incremental_font_transfer"
APPLY_NEXT = "incremental_font_transfer::patch_group::PatchGroup::<'_>::apply_next_patches_with_decoder"
PG = "incremental_font_transfer::patch_group::"
COLLECTION = re.compile(r"\b(Vec|HashMap|BTreeMap|HashSet|BTreeSet|VecDeque|SmallVec|Box<\[|IndexMap)\b|\[.*\]")


def adt(facts, path):
    for r in facts.records("adt", IFT):
        if r["path"] == path:
            return r
    return None


def run(chk):
    configs = ["union"] if chk.tier == "quick" else ["union", "ift_rust_brotli"]
    for cfg in configs:
        chk.configs.append(cfg)
        run_config(chk, Facts(cfg))
    from . import trec
    trec.run_scope(chk, "C19-c", scope="ift")


def run_config(chk, facts):
    chk.rule("C19-a", "T-TYPE: payload shapes of CompatibleGroup / ScopedGroup / *InvalidationPatch make the grouping "
                      "constraints unrepresentable-when-violated; NoInvalidation map is keyed by the patch URI")
    cg = chk.anchor("C19-a", PG + "CompatibleGroup", adt(facts, PG + "CompatibleGroup"))
    sg = chk.anchor("C19-a", PG + "ScopedGroup", adt(facts, PG + "ScopedGroup"))
    vs = {v[0]: v[1] for v in cg["variants"]}
    chk.ob("C19-a", f"CompatibleGroup variants = {sorted(vs)}", set(vs) == {"Full", "Mixed"}, key="cg|variants",
           detail=f"variants are {sorted(vs)}")
    if "Full" in vs:
        f = vs["Full"]
        ok = len(f) == 1 and f[0][1] == PG + "FullInvalidationPatch"
        chk.ob("C19-a", f"Full carries exactly one FullInvalidationPatch: {[x[1] for x in f]}", ok, key="cg|full",
               detail="a fully invalidating group must hold exactly one patch and nothing else")
    if "Mixed" in vs:
        f = vs["Mixed"]
        ok = len(f) == 2 and all(x[1] == PG + "ScopedGroup" for x in f)
        chk.ob("C19-a", f"Mixed carries one ScopedGroup per mapping table: {[(x[0], x[1]) for x in f]}", ok, key="cg|mixed")
    svs = {v[0]: v[1] for v in sg["variants"]}
    chk.ob("C19-a", f"ScopedGroup variants = {sorted(svs)}", set(svs) == {"PartialInvalidation", "NoInvalidation"}, key="sg|variants")
    if "PartialInvalidation" in svs:
        f = svs["PartialInvalidation"]
        chk.ob("C19-a", f"PartialInvalidation carries exactly one patch: {[x[1] for x in f]}",
               len(f) == 1 and f[0][1] == PG + "PartialInvalidationPatch", key="sg|partial")
    if "NoInvalidation" in svs:
        f = svs["NoInvalidation"]
        ok = len(f) == 1 and re.match(r"(?:alloc::collections::btree::map::BTreeMap|std::collections::hash::map::HashMap)<alloc::string::String, " + re.escape(PG) + r"NoInvalidationPatch", f[0][1]) is not None
        chk.ob("C19-a", f"NoInvalidation is a map keyed by URI string: {[x[1] for x in f]}", ok, key="sg|noinv",
               detail="a scope's non-invalidating patches must be keyed by URI so a URI cannot occur twice")
    for name in ("FullInvalidationPatch", "PartialInvalidationPatch", "NoInvalidationPatch"):
        a = chk.anchor("C19-a", PG + name, adt(facts, PG + name))
        fields = a["variants"][0][1]
        ok = len(fields) == 1 and fields[0][1] == PG + "PatchInfo"
        chk.ob("C19-a", f"{name} wraps exactly one PatchInfo", ok, key=f"wrap|{name}")
    pi = chk.anchor("C19-a", PG + "PatchInfo", adt(facts, PG + "PatchInfo"))
    for fld in pi["variants"][0][1]:
        chk.ob("C19-a", f"PatchInfo.{fld[0]}: {fld[1]} is not a collection of patches",
               not (COLLECTION.search(fld[1]) and "Patch" in fld[1]), key=f"patchinfo|{fld[0]}")
    pgp = chk.anchor("C19-a", PG + "PatchGroup", adt(facts, PG + "PatchGroup"))
    pf = [f for f in pgp["variants"][0][1] if "CompatibleGroup" in f[1]]
    chk.ob("C19-a", f"PatchGroup holds at most one CompatibleGroup: {[f[1] for f in pf]}",
           len(pf) == 1 and pf[0][1] == f"core::option::Option<{PG}CompatibleGroup>", key="pg|field")
    # key of every insertion into a NoInvalidation map is uri_string() of the inserted uri
    n_ins = 0
    for b in facts.find_bodies(r"^incremental_font_transfer::patch_group::", IFT):
        for bb, t in b.calls():
            if t.callee.endswith("::insert") and "NoInvalidationPatch" in t.d["cargs"] and ("BTreeMap" in t.callee or "HashMap" in t.callee):
                n_ins += 1
                key = expr_of(b, t.args[1])
                val = expr_of(b, t.args[2])
                kc = calls_in_expr(key)
                ok = any(c.endswith("PatchUri::uri_string") for c in kc)
                chk.ob("C19-a", f"{b.path.split('::')[-1]} line {t.line}: map key = {show(b, key)[:80]}", ok,
                       key=f"{b.path}|insert-key", file=b.file, line=t.line, fn=b.path,
                       detail="the NoInvalidation map key must be the patch's resolved URI string")
    chk.floor("C19-a", "insertions into NoInvalidation maps", n_ins, 2)

    # ---- C19-b -------------------------------------------------------------------------------
    chk.rule("C19-b", "T-STATE: every Ok exit of apply_next_patches_with_decoder has passed the Pending-arm store of "
                      "Applied, or the non-empty edge of accumulated_info.is_empty() and then the flip loop")
    an = chk.anchor("C19-b", APPLY_NEXT, facts.body(APPLY_NEXT))
    # (1) accumulated vector: pushes only under a Pending downcast of the looked-up status
    # found by role, not by name: the local Vec that is pushed onto and whose is_empty() is tested
    pushed = {an.root_local(t.args[0]) for bb, t in an.calls() if t.callee.endswith("Vec::<T, A>::push") and t.args}
    tested = {an.root_local(t.args[0]) for bb, t in an.calls() if t.callee.endswith("::is_empty") and t.args}
    acc = sorted(l for l in pushed & tested if l is not None and l > an.argc and an.local_ty(l).startswith("alloc::vec::Vec<"))
    if len(acc) != 1:
        acc = an.local_by_name("accumulated_info")
    chk.anchor("C19-b", "the local Vec of collected patches (pushed onto, tested with is_empty())", acc)
    acc = acc[0]
    pushes = [(bb, t) for bb, t in an.calls() if t.callee.endswith("::push") and t.args and an.root_local(t.args[0]) == acc]
    chk.floor("C19-b", "pushes onto accumulated_info", len(pushes), 1)
    for bb, t in pushes:
        e = expr_of(an, t.args[1])
        s = show(an, e)
        chk.ob("C19-b", f"push at line {t.line} stores data of a Pending entry: {s[:90]}", "as Pending" in s,
               key=f"{an.path}|push-pending", file=an.file, line=t.line, fn=an.path,
               detail="the accumulated patch list must only receive entries whose status is Pending, otherwise a round "
                      "could succeed without applying anything new")
    findings = []
    flips = {"pending_store": 0, "loop_store": 0}

    def status_store(st):
        return st[0] == "A" and st[1][1] and st[1][1][0] == "*" and an.local_ty(st[1][0]).startswith("&mut") \
            and "UriStatus" in an.local_ty(st[1][0])

    # state = (progress_evidence, flipped) ; progress_evidence in {None,'pending','nonempty'}
    def on_stmt(bb, j, st, state, env, trace):
        if status_store(st):
            ev, flipped = state
            e = rvalue_expr(an, st[2], 0)
            if e[0] == "agg" and e[1][3] == "Applied":
                # is the stored-to reference known to be Pending on this path?
                l = st[1][0]
                if env.vals.get(("deref", l)) == 1 or pending_known(env, l):
                    flips["pending_store"] += 1
                    return ("pending", True)
                flips["loop_store"] += 1
                return (ev, True)
        return None

    def pending_known(env, l):
        # the switch on discriminant(*entry) records the learnt value under the temp's link; we instead use
        # dominance: the store is in a block dominated by the Pending arm of a switch on discr(*l)
        return False

    # dominance-based: blocks dominated by the `Pending` arm (discriminant 1) of a switch on discr(*entry)
    pending_arm_blocks = set()
    for i, blk in enumerate(an.blocks):
        tt = blk.term
        if tt.kind != "switch":
            continue
        l = an.root_local(tt.d[1])
        sd = an.single_def(l) if l is not None else None
        if sd is None or hasattr(sd[2], "callee") or sd[2][0] != "disc":
            continue
        if not sd[2][2].endswith("patch_group::UriStatus"):
            continue
        for v, tgt in tt.d[2]:
            if v == "1":  # UriStatus::Pending
                pending_arm_blocks |= {b for b in an.reachable_from(tgt) if an.dominates(tgt, b)}
    us = adt(facts, PG + "UriStatus")
    chk.ob("C19-b", "UriStatus variant 1 is Pending", us is not None and [v[0] for v in us["variants"]] == ["Applied", "Pending"],
           key="uristatus|variants")
    chk.floor("C19-b", "blocks under a Pending arm", len(pending_arm_blocks), 2)

    def on_stmt2(bb, j, st, state, env, trace):
        if status_store(st):
            ev, flipped = state
            e = rvalue_expr(an, st[2], 0)
            if e[0] == "agg" and e[1][0] == "adt" and e[1][3] == "Applied":
                if bb in pending_arm_blocks:
                    flips["pending_store"] += 1
                    return ("pending", True)
                flips["loop_store"] += 1
                return (ev, True)
        return None

    # false edge of `accumulated_info.is_empty()`
    nonempty_edges = set()
    for cb, ct in an.calls():
        if ct.callee.endswith("::is_empty") and ct.args and an.root_local(ct.args[0]) == acc and not ct.dest[1]:
            d = ct.dest[0]
            for i, blk in enumerate(an.blocks):
                tt = blk.term
                if tt.kind == "switch" and an.root_local(tt.d[1]) == d:
                    for v, b2 in tt.d[2]:
                        if v == "0":
                            nonempty_edges.add((i, b2))
    chk.floor("C19-b", "is_empty() tests of accumulated_info", len(nonempty_edges), 1)

    def on_edge(bb, tgt, t, state, env, trace):
        if (bb, tgt) in nonempty_edges:
            return ("nonempty", state[1])
        return None

    def on_exit(bb, state, rv, env, trace):
        cls = ret_class(an, rv)
        if cls == "err":
            return
        ev, flipped = state
        # 'pending': the Pending arm's own store was passed (flipped is implied);  'nonempty': at least one Pending
        # entry was collected -- the flip loop after it is data dependent (zero iterations are infeasible but not
        # statically excluded), so its presence is checked separately below
        if ev is None or (ev == "pending" and not flipped):
            findings.append((f"exit classified `{cls}` without evidence of progress (state={state})", bb, trace))

    ex = Explorer(an, on_stmt=on_stmt2, on_edge=on_edge, on_exit=on_exit)
    ex.run((None, False))
    if findings:
        seen = set()
        for msg, bb, trace in findings:
            if msg in seen:
                continue
            seen.add(msg)
            chk.ob("C19-b", msg, False, key=f"{an.path}|progress|{msg.split('(')[0]}", file=an.file,
                   line=an.blocks[bb].term.line or an.lo, fn=an.path,
                   detail=f"{msg}: an Ok return that flips no Pending entry lets the select/apply loop spin forever; "
                          f"path through lines {trace_lines(an, trace)[-20:]}")
    else:
        oks = [(bb, s) for bb, s, rv in ex.exits if ret_class(an, rv) != "err"]
        chk.ob("C19-b", f"{len(ex.visited)} triples, {len(ex.exits)} exits, {len(oks)} non-Err exits all with progress: {sorted(set(s for _, s in oks))}", True)
    chk.ob("C19-b", "the flip loop stores Applied on some path after the non-empty test",
           any(s == ("nonempty", True) for _, s, rv in ex.exits if ret_class(an, rv) != "err"),
           key=f"{an.path}|flip-loop", file=an.file, line=an.lo, fn=an.path,
           detail="no path from the non-empty test to an Ok exit stores UriStatus::Applied: collected patches would stay Pending")
    chk.floor("C19-b", "non-Err exits explored", sum(1 for _, s, rv in ex.exits if ret_class(an, rv) != "err"), 2)
    # (2) the flip loop iterates the same source as the collection loop
    # the source is "the patch_group method that returns an iterator" (today non_invalidating_patch_iter)
    by_callee = {}
    for bb, t in an.calls():
        if t.callee.startswith("incremental_font_transfer::patch_group::") and t.dest and not t.dest[1] and \
                ("core::iter::" in an.local_ty(t.dest[0]) or an.local_ty(t.dest[0]).startswith("impl ")):
            by_callee.setdefault(t.callee, []).append(t)
    iters = max(by_callee.values(), key=len) if by_callee else []
    chk.ob("C19-b", f"collection loop and flip loop both iterate {iters[0].callee.split('::')[-1] if iters else '?'}() ({len(iters)} calls, "
                    f"{len(by_callee)} iterator source(s))",
           len(iters) == 2 and len(by_callee) == 1, key=f"{an.path}|same-iter", file=an.file, line=an.lo, fn=an.path,
           detail="the statuses flipped after success must be those of the patches that were collected")
    chk.sample({"progress exits": [(bb, list(s), ret_class(an, rv)) for bb, s, rv in ex.exits]})

    # ---- C19-d the preference key is not computed with wrapping arithmetic -----------------------------------------
    chk.rule("C19-d", "T-WHO: IntersectionInfo -- the value whose ordering picks among invalidating candidates -- is computed without "
                      "wrapping fixed-point operators: its constructors (from_subset, design_space_size and their closures) call no "
                      "`impl Add/Sub/Neg/Mul for Fixed` (all wrap by definition) and no wrapping_* method; a size that wraps negative "
                      "makes the smaller intersection win (F34)")
    WRAP = re.compile(r"(font_types::fixed::Fixed as core::ops::arith::(Add|Sub|Neg|Mul|AddAssign|SubAssign)[^>]*>::|::wrapping_(add|sub|mul|neg)$)")
    # the constructors are found by what they do, not by name: a hand-written function that builds an IntersectionInfo value,
    # plus (transitively) the patchmap functions it calls and their closures
    allb = {b.path: b for b in facts.all_bodies(IFT)}
    roots = [b for b in allb.values() if not b.path.startswith("<") and not b.generated
             and any(st[0] == "A" and st[2][0] == "agg" and st[2][1][0] == "adt" and st[2][1][1].endswith("patchmap::IntersectionInfo")
                     for _, _, st in b.stmts())]
    seen, work = {}, list(roots)
    while work:
        b = work.pop()
        if b.path in seen:
            continue
        seen[b.path] = b
        for p2, b2 in allb.items():
            if p2.startswith(b.path + "::{closure") and p2 not in seen:
                work.append(b2)
        for _, t in b.calls():
            c = re.sub(r"::<[^:]*>$", "", t.callee)
            if c.startswith("incremental_font_transfer::patchmap::") and c in allb and c not in seen:
                work.append(allb[c])
    bodies = sorted(seen.values(), key=lambda b: b.path)
    chk.anchor("C19-d", "functions that build an IntersectionInfo (today from_subset) and their patchmap callees / closures", bodies)
    n_d = 0
    for b in bodies:
        for bb, t in b.calls():
            n_d += 1
            bad = WRAP.search(t.callee) is not None
            if bad:
                chk.ob("C19-d", f"{b.path.split('IntersectionInfo::')[-1]} line {t.line}: calls {t.callee.split('::')[-1]}", False,
                       key=f"{b.path.split('::{closure')[0]}|wrapping|{t.callee.split('::')[-1]}", file=b.file, line=t.line, fn=b.path,
                       detail=f"`{t.callee}` wraps: a design-space segment wider than half the Fixed range (or a sum of segments) turns "
                              f"negative and the ordering of IntersectionInfo no longer prefers the largest intersection")
    chk.ob("C19-d", f"{len(bodies)} functions / closures, {n_d} calls, none wraps", True)
    chk.floor("C19-d", "calls inspected in the preference-key constructors", n_d, 4)
