"""C04-e — the computed version covers every version-gated field that is present.

For a table whose `version` is written as `self.compute_version()`, the generated writer emits a gated field only
when `version.compatible(G)`.  If `compute_version()` can return a version below G while that field is `Some`, the
field is silently dropped on write and the value does not read back (C04: "version-dependent fields are present exactly
when the chosen version requires them").

Decision procedure: for each gated field f, a tiny abstract interpretation of the MIR of `compute_version` under the
scenario "f is Some, nothing is known about the other fields" (three-valued booleans, presence of `Option` copies,
`a.or(b)`, `is_some/is_none`, `u16::from(bool)`, short-circuit branches) enumerates the versions that can be
returned; every one must be compatible with f's gate.  A construct outside this little language makes the table
"not evaluated" (reported in the evidence, not an alarm).
"""
import os
import re

from ..facts import REPO
from .. import gen
from ..mir import op_const, op_local, op_place
from . import c04w


def gates_by_type():
    """type name -> {field: gate text} from the generated writers, plus the file of each type"""
    out, files = {}, {}
    for wd in gen.dump(gen.generated_files("write-fonts")):
        structs = {it["name"]: {f["name"]: f["ty"] for f in it["fields"]} for it in wd["items"] if it["k"] == "struct"}
        for it in wd["items"]:
            if it["k"] != "impl" or it["trait"] != "FontWrite":
                continue
            base = re.sub(r"\s*<.*$", "", it["self_ty"]).strip()
            wf = [f for f in it["fns"] if f["name"] == "write_into"]
            if not wf or base not in structs:
                continue
            if not any("compute_version" in s for s in wf[0]["stmts"]):
                continue
            steps, problems = c04w.parse_write(wf[0], structs[base])
            if problems:
                continue
            g = {}
            for s in steps:
                if s.get("cond") and "version" in s["cond"] and s["src"].startswith("field:"):
                    g[s["src"][6:]] = s["cond"]
            if g:
                out[base] = g
                files[base] = os.path.relpath(wd["file"], REPO)
    return out, files


def parse_gate(text):
    """`version . compatible ((1u16 , 2u16))` -> (1, 2);  `version . compatible (2u16)` -> 2;  VERSION_1_0 -> (1, 0)"""
    t = text.replace(" ", "")
    m = re.search(r"compatible\(\((\d+)u16,(\d+)u16\)\)", t)
    if m:
        return (int(m.group(1)), int(m.group(2)))
    m = re.search(r"compatible\((\d+)u16\)", t)
    if m:
        return int(m.group(1))
    m = re.search(r"VERSION_(\d+)_(\d+)", t)
    if m:
        return (int(m.group(1)), int(m.group(2)))
    return None


def compatible(v, g):
    if isinstance(v, tuple) != isinstance(g, tuple):
        return None
    if isinstance(v, tuple):
        return v[0] == g[0] and v[1] >= g[1] or v[0] > g[0]
    return v >= g


class Unsupported(Exception):
    pass


def versions_when_present(body, field):
    """set of versions compute_version can return when `self.<field>` is Some (other fields unknown)"""
    out = set()
    budget = [4000]

    def field_of_place(p):
        if p[0] == 1 and len(p[1]) == 2 and p[1][0] == "*" and isinstance(p[1][1], list) and p[1][1][0] == "f":
            return p[1][1][2]
        return None

    def tuple_slot(op):
        """(local, index) for an operand reading field i of a local tuple"""
        if op[0] == "k":
            return None
        p = op[1]
        if len(p[1]) == 1 and isinstance(p[1][0], list) and p[1][0][0] == "f":
            return (p[0], p[1][0][1])
        return None

    def presence(env, op):
        """True / False / None for an Option-valued operand (or a reference to one)"""
        if op[0] == "k":
            return None
        p = op[1]
        f = field_of_place(p)
        if f is not None:
            return True if f == field else None
        if not p[1]:
            v = env.get(p[0])
            if isinstance(v, tuple) and v[0] == "opt":
                return v[1]
        return None

    def const_version(op):
        c = op_const(op)
        if c and c[1] is not None:
            return c[1]
        if len(op) > 3 and isinstance(op[3], str):
            m = re.search(r"VERSION_(\d+)_(\d+)", op[3])
            if m:
                return (int(m.group(1)), int(m.group(2)))
        return None

    def run(bb, env, seen):
        budget[0] -= 1
        if budget[0] < 0 or (bb, len(seen)) in seen and len(seen) > 200:
            raise Unsupported("path explosion")
        blk = body.blocks[bb]
        env = dict(env)
        for st in blk.stmts:
            if st[0] != "A":
                continue
            pl, rv = st[1], st[2]
            if pl[1]:
                raise Unsupported("store to memory")
            l = pl[0]
            k = rv[0]
            val = None
            if k in ("ref", "raw"):
                f = field_of_place(rv[2])
                if f is not None:
                    val = ("opt", True if f == field else None)
                elif not rv[2][1] or rv[2][1] == ["*"]:
                    src = env.get(rv[2][0])
                    val = src if isinstance(src, tuple) and src[0] in ("opt", "bool") else None
            elif k == "use":
                o = rv[1]
                if o[0] == "k":
                    cv = const_version(o)
                    if cv is not None:
                        val = ("ver", frozenset([cv]))
                    else:
                        c = op_const(o)
                        if c and c[0] == "bool" and c[1] is not None:
                            val = ("bool", bool(c[1]))
                else:
                    f = field_of_place(o[1])
                    sl = tuple_slot(o)
                    if f is not None:
                        val = ("opt", True if f == field else None)
                    elif not o[1][1]:
                        val = env.get(o[1][0])
                    elif sl is not None:
                        tv = env.get(sl[0])
                        if isinstance(tv, tuple) and tv[0] == "tup" and sl[1] < len(tv[1]):
                            val = tv[1][sl[1]]
            elif k == "agg" and rv[1][0] == "tuple":
                vals = []
                for o in rv[2]:
                    ol = op_local(o)
                    if ol is not None:
                        vals.append(env.get(ol))
                    else:
                        c = op_const(o) if o[0] == "k" else None
                        vals.append(("bool", bool(c[1])) if c and c[0] == "bool" and c[1] is not None else None)
                val = ("tup", tuple(vals))
            elif k == "cast" and rv[1] == "IntToInt":
                src = env.get(op_local(rv[2])) if op_local(rv[2]) is not None else None
                if isinstance(src, tuple) and src[0] == "bool":
                    val = ("ver", frozenset([1]) if src[1] is True else (frozenset([0]) if src[1] is False else frozenset([0, 1])))
                elif isinstance(src, tuple) and src[0] == "ver":
                    val = src
            elif k == "un" and rv[1] == "Not":
                src = env.get(op_local(rv[2])) if op_local(rv[2]) is not None else None
                if isinstance(src, tuple) and src[0] == "bool":
                    val = ("bool", None if src[1] is None else (not src[1]))
            env[l] = val
        t = blk.term
        if t.kind == "ret":
            v = env.get(0)
            if not (isinstance(v, tuple) and v[0] == "ver"):
                raise Unsupported("return value not understood")
            out.update(v[1])
            return
        if t.kind in ("goto", "drop"):
            for s in t.targets:
                run(s, env, seen | {(bb, len(seen))})
            return
        if t.kind == "switch":
            slot = tuple_slot(t.d[1])
            l = op_local(t.d[1])
            if slot is not None:
                tv = env.get(slot[0])
                v = tv[1][slot[1]] if isinstance(tv, tuple) and tv[0] == "tup" and slot[1] < len(tv[1]) else None
            else:
                v = env.get(l) if l is not None else None

            def refine(e2, b):
                if slot is not None:
                    tv2 = list(e2[slot[0]][1])
                    tv2[slot[1]] = ("bool", b)
                    e2[slot[0]] = ("tup", tuple(tv2))
                else:
                    e2[l] = ("bool", b)
            arms = [(int(x), tgt) for x, tgt in t.d[2]]
            if isinstance(v, tuple) and v[0] == "bool" and v[1] is not None:
                want = 1 if v[1] else 0
                tgt = dict(arms).get(want, t.d[3])
                run(tgt, env, seen | {(bb, len(seen))})
                return
            if isinstance(v, tuple) and v[0] == "bool":
                for val, tgt in arms + [(None, t.d[3])]:
                    e2 = dict(env)
                    if val is not None:
                        refine(e2, bool(val))
                    elif len(arms) == 1:
                        refine(e2, not bool(arms[0][0]))
                    run(tgt, e2, seen | {(bb, len(seen))})
                return
            raise Unsupported("switch on a value that is not a tracked bool")
        if t.kind == "call":
            c = t.callee
            short = c.split("::")[-1]
            d = t.dest
            if d[1]:
                raise Unsupported("call writes memory")
            val = None
            if short in ("is_some", "is_none") and len(t.args) == 1:
                pr = presence(env, t.args[0])
                val = ("bool", None if pr is None else (pr if short == "is_some" else not pr))
            elif c.startswith("core::option::Option::<T>::or") and short == "or" and len(t.args) == 2:
                a, b = presence(env, t.args[0]), presence(env, t.args[1])
                val = ("opt", True if (a is True or b is True) else (False if (a is False and b is False) else None))
            elif short in ("from", "into") and len(t.args) == 1:
                src = env.get(op_local(t.args[0])) if op_local(t.args[0]) is not None else None
                if isinstance(src, tuple) and src[0] == "bool":
                    val = ("ver", frozenset([1]) if src[1] is True else (frozenset([0]) if src[1] is False else frozenset([0, 1])))
                elif isinstance(src, tuple) and src[0] == "ver":
                    val = src
                else:
                    raise Unsupported(f"conversion of an untracked value ({c})")
            elif short in ("clone", "as_ref", "copied", "cloned", "deref") and len(t.args) == 1:
                pr = presence(env, t.args[0])
                val = ("opt", pr)
            elif c.endswith("MajorMinor::new") and len(t.args) == 2:
                a, b = op_const(t.args[0]), op_const(t.args[1])
                if a and b and a[1] is not None and b[1] is not None:
                    val = ("ver", frozenset([(a[1], b[1])]))
                else:
                    raise Unsupported("MajorMinor::new of non-constants")
            else:
                raise Unsupported(f"call to {c}")
            env = dict(env)
            env[d[0]] = val
            for s in t.targets:
                run(s, env, seen | {(bb, len(seen))})
            return
        if t.kind == "assert":
            raise Unsupported("arithmetic in compute_version")
        return

    run(0, {}, frozenset())
    return out


def check_versions(chk, facts):
    chk.rule("C04-e", "path-sensitive agreement: for every version-gated field f of a table whose version is compute_version(), every "
                      "version compute_version can return while f is Some is compatible with f's gate in the generated writer")
    gates, files = gates_by_type()
    bodies = facts.find_bodies(r"::compute_version$", "write_fonts")
    n_tables = n_fields = 0
    skipped = []
    for b in bodies:
        if b.argc != 1:
            continue
        ty = b.locals[1][0].lstrip("&").split("::")[-1].split("<")[0]
        g = gates.get(ty)
        if not g:
            continue
        n_tables += 1
        for f, gtext in sorted(g.items()):
            gate = parse_gate(gtext)
            if gate is None:
                skipped.append(f"{ty}.{f} (gate `{gtext}` not understood)")
                continue
            try:
                vs = versions_when_present(b, f)
            except Unsupported as e:
                skipped.append(f"{ty}.{f} ({e})")
                continue
            except RecursionError:
                skipped.append(f"{ty}.{f} (too deep)")
                continue
            n_fields += 1
            bad = sorted(v for v in vs if compatible(v, gate) is not True)
            chk.ob("C04-e", f"{ty}.{f} present => compute_version in {sorted(vs, key=str)} >= gate {gate}", not bad and bool(vs),
                   key=f"{ty}|{f}|version", file=b.file, line=b.lo, fn=b.path,
                   detail=f"with `{f}` set, compute_version() can return {bad}, below the field's gate {gate} in {files.get(ty)}: the "
                          f"writer then drops the field and the table does not read back as written")
    chk.floor("C04-e", "tables with a computed version and gated fields", n_tables, 6)
    chk.floor("C04-e", "gated fields evaluated", n_fields, 20)
    chk.stats["C04-e:not_evaluated"] = skipped[:30]
    return n_tables, n_fields, skipped
