"""C08 — character maps built from a mapping answer exactly that mapping: claimed for one clause only.

  C08-b  "no glyph for all others" (one structural guard): skrifa's symbol-font fallback (retry at codepoint + 0xF000) is
         dominated by the `is_symbol` test, so a non-symbol font never answers a Latin-1 character from the PUA
  C08-a  building succeeds for every conflict-free mapping: in write-fonts/src/tables/cmap.rs every checked conversion
         whose failure is turned into a panic (`try_from/try_into(..).unwrap()/expect(..)`), and every other explicit
         panic, is infallible by interval analysis, has a confirmed reason, or is a known finding (T-CAST)
Lookup correctness, segment boundaries and variation sequences are value-level and not decided.
"""
import re

from ..facts import Facts
from ..guards import result_fate
from ..intervals import Intervals, ty_range, fits
from ..zone import panic_kind

CONFIRMED = {
    ("write_fonts::tables::cmap::CmapSubtable::create_format_4", "u32->u16"):
        "every glyph id is asserted <= 0xFFFF at the top of create_format_4 (the property's own precondition: 16-bit glyph ids)",
    ("write_fonts::tables::cmap::Cmap12::compute_length", "usize->u32"):
        "at most 0x110000 groups (one per scalar value) x 12 bytes + 16 < 2^32",
}
CONFIRMED_PANICS = {
    "write_fonts::tables::cmap::CmapSubtable::create_format_4": "assert!(all glyph ids <= 0xFFFF): the property's precondition",
    "write_fonts::tables::cmap::Format4Segment::combine": "internal invariant: compute() only combines a segment with the one that immediately follows it",
}


def conv_types(t):
    c = t.callee
    m = re.search(r"TryFrom<(\w+)> for (\w+)>::try_from$", c)
    if m:
        return m.group(1), m.group(2)
    m = re.match(r"^\[(\w+), (\w+)\]$", t.d["cargs"])
    if m and c.endswith("::try_into"):
        return m.group(1), m.group(2)
    return None


def run(chk):
    configs = ["union"] if chk.tier == "quick" else ["union", "allfeat"]
    for cfg in configs:
        chk.configs.append(cfg)
        run_config(chk, Facts(cfg))
    chk.assume("glyph ids are 16-bit (asserted at the top of create_format_4; part of the property's quantifier)")


def run_config(chk, facts):
    chk.rule("C08-a", "T-CAST: in the cmap builder every try_from/try_into whose Err becomes a panic is infallible by intervals, "
                      "confirmed, or a known finding; no other explicit panic without a confirmed reason")
    bodies = facts.bodies_in_files("write_fonts", [r"write-fonts/src/tables/cmap\.rs$"])
    chk.anchor("C08-a", "Cmap::from_mappings", facts.find_bodies(r"^write_fonts::tables::cmap::Cmap::from_mappings$", "write_fonts"))
    n = 0
    for b in bodies:
        iv = None
        for bb, t in b.calls():
            if not (t.callee.endswith("::try_into") or t.callee.endswith("::try_from")):
                continue
            fate = result_fate(b, bb)
            panicky = [f for f in fate if f in ("swallowed:unwrap", "swallowed:expect")]
            if not panicky:
                continue
            n += 1
            ct = conv_types(t)
            sig = f"{ct[0]}->{ct[1]}" if ct else "?"
            ok, why = False, "source range does not fit the target type"
            if ct:
                iv = iv or Intervals(b)
                st = iv.state_at_term(bb)
                src = iv.rng(st, t.args[0]) if st is not None else None
                tr = ty_range(ct[1])
                if st is None:
                    ok, why = True, "unreachable"
                elif src is not None and tr is not None and fits(src, tr):
                    ok, why = True, f"source in [{src[0]}, {src[1]}] fits {ct[1]}"
                else:
                    why = f"source range {src} does not fit {ct[1]}"
            ck = (b.path.split("::{closure")[0], sig)
            if not ok and ck in CONFIRMED:
                ok, why = True, "confirmed: " + CONFIRMED[ck]
            chk.ob("C08-a", f"{b.path.split('cmap::')[-1]} line {t.line}: {sig} conversion then {panicky}", ok, why=why,
                   key=f"cast|{b.path.split('::{closure')[0]}|{sig}", file=b.file, line=t.line, fn=b.path,
                   detail=f"checked conversion {sig} is unwrapped but {why}: a conflict-free mapping can make the builder panic")
        for bb, t in b.calls():
            if panic_kind(t.callee) == "panic":
                base = b.path.split("::{closure")[0]
                chk.ob("C08-a", f"{b.path.split('cmap::')[-1]} line {t.line}: explicit panic ({t.macro})", base in CONFIRMED_PANICS,
                       why=CONFIRMED_PANICS.get(base), key=f"panic|{b.path}", file=b.file, line=t.line, fn=b.path,
                       detail="an explicit panic in the cmap builder")
    chk.floor("C08-a", "unwrapped checked conversions in the cmap builder", n, 4)
    if "skrifa" in facts.crates:
        from ..guards import branch_guards
        from ..sym import expr_of, show, strip_casts
        chk.rule("C08-b", "T-GUARD: every CodepointSubtable::map_impl call on a remapped code point (anything but the caller's own "
                          "codepoint) is dominated by the true edge of `is_symbol`")
        nmap = 0
        for b in facts.find_bodies(r"^skrifa::charmap::CodepointSubtable::<'_>::map(::\{closure#\d+\})*$", "skrifa"):
            for bb, t in b.calls():
                if not t.callee.endswith("CodepointSubtable::<'_>::map_impl"):
                    continue
                nmap += 1
                e = strip_casts(expr_of(b, t.args[1]))
                plain = e[0] == "param" or (e[0] == "proj" and e[1][0] == "param" and not any(isinstance(x, tuple) and x[0] == "f" and x[2] for x in e[2]))
                if plain:
                    chk.ob("C08-b", f"{b.path.split('::')[-1]} line {t.line}: map_impl(codepoint) (identity)", True)
                    continue
                guarded = any(g.cond[0] == "proj" and any(isinstance(x, tuple) and x[0] == "f" and x[2] == "is_symbol" for x in g.cond[2]) and g.taken_val != 0
                              for g in branch_guards(b, bb))
                chk.ob("C08-b", f"{b.path.split('::', 2)[-1]} line {t.line}: map_impl({show(b, e)}) only under is_symbol", guarded,
                       key=f"symbol-fallback|{b.path}", file=b.file, line=t.line, fn=b.path,
                       detail="a remapped lookup (codepoint + 0xF000) outside the is_symbol guard makes a non-symbol font answer unmapped "
                              "characters with Private Use glyphs")
        chk.floor("C08-b", "map_impl call sites in CodepointSubtable::map", nmap, 2)
    chk.floor("C08-a", "functions analysed in write-fonts/src/tables/cmap.rs", len(bodies), 20)
