"""C08 — character maps built from a mapping answer exactly that mapping: claimed for one clause only.

  C08-b  "no glyph for all others" (one structural guard): skrifa's symbol-font fallback (retry at codepoint + 0xF000) is
         dominated by the `is_symbol` test, so a non-symbol font never answers a Latin-1 character from the PUA
  C08-a  building succeeds for every conflict-free mapping: in write-fonts/src/tables/cmap.rs every checked conversion
         whose failure is turned into a panic (`try_from/try_into(..).unwrap()/expect(..)`), and every other explicit
         panic, is infallible by interval analysis, has a confirmed reason, or is a known finding (T-CAST)
Lookup correctness, segment boundaries and variation sequences are value-level and not decided.
"""
import re

from ..facts import Facts
from ..guards import result_fate
from ..intervals import Intervals, ty_range, fits
from ..zone import panic_kind

CONFIRMED = {
    ("write_fonts::tables::cmap::CmapSubtable::create_format_4", "u32->u16"):
        "every glyph id is asserted <= 0xFFFF at the top of create_format_4 (the property's own precondition: 16-bit glyph ids)",
    ("write_fonts::tables::cmap::Cmap12::compute_length", "usize->u32"):
        "at most 0x110000 groups (one per scalar value) x 12 bytes + 16 < 2^32",
}
CONFIRMED_PANICS = {
    "write_fonts::tables::cmap::CmapSubtable::create_format_4": "assert!(all glyph ids <= 0xFFFF): the property's precondition",
    "write_fonts::tables::cmap::Format4Segment::combine": "internal invariant: compute() only combines a segment with the one that immediately follows it",
}


def conv_types(t):
    c = t.callee
    m = re.search(r"TryFrom<(\w+)> for (\w+)>::try_from$", c)
    if m:
        return m.group(1), m.group(2)
    m = re.match(r"^\[(\w+), (\w+)\]$", t.d["cargs"])
    if m and c.endswith("::try_into"):
        return m.group(1), m.group(2)
    return None


def run(chk):
    configs = ["union"] if chk.tier == "quick" else ["union", "allfeat"]
    for cfg in configs:
        chk.configs.append(cfg)
        run_config(chk, Facts(cfg))
    chk.assume("glyph ids are 16-bit (asserted at the top of create_format_4; part of the property's quantifier)")


def run_config(chk, facts):
    chk.rule("C08-a", "T-CAST: in the cmap builder every try_from/try_into whose Err becomes a panic is infallible by intervals, "
                      "confirmed, or a known finding; no other explicit panic without a confirmed reason")
    bodies = facts.bodies_in_files("write_fonts", [r"write-fonts/src/tables/cmap\.rs$"])
    chk.anchor("C08-a", "Cmap::from_mappings", facts.find_bodies(r"^write_fonts::tables::cmap::Cmap::from_mappings$", "write_fonts"))
    n = 0
    for b in bodies:
        iv = None
        for bb, t in b.calls():
            if not (t.callee.endswith("::try_into") or t.callee.endswith("::try_from")):
                continue
            fate = result_fate(b, bb)
            panicky = [f for f in fate if f in ("swallowed:unwrap", "swallowed:expect")]
            if not panicky:
                continue
            n += 1
            ct = conv_types(t)
            sig = f"{ct[0]}->{ct[1]}" if ct else "?"
            ok, why = False, "source range does not fit the target type"
            if ct:
                iv = iv or Intervals(b)
                st = iv.state_at_term(bb)
                src = iv.rng(st, t.args[0]) if st is not None else None
                tr = ty_range(ct[1])
                if st is None:
                    ok, why = True, "unreachable"
                elif src is not None and tr is not None and fits(src, tr):
                    ok, why = True, f"source in [{src[0]}, {src[1]}] fits {ct[1]}"
                else:
                    why = f"source range {src} does not fit {ct[1]}"
            ck = (b.path.split("::{closure")[0], sig)
            if not ok and ck in CONFIRMED:
                ok, why = True, "confirmed: " + CONFIRMED[ck]
            chk.ob("C08-a", f"{b.path.split('cmap::')[-1]} line {t.line}: {sig} conversion then {panicky}", ok, why=why,
                   key=f"cast|{b.path.split('::{closure')[0]}|{sig}", file=b.file, line=t.line, fn=b.path,
                   detail=f"checked conversion {sig} is unwrapped but {why}: a conflict-free mapping can make the builder panic")
        for bb, t in b.calls():
            if panic_kind(t.callee) == "panic":
                base = b.path.split("::{closure")[0]
                chk.ob("C08-a", f"{b.path.split('cmap::')[-1]} line {t.line}: explicit panic ({t.macro})", base in CONFIRMED_PANICS,
                       why=CONFIRMED_PANICS.get(base), key=f"panic|{b.path}", file=b.file, line=t.line, fn=b.path,
                       detail="an explicit panic in the cmap builder")
    chk.floor("C08-a", "unwrapped checked conversions in the cmap builder", n, 4)
    if "skrifa" in facts.crates:
        from ..guards import branch_guards
        from ..sym import expr_of, show, strip_casts
        chk.rule("C08-b", "T-GUARD: every CodepointSubtable::map_impl call on a remapped code point (anything but the caller's own "
                          "codepoint) is dominated by the true edge of `is_symbol`")
        nmap = 0
        for b in facts.find_bodies(r"^skrifa::charmap::CodepointSubtable::<'_>::map(::\{closure#\d+\})*$", "skrifa"):
            for bb, t in b.calls():
                if not t.callee.endswith("CodepointSubtable::<'_>::map_impl"):
                    continue
                nmap += 1
                e = strip_casts(expr_of(b, t.args[1]))
                plain = e[0] == "param" or (e[0] == "proj" and e[1][0] == "param" and not any(isinstance(x, tuple) and x[0] == "f" and x[2] for x in e[2]))
                if plain:
                    chk.ob("C08-b", f"{b.path.split('::')[-1]} line {t.line}: map_impl(codepoint) (identity)", True)
                    continue
                guarded = any(g.cond[0] == "proj" and any(isinstance(x, tuple) and x[0] == "f" and x[2] == "is_symbol" for x in g.cond[2]) and g.taken_val != 0
                              for g in branch_guards(b, bb))
                chk.ob("C08-b", f"{b.path.split('::', 2)[-1]} line {t.line}: map_impl({show(b, e)}) only under is_symbol", guarded,
                       key=f"symbol-fallback|{b.path}", file=b.file, line=t.line, fn=b.path,
                       detail="a remapped lookup (codepoint + 0xF000) outside the is_symbol guard makes a non-symbol font answer unmapped "
                              "characters with Private Use glyphs")
        chk.floor("C08-b", "map_impl call sites in CodepointSubtable::map", nmap, 2)
    chk.floor("C08-a", "functions analysed in write-fonts/src/tables/cmap.rs", len(bodies), 20)
    narrowing_census(chk, facts)


# ---- C08-c: narrowing casts in the character-map readers ------------------------------------------------------------------
NARROWING_CONFIRMED = {
    ("skrifa::charmap::MappingSelection::<'a>::new", "usize->u16"):
        (2, "index of an encoding record: `enumerate()` over an array whose count field is a u16 (one in the loop, one in the closure)"),
    ("read_fonts::tables::cmap::<impl read_fonts::table_ref::TableRef<'a, read_fonts::tables::cmap::Cmap4Marker>>::lookup_glyph_id", "i32->u16"):
        (2, "`(x as i32 + id_delta) as u16`: the specification defines the result modulo 65536"),
    ("<read_fonts::tables::cmap::Cmap12Iter<'_> as core::iter::traits::iterator::Iterator>::next", "u64->u32"):
        (1, "the u64 range runs from a u32 start to a u32 end + 1 (exclusive), so every value it yields fits u32"),
    ("<read_fonts::tables::cmap::Cmap4Iter<'_> as core::iter::traits::iterator::Iterator>::next", "u32->u16"):
        (2, "the u32 range runs from a u16 start to a u16 end + 1: yielded code points fit u16; a start of 0x10000 only occurs for an empty range"),
    ("read_fonts::tables::cmap::Cmap4Iter::<'a>::new", "u32->u16"):
        (1, "start of the first range, built from a u16 start code"),
}


def narrowing_census(chk, facts):
    from ..rules.sites import norm_fn
    chk.rule("C08-c", "T-CAST: census of narrowing integer casts in skrifa/src/charmap.rs and read-fonts/src/tables/cmap.rs: each is "
                      "proved lossless by the interval analysis (a range test dominates it) or is one of the confirmed sites; a new "
                      "truncating cast of a code point or glyph id (which makes distinct characters collide) is a violation")
    n = n_ok = 0
    unproven = {}
    for c, frx in (("skrifa", r"skrifa/src/charmap\.rs$"), ("read_fonts", r"read-fonts/src/tables/cmap\.rs$")):
        if c not in facts.crates:
            continue
        for b in facts.bodies_in_files(c, [frx]):
            if b.generated:
                continue
            iv = None
            for bb, j, st in b.stmts():
                if st[0] != "A" or st[2][0] != "cast" or st[2][1] != "IntToInt":
                    continue
                to, frm = st[2][3], st[2][4]
                tr, fr = ty_range(to), ty_range(frm)
                if tr is None or fr is None or (tr[0] <= fr[0] and tr[1] >= fr[1]):
                    continue
                n += 1
                if iv is None:
                    iv = Intervals(b)
                s = iv.state_before_stmt(bb, j) if iv.converged else None
                r = iv.rng(s, st[2][2]) if s is not None else None
                if iv.converged and (s is None or (r is not None and tr[0] <= r[0] and r[1] <= tr[1])):
                    n_ok += 1
                    continue
                key = (re.sub(r"::\{closure#\d+\}", "", b.path), f"{frm}->{to}")
                unproven.setdefault(key, []).append((b, st[3][0] if len(st) > 3 and st[3] else b.lo, r))
    # allowances of confirmed entries that their function does not use on this tree (it was renamed, split, or the cast moved
    # into a helper): per (crate, cast).  A function with more unproven casts than its own allowance may draw on them, so a
    # rename inside the file is not an alarm; a genuinely new truncating cast has nothing to draw on.
    slack = {}
    for (fn, sig), (allowed, _why) in NARROWING_CONFIRMED.items():
        unused = allowed - len(unproven.get((fn, sig), ()))
        if unused > 0:
            ck = (fn.lstrip("<").split("::", 1)[0], sig)
            slack[ck] = slack.get(ck, 0) + unused
    n_moved = 0
    for key, sites in sorted(unproven.items()):
        allowed, why = NARROWING_CONFIRMED.get(key, (0, None))
        if len(sites) > allowed:
            ck = (key[0].lstrip("<").split("::", 1)[0], key[1])
            need = len(sites) - allowed
            if slack.get(ck, 0) >= need:
                slack[ck] -= need
                n_moved += need
                allowed = len(sites)
                why = (why or "") + " (allowance of a confirmed site that moved within the file)"
        b = sites[0][0]
        chk.ob("C08-c", f"{key[0].split('::')[-1]}: {len(sites)} unproven `{key[1]}` cast(s) at line(s) {sorted(l for _, l, _ in sites)}"
                        + (f" -- confirmed: {why}" if why else ""), len(sites) <= allowed,
               key=f"{key[0]}|narrowing|{key[1]}", file=b.file, line=max(l for _, l, _ in sites), fn=b.path,
               detail=f"a cast from {key[1].split('->')[0]} to {key[1].split('->')[1]} of a value the analysis cannot bound "
                      f"({sites[-1][2]}) was added to the character-map lookup path: values that differ only above the target width "
                      f"become the same code point / glyph id")
    chk.stats["C08-c:narrowing_casts"] = n
    chk.stats["C08-c:proved_lossless"] = n_ok
    chk.stats["C08-c:moved_within_file"] = n_moved
    chk.floor("C08-c", "narrowing casts in the character-map readers", n, 8)
