"""T-ZONE: inside a declared zone every panic-capable MIR site is discharged (interval analysis / dominating guard /
confirmed line) or reported."""
import re

from .intervals import Intervals, ty_range
from .mir import op_local, op_place
from .sym import expr_of, show, strip_casts

# calls that panic on some input
PANIC_CALLS = [
    (re.compile(r"^core::option::Option::<T>::(unwrap|expect)$"), "unwrap"),
    (re.compile(r"^core::result::Result::<T, E>::(unwrap|expect|unwrap_err|expect_err)$"), "unwrap"),
    (re.compile(r"^core::panicking::(panic|panic_fmt|panic_explicit|unreachable_display|panic_display|panic_nounwind|assert_failed|panic_const::.*)"), "panic"),
    (re.compile(r"^std::rt::(begin_panic|panic_fmt)"), "panic"),
    (re.compile(r"core::slice::index::<impl core::ops::index::Index(Mut)?<I> for \[T\]>::index(_mut)?$"), "slice-index"),
    (re.compile(r"core::array::<impl core::ops::index::Index(Mut)?<I> for \[T; N\]>::index(_mut)?$"), "slice-index"),
    (re.compile(r"<alloc::vec::Vec<T, A> as core::ops::index::Index(Mut)?<I>>::index(_mut)?$"), "slice-index"),
    (re.compile(r"core::str::traits::<impl core::ops::index::Index"), "slice-index"),
    (re.compile(r"^core::slice::<impl \[T\]>::(copy_from_slice|clone_from_slice|split_at|split_at_mut|copy_within|swap|rotate_left|rotate_right|chunks|chunks_exact|windows|fill_with_never)$"), "slice-op"),
    (re.compile(r"^alloc::vec::Vec::<T, A>::(remove|insert|swap_remove|split_off|drain|truncate_never)$"), "vec-op"),
    (re.compile(r"^core::num::<impl (i|u)(8|16|32|64|128|size)>::(wrapping_div|wrapping_rem|wrapping_div_euclid|wrapping_rem_euclid|"
                r"saturating_div|overflowing_div|overflowing_rem|div_euclid|rem_euclid|div_ceil|div_floor|next_multiple_of|ilog2|ilog10|ilog|isqrt)$"), "div-call"),
    (re.compile(r"^core::num::<impl (i|u)(8|16|32|64|128|size)>::(abs|pow|next_power_of_two)$"), "arith-call"),
    (re.compile(r"^<(i|u)(8|16|32|64|128|size) as core::ops::arith::(Add|Sub|Mul|Neg|Div|Rem|AddAssign|SubAssign|MulAssign|DivAssign)(<.*>)?>::\w+$"), "arith-call"),
    (re.compile(r"^<(i|u)(8|16|32|64|128|size) as core::ops::bit::(Shl|Shr)(<.*>)?>::\w+$"), "arith-call"),
    (re.compile(r"^<(i|u)(8|16|32|64|128|size) as core::iter::traits::accum::(Sum|Product)"), "arith-call"),
    (re.compile(r"^core::cell::RefCell::<T>::(borrow|borrow_mut)$"), "refcell"),
    # `x.clamp(min, max)` asserts `min <= max` (and, for floats, that neither is NaN)
    (re.compile(r"^(core::cmp::Ord::clamp|core::cmp::impls::<impl core::cmp::Ord for \w+>::clamp|core::f(32|64)::<impl f(32|64)>::clamp)$"), "clamp-call"),
]


def panic_kind(callee):
    for rx, kind in PANIC_CALLS:
        if rx.search(callee):
            return kind
    return None


class ZoneResult:
    def __init__(self):
        self.sites = []   # dict(kind, body, bb, line, ok, why, key)

    def add(self, **kw):
        self.sites.append(kw)


def check_zone(bodies, confirmed=None, param_ranges=None, only_kinds=None, call_discharge=None, keep_iv=False, iv_of=None):
    """bodies: iterable of Body.  confirmed: {(fn path, kind, ordinal): reason}."""
    confirmed = confirmed or {}
    res = ZoneResult()
    for b in bodies:
        asserts = list(b.asserts())
        calls = [(bb, t, panic_kind(t.callee)) for bb, t in b.calls()]
        calls = [(bb, t, k) for bb, t, k in calls if k]
        if not asserts and not calls:
            continue
        iv = iv_of(b) if iv_of is not None else None
        if iv is None:
            iv = Intervals(b, param_ranges=(param_ranges or {}).get(b.path))
        ords = {}
        for bb, t in asserts:
            kind = "assert:" + t.d[3]
            if only_kinds and not any(kind.startswith(k) for k in only_kinds):
                continue
            o = ords.get(kind, 0)
            ords[kind] = o + 1
            ok, why = iv.check_assert(bb)
            key = (b.path, kind, o)
            if not ok and key in confirmed:
                ok, why = True, "confirmed: " + confirmed[key]
            res.add(kind=kind, body=b, bb=bb, line=t.line, ok=ok, why=why, key=key, iv=iv if keep_iv else None)
        for bb, t, k in calls:
            kind = "call:" + k + ":" + t.callee.split("::")[-1]
            if only_kinds and not any(kind.startswith(x) for x in only_kinds):
                continue
            if t.from_macro and t.macro in ("debug_assert", "debug_assert_eq", "debug_assert_ne") and False:
                continue
            o = ords.get(kind, 0)
            ords[kind] = o + 1
            ok, why = False, "panics on some input"
            st = iv.state_at_term(bb)
            if st is None:
                ok, why = True, "unreachable (dead by intervals)"
            elif call_discharge is not None:
                r = call_discharge(b, bb, t, iv, st)
                if r:
                    ok, why = True, r
            if not ok and k in ("slice-index", "slice-op", "vec-op") and st is not None:
                r = _slice_call(b, t, iv, st)
                if r:
                    ok, why = True, r
            if not ok and k == "div-call" and st is not None:
                r = _div_call(b, t, iv, st)
                if r:
                    ok, why = True, r
            if not ok and k == "clamp-call" and st is not None:
                r = _clamp_call(b, t, iv, st)
                if r:
                    ok, why = True, r
            if not ok and k == "arith-call" and st is not None:
                r = _arith_call(b, t, iv, st)
                if r:
                    ok, why = True, r
            key = (b.path, kind, o)
            if not ok and key in confirmed:
                ok, why = True, "confirmed: " + confirmed[key]
            res.add(kind=kind, body=b, bb=bb, line=t.line, ok=ok, why=why, key=key, iv=iv if keep_iv else None)
    return res


def _range_agg(b, op):
    """('Range'|'RangeTo'|'RangeFrom'|'RangeToInclusive', [operands]) for a range value built in place"""
    l = op_local(op)
    if l is None:
        return None
    sd = b.single_def(l)
    if sd is None:
        return None
    if hasattr(sd[2], "callee"):
        # `a..=b` is built by a call
        if sd[2].callee.endswith("core::ops::range::RangeInclusive::<Idx>::new") and len(sd[2].args) == 2:
            return "RangeInclusive", list(sd[2].args)
        return None
    rv = sd[2]
    if rv[0] == "use":
        return _range_agg(b, rv[1])
    if rv[0] == "agg" and rv[1][0] == "adt" and rv[1][1].startswith("core::ops::range::Range"):
        return rv[1][1].split("::")[-1], rv[2]
    return None


def _slice_call(b, t, iv, st):
    name = t.callee.split("::")[-1]
    atys = t.d.get("atys") or []
    if name in ("index", "index_mut") and len(t.args) == 2 and len(atys) == 2 and atys[1] == "usize":
        # Vec<T> / [T] indexed by a plain usize through the Index trait
        lt, lr = iv.slice_len(st, t.args[0], atys[0])
        if iv.lt_len(st, t.args[1], lt, lr):
            return "index < len on this path"
        return None
    if name in ("index", "index_mut") and len(t.args) == 2:
        ra = _range_agg(b, t.args[1])
        if ra is None:
            return None
        lt, lr = iv.slice_len(st, t.args[0], atys[0] if atys else None)
        kind, ops = ra
        if kind == "Range" and len(ops) == 2 and iv.le(st, ops[0], ops[1]) and iv.le_len(st, ops[1], lt, lr):
            return "start <= end <= len on this path"
        if kind == "RangeTo" and len(ops) == 1 and iv.le_len(st, ops[0], lt, lr):
            return "end <= len on this path"
        if kind == "RangeFrom" and len(ops) == 1 and iv.le_len(st, ops[0], lt, lr):
            return "start <= len on this path"
        if kind == "RangeFull":
            return "full range"
        # inclusive ranges: slice[a..=b] needs a <= b + 1 and b < len (b == usize::MAX panics as well, excluded by b < len)
        if kind == "RangeInclusive" and len(ops) == 2 and iv.le(st, ops[0], ops[1]) and iv.lt_len(st, ops[1], lt, lr):
            return "start <= end < len on this path"
        if kind == "RangeToInclusive" and len(ops) == 1 and iv.lt_len(st, ops[0], lt, lr):
            return "end < len on this path"
        return None
    if name in ("chunks", "chunks_exact", "windows", "rchunks", "chunks_mut", "chunks_exact_mut") and len(t.args) == 2:
        r = iv.rng(st, t.args[1])
        if r is not None and r[0] >= 1:
            return f"chunk size in [{r[0]}, {r[1]}] is never 0"
    if name == "insert" and len(t.args) == 3 and t.callee.startswith("alloc::vec::Vec"):
        lt, lr = iv.slice_len(st, t.args[0], atys[0] if atys else None)
        if iv.le_len(st, t.args[1], lt, lr):
            return "insertion index <= len on this path"
    if name in ("split_at", "split_at_mut") and len(t.args) == 2:
        lt, lr = iv.slice_len(st, t.args[0], atys[0] if atys else None)
        if iv.le_len(st, t.args[1], lt, lr):
            return "mid <= len on this path"
    return None


def _div_call(b, t, iv, st):
    """std division-like helpers panic on a zero divisor (ilog*/isqrt on non-positive / negative input)"""
    name = t.callee.split("::")[-1]
    args = [iv.rng(st, a) for a in t.args]
    if name in ("ilog2", "ilog10") and args and args[0] is not None and args[0][0] >= 1:
        return "argument is positive"
    if name == "isqrt" and args and args[0] is not None and args[0][0] >= 0:
        return "argument is non-negative"
    if name == "ilog" and len(args) == 2 and args[0] is not None and args[1] is not None and args[0][0] >= 1 and args[1][0] >= 2:
        return "argument positive and base >= 2"
    if len(args) == 2 and args[1] is not None and (args[1][0] > 0 or args[1][1] < 0) and name not in ("ilog", "ilog2", "ilog10", "isqrt"):
        return f"divisor in [{args[1][0]}, {args[1][1]}] excludes 0"
    return None


def _clamp_call(b, t, iv, st):
    """clamp(x, min, max) panics unless min <= max"""
    if len(t.args) != 3:
        return None
    lo, hi = t.args[1], t.args[2]
    a, c = iv.rng(st, lo), iv.rng(st, hi)
    if a is not None and c is not None and a[1] <= c[0]:
        return f"min <= {a[1]} <= {c[0]} <= max"
    if a is not None and c is not None and iv.le(st, lo, hi):
        return "min <= max on this path"
    # two float literals
    def fval(o):
        if o[0] == "k" and o[1] in ("f32", "f64") and len(o) > 3 and isinstance(o[3], str):
            m = re.match(r"^(-?[0-9.eE+-]+)f(32|64)$", o[3])
            if m:
                try:
                    return float(m.group(1))
                except ValueError:
                    return None
        return None
    fl, fh = fval(lo), fval(hi)
    if fl is not None and fh is not None and fl <= fh:
        return f"literal bounds {fl} <= {fh}"
    return None


def _arith_call(b, t, iv, st):
    name = t.callee.split("::")[-1]
    args = [iv.rng(st, a) for a in t.args]
    ty = t.d["atys"][0] if t.d["atys"] else None
    tr = ty_range(ty) if ty else None
    if name == "abs" and args and args[0] is not None and tr is not None and args[0][0] > tr[0]:
        return "abs of a value that excludes MIN"
    if name == "rem_euclid" and len(args) == 2 and args[1] is not None and args[1][0] > 0:
        return "rem_euclid by a positive value"
    if name in ("add", "sub", "mul") and len(args) == 2 and tr is not None:
        m = iv.binop(name.capitalize(), args[0], args[1], tr)
        if m is not None and m[0] >= tr[0] and m[1] <= tr[1]:
            return f"{name} stays in range by intervals"
    if name == "neg" and args and args[0] is not None and tr is not None and args[0][0] > tr[0]:
        return "neg of a value that excludes MIN"
    return None


def report(chk, rid, res, what):
    n_ok = 0
    for s in res.sites:
        b = s["body"]
        desc = f"{b.path} line {s['line']}: {s['kind']}"
        if s["ok"]:
            n_ok += 1
            chk.ob(rid, desc, True, why=s["why"])
        else:
            k = s["key"]
            chk.ob(rid, desc, False, key=f"{k[0]}|{k[1]}|{k[2]}", file=b.file, line=s["line"], fn=b.path,
                   detail=f"{what}: {s['why']}")
    return n_ok


def module_of(path):
    """locality of a function path: everything before its last `::segment` (closure suffixes removed first)"""
    p = re.sub(r"(::\{closure#\d+\})+$", "", path)
    i = p.rfind("::")
    return p[:i] if i > 0 else p


def inventory_slack(conf, inv):
    """unused allowances of confirmed functions that no longer exist under that name (renamed / moved): per (module, kind)"""
    slack = {}
    for p, ent in conf.items():
        if p in inv or not isinstance(ent, dict):
            continue
        for k, n in (ent.get("counts") or {}).items():
            key = (module_of(p), k)
            slack[key] = slack.get(key, 0) + n
    return slack


def draw_slack(slack, path, kind, need):
    key = (module_of(path), kind)
    if need > 0 and slack.get(key, 0) >= need:
        slack[key] -= need
        return True
    return False
