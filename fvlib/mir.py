"""In-memory view of one MIR body as dumped by the driver, with CFG helpers."""
import re


class Term:
    __slots__ = ("kind", "d", "targets", "unwind", "loc")

    def __init__(self, t):
        self.d = t
        self.unwind = None
        self.loc = None
        if isinstance(t, dict):
            self.kind = "call"
            self.targets = [t["target"]] if t["target"] is not None else []
            self.unwind = t["unwind"]
            self.loc = t["loc"]
        else:
            self.kind = t[0]
            k = self.kind
            if k == "goto":
                self.targets = [t[1]]
            elif k == "switch":
                self.targets = [bb for _, bb in t[2]] + [t[3]]
                self.loc = t[5]
            elif k == "drop":
                self.targets = [t[2]]
                self.unwind = t[3]
            elif k == "assert":
                self.targets = [t[5]]
                self.unwind = t[6]
                self.loc = t[7]
            elif k == "ret":
                self.targets = []
                self.loc = t[1]
            else:
                self.targets = []

    # call accessors
    @property
    def callee(self):
        return self.d["callee"]

    @property
    def args(self):
        return self.d["args"]

    @property
    def dest(self):
        return self.d["dest"]

    @property
    def line(self):
        return self.loc[0] if self.loc else None

    @property
    def from_macro(self):
        return bool(self.loc and self.loc[2] == 1)

    @property
    def macro(self):
        return self.loc[3] if self.loc and self.loc[2] == 1 else None

    @property
    def outer_macro(self):
        """the macro written at the source call site (outermost expansion), e.g. `debug_assert`"""
        return self.loc[4] if self.loc and len(self.loc) > 4 and self.loc[2] == 1 else None


class Block:
    __slots__ = ("stmts", "term", "cleanup")

    def __init__(self, d):
        self.stmts = d["s"]
        self.term = Term(d["t"])
        self.cleanup = d["c"]


def op_place(op):
    """place of a copy/move operand, else None"""
    if op[0] in ("c", "m"):
        return op[1]
    return None


def op_local(op):
    """local of a copy/move operand that names a bare local, else None"""
    p = op_place(op)
    if p is not None and not p[1]:
        return p[0]
    return None


def op_const(op):
    """(type, value-as-int-or-None) for constants"""
    if op[0] == "k":
        v = op[2]
        if isinstance(v, str):
            try:
                return op[1], int(v)
            except ValueError:
                return op[1], None
        return op[1], None
    return None


def op_fn(op):
    if op[0] == "k" and isinstance(op[2], list) and op[2][0] == "fn":
        return op[2][1]
    return None


def place_key(p):
    """hashable canonical form of a place"""
    return (p[0], tuple(tuple(x) if isinstance(x, list) else x for x in p[1]))


def strip_generics(path):
    """remove `::<...>` turbofish segments (balanced) for loose matching"""
    out = []
    depth = 0
    i = 0
    while i < len(path):
        if path.startswith("::<", i) and depth == 0 and not path.startswith("::<impl", i):
            # skip balanced
            j = i + 3
            d = 1
            while j < len(path) and d:
                if path[j] == "<":
                    d += 1
                elif path[j] == ">" and path[j - 1] != "-":
                    d -= 1
                j += 1
            i = j
            continue
        out.append(path[i])
        i += 1
    return "".join(out)


class Body:
    def __init__(self, d):
        self.d = d
        self.path = d["path"]
        self.crate = d["crate"]
        self.file = d["file"]
        self.lo = d["lo"]
        self.hi = d["hi"]
        self.kind = d["kind"]
        self.argc = d["argc"]
        self.locals = d["locals"]
        self.blocks = [Block(b) for b in d["blocks"]]
        self.dbg = d["dbg"]
        self._dom = None
        self._preds = None
        self._defs = None
        self._reach = {}

    @property
    def generated(self):
        return "/generated/" in self.file

    def __repr__(self):
        return f"<Body {self.path}>"

    # ---- names ----------------------------------------------------------------------
    def local_name(self, l):
        for name, pl in self.dbg:
            if pl[0] == l and not pl[1]:
                return name
        return f"_{l}"

    def local_by_name(self, name):
        out = [pl[0] for n, pl in self.dbg if n == name and not pl[1]]
        return out

    def local_ty(self, l):
        return self.locals[l][0]

    def place_str(self, p):
        s = self.local_name(p[0])
        for e in p[1]:
            if e == "*":
                s = f"(*{s})"
            elif e[0] == "f":
                s = f"{s}.{e[2] if e[2] is not None else e[1]}"
            elif e[0] == "i":
                s = f"{s}[{self.local_name(e[1])}]"
            elif e[0] == "c":
                s = f"{s}[{'-' if e[3] else ''}{e[1]}]"
            elif e[0] == "d":
                s = f"({s} as {e[2]})"
            elif e[0] == "s":
                s = f"{s}[{e[1]}..{e[2]}]"
            else:
                s = f"{s}.?"
        return s

    def op_str(self, op):
        if op[0] in ("c", "m"):
            return self.place_str(op[1])
        if op[0] == "k":
            if isinstance(op[2], list):
                return op[2][1]
            return f"{op[2]}_{op[1]}" if op[2] is not None else f"const {op[1]}"
        return "?"

    # ---- CFG ------------------------------------------------------------------------
    def succ(self, bb, unwind=False):
        t = self.blocks[bb].term
        if unwind and t.unwind is not None:
            return t.targets + [t.unwind]
        return t.targets

    def preds(self):
        if self._preds is None:
            p = [[] for _ in self.blocks]
            for i, b in enumerate(self.blocks):
                for s in b.term.targets:
                    p[s].append(i)
            self._preds = p
        return self._preds

    def reachable_from(self, bb, unwind=False):
        key = (bb, unwind)
        if key in self._reach:
            return self._reach[key]
        seen = {bb}
        st = [bb]
        while st:
            x = st.pop()
            for s in self.succ(x, unwind):
                if s not in seen:
                    seen.add(s)
                    st.append(s)
        self._reach[key] = seen
        return seen

    def dominators(self):
        """dom[b] = set of blocks dominating b (over normal edges, from bb0)."""
        if self._dom is not None:
            return self._dom
        n = len(self.blocks)
        reach = self.reachable_from(0)
        order = []
        seen = set()

        def dfs(start):
            st = [(start, iter(self.succ(start)))]
            seen.add(start)
            while st:
                node, it = st[-1]
                adv = False
                for s in it:
                    if s not in seen:
                        seen.add(s)
                        st.append((s, iter(self.succ(s))))
                        adv = True
                        break
                if not adv:
                    order.append(node)
                    st.pop()
        dfs(0)
        rpo = order[::-1]
        idx = {b: i for i, b in enumerate(rpo)}
        preds = self.preds()
        idom = {0: 0}
        changed = True
        while changed:
            changed = False
            for b in rpo[1:]:
                ps = [p for p in preds[b] if p in idom]
                if not ps:
                    continue
                new = ps[0]
                for p in ps[1:]:
                    a, c = p, new
                    while a != c:
                        while idx[a] > idx[c]:
                            a = idom[a]
                        while idx[c] > idx[a]:
                            c = idom[c]
                    new = a
                if idom.get(b) != new:
                    idom[b] = new
                    changed = True
        dom = {}
        for b in reach:
            s = {b}
            x = b
            while x != 0 and x in idom:
                x = idom[x]
                s.add(x)
            dom[b] = s
        self._dom = dom
        self._idom = idom
        return dom

    def dominates(self, a, b):
        d = self.dominators()
        return b in d and a in d[b]

    # ---- events ---------------------------------------------------------------------
    def calls(self, include_cleanup=False):
        for i, b in enumerate(self.blocks):
            if b.cleanup and not include_cleanup:
                continue
            if b.term.kind == "call":
                yield i, b.term

    def asserts(self):
        for i, b in enumerate(self.blocks):
            if b.cleanup:
                continue
            if b.term.kind == "assert":
                yield i, b.term

    def stmts(self):
        for i, b in enumerate(self.blocks):
            if b.cleanup:
                continue
            for j, s in enumerate(b.stmts):
                yield i, j, s

    def return_blocks(self):
        return [i for i, b in enumerate(self.blocks) if b.term.kind == "ret" and not b.cleanup]

    # ---- definitions ----------------------------------------------------------------
    def defs(self):
        """local -> list of (bb, idx|'term', rvalue-or-call) for whole-local assignments"""
        if self._defs is None:
            d = {}
            for i, b in enumerate(self.blocks):
                if b.cleanup:
                    continue
                for j, s in enumerate(b.stmts):
                    if s[0] == "A" and not s[1][1]:
                        d.setdefault(s[1][0], []).append((i, j, s[2]))
                t = b.term
                if t.kind == "call" and not t.dest[1]:
                    d.setdefault(t.dest[0], []).append((i, "term", t))
            self._defs = d
        return self._defs

    def single_def(self, l):
        ds = self.defs().get(l, [])
        if len(ds) == 1:
            return ds[0]
        return None

    @staticmethod
    def _join(a, b):
        a = list(a)
        b = list(b)
        while a and b and a[-1] == "&" and b[0] == "*":
            a.pop()
            b.pop(0)
        return a + b

    def root_place(self, p, depth=0):
        """Follow reborrows/copies of single-assignment temporaries back to a root place.
        Returns a place (local + projection); the pseudo projection "&" means "a reference to"
        and "deref()" a smart-pointer deref call."""
        l, projs = p[0], list(p[1])
        if depth > 25:
            return [l, projs]
        if 0 < l <= self.argc:
            return [l, projs]
        sd = self.single_def(l)
        if sd is None:
            return [l, projs]
        rv = sd[2]
        if isinstance(rv, Term):
            # smart-pointer deref: `*guard` lowers to Deref::deref(&guard) / DerefMut::deref_mut(&mut guard)
            if (rv.callee.endswith("as core::ops::deref::DerefMut>::deref_mut") or rv.callee.endswith("as core::ops::deref::Deref>::deref")) \
                    and rv.args and op_place(rv.args[0]) is not None:
                r = self.root_place(op_place(rv.args[0]), depth + 1)
                return [r[0], self._join([e for e in r[1] if e != "&"] + ["deref()", "&"], projs)]
            return [l, projs]
        k = rv[0]
        if k == "use" or k == "cast":
            src = op_place(rv[1] if k == "use" else rv[2])
            if src is None:
                return [l, projs]
            r = self.root_place(src, depth + 1)
            return [r[0], self._join(r[1], projs)]
        if k == "ref" or k == "raw":
            r = self.root_place(rv[2], depth + 1)
            return [r[0], self._join(list(r[1]) + ["&"], projs)]
        return [l, projs]

    def root_local(self, op_or_place):
        p = op_or_place
        if p and p[0] in ("c", "m", "k"):
            p = op_place(p)
            if p is None:
                return None
        return self.root_place(p)[0]


CALL_ERR_RE = re.compile(r"FromResidual<.*>>::from_residual$")


def is_from_residual(callee):
    return callee.endswith("::from_residual") and "FromResidual" in callee


def is_try_branch(callee):
    return callee.endswith("as core::ops::try_trait::Try>::branch")
