"""Merged instance-level call graph + SCCs."""
import sys


class CallGraph:
    def __init__(self, facts, crates=None):
        self.facts = facts
        self.key_id = {}
        self.nodes = []     # dict per node: path,args,mono,file,line,crates
        self.succ = []      # list of dict: to -> [(kind, line, crate)]
        self.unresolved = []  # (node, what, line)
        for c in (crates or facts.crates):
            local = {}
            for r in facts.records("cgnode", c):
                k = (r["path"], r["args"] if r["mono"] else "")
                if k not in self.key_id:
                    self.key_id[k] = len(self.nodes)
                    self.nodes.append({"path": r["path"], "args": r["args"], "mono": r["mono"], "file": r["file"],
                                       "line": r["line"], "has_body": r["has_body"], "crates": {c}})
                    self.succ.append({})
                else:
                    n = self.nodes[self.key_id[k]]
                    n["crates"].add(c)
                    n["has_body"] = n["has_body"] or r["has_body"]
                local[r["id"]] = self.key_id[k]
            for r in facts.records("cgedges", c):
                for f, t, kind, line in r["edges"]:
                    a, b = local[f], local[t]
                    self.succ[a].setdefault(b, []).append((kind, line, c))
                for f, what, line in r["unresolved"]:
                    self.unresolved.append((local[f], what, line))

    def name(self, i):
        n = self.nodes[i]
        return n["path"] + (f" {n['args']}" if n["mono"] and n["args"] != "[]" else "")

    def sccs(self):
        """Tarjan, iterative.  Returns list of SCCs (lists of node ids) that contain a cycle."""
        n = len(self.nodes)
        index = [None] * n
        low = [0] * n
        onstack = [False] * n
        stack = []
        out = []
        counter = [0]
        for root in range(n):
            if index[root] is not None:
                continue
            work = [(root, iter(self.succ[root]))]
            index[root] = low[root] = counter[0]
            counter[0] += 1
            stack.append(root)
            onstack[root] = True
            while work:
                v, it = work[-1]
                advanced = False
                for w in it:
                    if index[w] is None:
                        index[w] = low[w] = counter[0]
                        counter[0] += 1
                        stack.append(w)
                        onstack[w] = True
                        work.append((w, iter(self.succ[w])))
                        advanced = True
                        break
                    elif onstack[w]:
                        low[v] = min(low[v], index[w])
                if advanced:
                    continue
                work.pop()
                if work:
                    u = work[-1][0]
                    low[u] = min(low[u], low[v])
                if low[v] == index[v]:
                    comp = []
                    while True:
                        w = stack.pop()
                        onstack[w] = False
                        comp.append(w)
                        if w == v:
                            break
                    if len(comp) > 1 or v in self.succ[v]:
                        out.append(comp)
        return out

    def reachable(self, roots):
        seen = set(roots)
        st = list(roots)
        while st:
            x = st.pop()
            for y in self.succ[x]:
                if y not in seen:
                    seen.add(y)
                    st.append(y)
        return seen
