"""Dominating guards (T-GUARD), bail-path classification, result-fate queries (T-ERR)."""
from .mir import Term, op_place, op_local
from .sym import expr_of, strip_casts, show


class Guard:
    def __init__(self, body, bb, cond, taken, bails, taken_val):
        self.body = body
        self.bb = bb
        self.cond = cond          # expression of the switch operand
        self.taken = taken        # successor that can reach the site
        self.bails = bails        # successors that cannot
        self.taken_val = taken_val  # switch value leading to `taken` ('otherwise' or int)
        self.line = body.blocks[bb].term.line

    def cond_str(self):
        return show(self.body, self.cond)


def branch_guards(body, site_bb):
    """Every switch block that dominates `site_bb` and has at least one successor from which the
    site is unreachable ("bail" edge) and exactly one from which it is reachable."""
    out = []
    dom = body.dominators()
    if site_bb not in dom:
        return out
    for bb in dom[site_bb]:
        t = body.blocks[bb].term
        if t.kind != "switch":
            continue
        arms = [(int(v), tgt) for v, tgt in t.d[2]] + [("otherwise", t.d[3])]
        reach = []
        bails = []
        for v, tgt in arms:
            # ignore unreachable otherwise blocks
            if body.blocks[tgt].term.kind == "unreachable":
                continue
            if tgt == site_bb or _reaches_avoiding(body, tgt, site_bb, bb):
                reach.append((v, tgt))
            else:
                bails.append((v, tgt))
        if len(reach) == 1 and bails:
            cond = strip_casts(expr_of(body, t.d[1]))
            out.append(Guard(body, bb, cond, reach[0][1], bails, reach[0][0]))
    return out


def _reaches_avoiding(body, start, goal, avoid):
    """is `goal` reachable from `start` without passing through `avoid` (a loop's guard is re-evaluated per iteration)"""
    if start == avoid:
        return False
    seen = {start}
    st = [start]
    while st:
        x = st.pop()
        if x == goal:
            return True
        for s in body.succ(x):
            if s not in seen and s != avoid:
                seen.add(s)
                st.append(s)
    return False


def blocks_until_return(body, start, limit=60):
    """blocks reachable from start (normal edges)"""
    return body.reachable_from(start)


def adt_aggregates(body, blocks):
    """[(bb, adt path, variant name, operands)] for aggregate constructions in `blocks`"""
    out = []
    for bb in blocks:
        for st in body.blocks[bb].stmts:
            if st[0] == "A" and st[2][0] == "agg" and st[2][1][0] == "adt":
                out.append((bb, st[2][1][1], st[2][1][3], st[2][2], st))
    return out


def bail_error_variants(body, guard):
    """variant names constructed on the bail side only (blocks reachable from a bail target but not
    from the taken target)"""
    taken_reach = body.reachable_from(guard.taken)
    names = []
    for _, tgt in guard.bails:
        only = body.reachable_from(tgt) - taken_reach
        only.add(tgt)
        for bb, adt, variant, ops, st in adt_aggregates(body, only):
            names.append((adt, variant))
    return names


def expr_mentions_call(e, suffixes):
    """does expression tree `e` contain a call whose callee ends with one of `suffixes`?"""
    if not isinstance(e, tuple):
        return False
    if e and e[0] == "call":
        if any(e[1].endswith(s) or (s in e[1]) for s in suffixes):
            return True
        return any(expr_mentions_call(a, suffixes) for a in e[2])
    return any(expr_mentions_call(x, suffixes) for x in e[1:] if isinstance(x, (tuple, list))) or \
        any(expr_mentions_call(y, suffixes) for x in e[1:] if isinstance(x, list) for y in x)


def calls_in_expr(e, out=None):
    if out is None:
        out = []
    if isinstance(e, tuple):
        if e and e[0] == "call":
            out.append(e[1])
            for a in e[2]:
                calls_in_expr(a, out)
        else:
            for x in e[1:]:
                if isinstance(x, tuple):
                    calls_in_expr(x, out)
                elif isinstance(x, list):
                    for y in x:
                        calls_in_expr(y, out)
    return out


# ---- fate of a call's result (T-ERR) ---------------------------------------------------------
PASS_THROUGH = ("::map_err", "::map", "::and_then", "::or_else", "::ok_or", "::ok_or_else", "::inspect_err",
                "as core::convert::From<", "as core::convert::Into<", "::copied", "::cloned", "::as_ref")
SWALLOW = ("::unwrap", "::expect", "::unwrap_or", "::unwrap_or_default", "::unwrap_or_else", "::ok", "::is_ok",
           "::is_err", "::unwrap_unchecked", "::err", "::is_some", "::is_none")


def uses_of_local(body, l):
    """[(bb, kind, obj)] where the whole local `l` is read: kind in 'call-arg','assign','switch','ret','drop'"""
    out = []
    for i, blk in enumerate(body.blocks):
        if blk.cleanup:
            continue
        for j, st in enumerate(blk.stmts):
            if st[0] != "A":
                continue
            rv = st[2]
            ops = []
            if rv[0] in ("use", "repeat"):
                ops = [rv[1]]
            elif rv[0] == "bin":
                ops = [rv[2], rv[3]]
            elif rv[0] in ("un",):
                ops = [rv[2]]
            elif rv[0] == "cast":
                ops = [rv[2]]
            elif rv[0] == "agg":
                ops = rv[2]
            for o in ops:
                p = op_place(o)
                if p is not None and p[0] == l:
                    out.append((i, "assign", st))
            if rv[0] in ("ref", "raw") and rv[2][0] == l:
                out.append((i, "ref", st))
            if rv[0] == "disc" and rv[1][0] == l:
                out.append((i, "disc", st))
        t = blk.term
        if t.kind == "call":
            for a in t.args:
                p = op_place(a)
                if p is not None and p[0] == l:
                    out.append((i, "call-arg", t))
        elif t.kind == "switch":
            p = op_place(t.d[1])
            if p is not None and p[0] == l:
                out.append((i, "switch", t))
        elif t.kind == "drop":
            if t.d[1][0] == l and not t.d[1][1]:
                out.append((i, "drop", t))
    return out


def result_fate(body, call_bb, depth=0, local=None):
    """How the Result/Option produced by the call in `call_bb` is consumed.
    Returns a set of strings: 'propagated' (reaches `?`), 'returned' (moved into _0), 'matched' (discriminant
    inspected), 'swallowed:<fn>', 'dropped', 'escapes:<what>'."""
    if local is None:
        t = body.blocks[call_bb].term
        if t.dest[1]:
            return {"escapes:projection"}
        local = t.dest[0]
    if local == 0:
        return {"returned"}
    if depth > 12:
        return {"escapes:deep"}
    fates = set()
    uses = [u for u in uses_of_local(body, local) if u[1] != "drop"]
    if not uses:
        return {"dropped"}
    for bb, kind, obj in uses:
        if kind == "call-arg":
            c = obj.callee
            if c.endswith("as core::ops::try_trait::Try>::branch"):
                fates.add("propagated")
            elif any(c.endswith(s) for s in SWALLOW):
                fates.add("swallowed:" + c.split("::")[-1])
            elif any(c.endswith(s) or (s.endswith("<") and s in c) for s in PASS_THROUGH):
                if obj.dest[1]:
                    fates.add("escapes:projection")
                else:
                    fates |= result_fate(body, bb, depth + 1, obj.dest[0])
            else:
                fates.add("escapes:arg-of:" + c)
        elif kind == "assign":
            st = obj
            if st[1][1]:
                fates.add("escapes:stored")
            else:
                fates |= result_fate(body, bb, depth + 1, st[1][0])
        elif kind == "disc":
            fates.add("matched")
        elif kind == "ref":
            st = obj
            if not st[1][1]:
                fates |= result_fate(body, bb, depth + 1, st[1][0])
            else:
                fates.add("escapes:ref")
        elif kind == "switch":
            fates.add("matched")
    return fates
