"""Where does the order of an iterator go?  Follows an iterator value from the call that created it through
adapter calls to its terminal consumer and classifies the consumer as order-insensitive or not."""
import re

from .guards import uses_of_local
from .mir import op_place

ITER = "core::iter::traits::iterator::Iterator::"
ADAPTERS = {"map", "filter", "filter_map", "copied", "cloned", "flat_map", "chain", "enumerate", "zip", "peekable", "rev",
            "skip", "take", "inspect", "flatten", "map_while", "take_while", "skip_while", "by_ref", "fuse", "step_by", "scan"}
INSENSITIVE = {"count", "all", "any", "min", "max"}
INT_TYS = ("u8", "u16", "u32", "u64", "u128", "usize", "i8", "i16", "i32", "i64", "i128", "isize")
UNORDERED_TARGETS = ("alloc::collections::btree::map::BTreeMap<", "alloc::collections::btree::set::BTreeSet<",
                     "std::collections::hash::map::HashMap<", "std::collections::hash::set::HashSet<",
                     "read_fonts::collections::int_set::IntSet<", "indexmap::set::IndexSet<NO", )
SORTS = ("::sort", "::sort_unstable", "::sort_by", "::sort_by_key", "::sort_unstable_by", "::sort_unstable_by_key",
         "::sort_by_cached_key")


def _short(callee):
    return callee.split("::")[-1]


def classify(body, call_bb, depth=0, local=None):
    """returns list of (kind, detail, bb) terminals; kind in
       'insensitive' | 'sorted-vec' | 'for-loop' | 'sensitive' | 'escapes' | 'unused'"""
    if local is None:
        t = body.blocks[call_bb].term
        if t.dest[1]:
            return [("escapes", "stored through a projection", call_bb)]
        local = t.dest[0]
    if depth > 14:
        return [("escapes", "too deep", call_bb)]
    out = []
    uses = [u for u in uses_of_local(body, local) if u[1] != "drop"]
    if not uses:
        return [("unused", "", call_bb)]
    for bb, kind, obj in uses:
        if kind == "assign":
            st = obj
            if st[1][1]:
                out.append(("escapes", "stored into " + body.place_str(st[1]), bb))
            elif st[1][0] == 0:
                out.append(("escapes", "returned", bb))
            else:
                out += classify(body, bb, depth + 1, st[1][0])
        elif kind == "ref":
            st = obj
            if st[1][1]:
                out.append(("escapes", "reference stored", bb))
            else:
                out += classify(body, bb, depth + 1, st[1][0])
        elif kind == "call-arg":
            t = obj
            c = t.callee
            name = _short(c)
            dl = t.dest[0] if not t.dest[1] else None
            is_iter_method = c.startswith(ITER) or " as core::iter::traits::iterator::Iterator>::" in c \
                or "core::iter::traits::double_ended::DoubleEndedIterator" in c
            if c.endswith("core::iter::traits::collect::IntoIterator>::into_iter") or (is_iter_method and name in ADAPTERS):
                if dl is None:
                    out.append(("escapes", "adapter result stored", bb))
                else:
                    out += classify(body, bb, depth + 1, dl)
            elif is_iter_method and name == "next":
                out.append(("for-loop", f"loop at line {t.line}", bb))
            elif is_iter_method and name in INSENSITIVE:
                out.append(("insensitive", name, bb))
            elif is_iter_method and name in ("sum", "product"):
                dty = t.d["dty"]
                if dty in INT_TYS:
                    out.append(("insensitive", f"{name}::<{dty}>", bb))
                else:
                    out.append(("sensitive", f"{name} over {dty} (not associative)", bb))
            elif (is_iter_method and name == "collect") or c.endswith("::from_iter") or name == "extend":
                if name == "extend":
                    tgt = t.d["atys"][0].lstrip("&mut ").strip()
                else:
                    tgt = t.d["dty"]
                if tgt.startswith(UNORDERED_TARGETS):
                    out.append(("insensitive", f"{name} into {tgt.split('<')[0].split('::')[-1]}", bb))
                elif tgt.startswith("alloc::vec::Vec<") and dl is not None and name != "extend":
                    out.append(_vec_sorted(body, bb, dl, t))
                else:
                    out.append(("sensitive", f"{name} into {tgt[:60]}", bb))
            elif c.endswith("::len") or c.endswith("::is_empty") or c.endswith("::contains") or c.endswith("::contains_key"):
                out.append(("insensitive", name, bb))
            elif is_iter_method:
                out.append(("sensitive", name, bb))
            else:
                out.append(("escapes", f"passed to {c[:80]}", bb))
        elif kind in ("disc", "switch"):
            out.append(("escapes", "inspected", bb))
    return out


def _vec_sorted(body, bb, vec_local, t):
    """the collected Vec is sorted before any other use"""
    uses = [u for u in uses_of_local(body, vec_local) if u[1] != "drop"]
    sort_bbs = []
    others = []
    for ub, kind, obj in uses:
        if kind == "ref":
            # &mut vec -> deref_mut -> sort
            st = obj
            if not st[1][1]:
                chain = _follow_to_sort(body, st[1][0])
                if chain is not None:
                    sort_bbs.append(chain)
                    continue
        others.append(ub)
    if sort_bbs and all(any(body.dominates(s, o) for s in sort_bbs) for o in others):
        key = ""
        return ("sorted-vec", f"collected into a Vec that is sorted (line {body.blocks[sort_bbs[0]].term.line}) before any other use", bb)
    return ("sensitive", "collect into Vec (not sorted before use)", bb)


def _follow_to_sort(body, l, depth=0):
    if depth > 5:
        return None
    for ub, kind, obj in uses_of_local(body, l):
        if kind == "call-arg":
            c = obj.callee
            if any(c.endswith(s) for s in SORTS):
                return ub
            if c.endswith("deref_mut") and not obj.dest[1]:
                r = _follow_to_sort(body, obj.dest[0], depth + 1)
                if r is not None:
                    return r
        elif kind in ("assign", "ref") and not obj[1][1]:
            r = _follow_to_sort(body, obj[1][0], depth + 1)
            if r is not None:
                return r
    return None
