"""Fact extraction: runs the rustc_private driver over /repo's current working tree
(cached by a hash of the tree) and gives indexed, lazy access to the JSON facts."""
import fcntl
import hashlib
import json
import os
import pickle
import re
import shutil
import subprocess
import sys
import time

VERIF = os.path.dirname(os.path.dirname(os.path.abspath(__file__)))
REPO = os.environ.get("FV_REPO", "/repo")
CACHE = os.path.join(VERIF, ".cache")
DRIVER_DIR = os.path.join(VERIF, "driver")
DRIVER_BIN = os.path.join(DRIVER_DIR, "target", "debug", "fvdriver")

LIB_CRATES = [
    # (cargo package, rustc crate name)
    ("font-types", "font_types"),
    ("read-fonts", "read_fonts"),
    ("skrifa", "skrifa"),
    ("write-fonts", "write_fonts"),
    ("klippa", "klippa"),
    ("incremental-font-transfer", "incremental_font_transfer"),
    ("shared-brotli-patch-decoder", "shared_brotli_patch_decoder"),
]

# Feature configurations.  "union" is what cargo resolves when the seven libraries are
# checked together with default features (quick tier).  The others are thorough-tier.
CONFIGS = {
    "union": {
        "args": sum([["-p", p] for p, _ in LIB_CRATES], []) + ["--lib"],
        "crates": [c for _, c in LIB_CRATES],
    },
    "allfeat": {
        "args": ["-p", "font-types", "-p", "read-fonts", "-p", "skrifa", "-p", "write-fonts",
                 "--lib", "--all-features"],
        "crates": ["font_types", "read_fonts", "skrifa", "write_fonts"],
    },
    "skrifa_libm": {
        "args": ["-p", "skrifa", "--lib", "--no-default-features", "--features", "libm"],
        "crates": ["font_types", "read_fonts", "skrifa"],
    },
    "ift_rust_brotli": {
        "args": ["-p", "incremental-font-transfer", "-p", "shared-brotli-patch-decoder", "--lib",
                 "--no-default-features", "--features",
                 "incremental-font-transfer/rust-brotli"],
        "crates": ["incremental_font_transfer", "shared_brotli_patch_decoder"],
    },
}


def log(msg):
    print(f"[fv] {msg}", file=sys.stderr, flush=True)


def tree_hash(repo=REPO):
    """Hash of every file that can influence the analysed program."""
    h = hashlib.sha256()
    entries = []
    for root, dirs, files in os.walk(repo):
        dirs[:] = sorted(d for d in dirs if d not in ("target", ".git", "node_modules"))
        for f in sorted(files):
            if f.endswith(".rs") or f in ("Cargo.toml", "Cargo.lock") or f.endswith(".toml"):
                entries.append(os.path.join(root, f))
    for p in entries:
        h.update(os.path.relpath(p, repo).encode())
        h.update(b"\0")
        with open(p, "rb") as fh:
            h.update(hashlib.sha256(fh.read()).digest())
    # the driver is part of the key
    for root, dirs, files in os.walk(os.path.join(DRIVER_DIR, "src")):
        for f in sorted(files):
            with open(os.path.join(root, f), "rb") as fh:
                h.update(hashlib.sha256(fh.read()).digest())
    return h.hexdigest()[:20]


def nightly_sysroot():
    return subprocess.check_output(["rustc", "+nightly", "--print", "sysroot"], text=True).strip()


def ensure_driver():
    env = dict(os.environ, CARGO_NET_OFFLINE="true")
    r = subprocess.run(["cargo", "build", "--offline"], cwd=DRIVER_DIR, env=env,
                       stdout=subprocess.PIPE, stderr=subprocess.STDOUT, text=True)
    if r.returncode != 0 or not os.path.exists(DRIVER_BIN):
        sys.stderr.write(r.stdout)
        raise SystemExit("fv: driver build failed")


class Lock:
    def __init__(self, name):
        os.makedirs(CACHE, exist_ok=True)
        self.path = os.path.join(CACHE, name + ".lock")

    def __enter__(self):
        self.fh = open(self.path, "w")
        fcntl.flock(self.fh, fcntl.LOCK_EX)
        return self

    def __exit__(self, *a):
        fcntl.flock(self.fh, fcntl.LOCK_UN)
        self.fh.close()


def _prune_cache(keep):
    """Keep disk use bounded: only the most recent fact sets survive."""
    base = os.path.join(CACHE, "facts")
    if not os.path.isdir(base):
        return
    ds = sorted((os.path.getmtime(os.path.join(base, d)), d) for d in os.listdir(base))
    for _, d in ds[:-keep]:
        shutil.rmtree(os.path.join(base, d), ignore_errors=True)


def build_facts(config="union", callgraph=True):
    """Returns the directory holding <crate>.facts.jsonl for the current tree."""
    cfg = CONFIGS[config]
    with Lock("build-" + config):
        ensure_driver()
        th = tree_hash()
        out = os.path.join(CACHE, "facts", f"{th}-{config}")
        stamp = os.path.join(out, "OK")
        if os.path.exists(stamp) and all(
                os.path.exists(os.path.join(out, c + ".facts.jsonl")) for c in cfg["crates"]):
            os.utime(out)
            return out
        shutil.rmtree(out, ignore_errors=True)
        os.makedirs(out)
        target = os.path.join(CACHE, "target-" + config)
        # cargo's freshness cache would skip the wrapper: drop workspace members' fingerprints
        fp = os.path.join(target, "debug", ".fingerprint")
        if os.path.isdir(fp):
            for d in os.listdir(fp):
                if any(d.startswith(p + "-") for p, _ in LIB_CRATES):
                    shutil.rmtree(os.path.join(fp, d), ignore_errors=True)
        env = dict(os.environ)
        env.update({
            "LD_LIBRARY_PATH": nightly_sysroot() + "/lib",
            "CARGO_NET_OFFLINE": "true",
            "FV_CRATES": ",".join(cfg["crates"]),
            "FV_OUT": out,
            "FV_CALLGRAPH": "1" if callgraph else "0",
            "RUSTFLAGS": "-Zmir-opt-level=0 -Coverflow-checks=on -Cdebug-assertions=on "
                         "-Zalways-encode-mir -Awarnings",
            "RUSTC_WORKSPACE_WRAPPER": DRIVER_BIN,
            "CARGO_TARGET_DIR": target,
        })
        env.pop("RUSTC_WRAPPER", None)
        t0 = time.time()
        cmd = ["cargo", "+nightly", "check", "--offline"] + cfg["args"]
        r = subprocess.run(cmd, cwd=REPO, env=env, stdout=subprocess.PIPE,
                           stderr=subprocess.STDOUT, text=True)
        if r.returncode != 0:
            sys.stderr.write(r.stdout[-8000:])
            raise SystemExit(f"fv: fact extraction failed for config {config} "
                             f"(the tree does not compile, or the driver crashed)")
        for c in cfg["crates"]:
            p = os.path.join(out, c + ".facts.jsonl")
            if not os.path.exists(p):
                sys.stderr.write(r.stdout[-4000:])
                raise SystemExit(f"fv: fact file missing for {c}: driver was skipped")
        open(stamp, "w").write(str(time.time() - t0))
        log(f"facts[{config}] built in {time.time() - t0:.1f}s -> {out}")
        _prune_cache(keep=10)
        return out


def build_fixture_facts(name="engine"):
    """facts of the engine fixture crate /verif/fixtures/<name> (same driver, same flags as the real build)"""
    src = os.path.join(VERIF, "fixtures", name)
    with Lock("build-fixture-" + name):
        ensure_driver()
        h = hashlib.sha256()
        for root, dirs, files in os.walk(src):
            dirs[:] = sorted(d for d in dirs if d != "target")
            for f in sorted(files):
                if f.endswith(".rs") or f.endswith(".toml"):
                    h.update(open(os.path.join(root, f), "rb").read())
        for root, dirs, files in os.walk(os.path.join(DRIVER_DIR, "src")):
            for f in sorted(files):
                h.update(open(os.path.join(root, f), "rb").read())
        out = os.path.join(CACHE, "facts", f"fixture-{name}-{h.hexdigest()[:16]}")
        crate = "fv_" + name + "_fixture"
        if os.path.exists(os.path.join(out, "OK")) and os.path.exists(os.path.join(out, crate + ".facts.jsonl")):
            os.utime(out)
            return out, crate
        shutil.rmtree(out, ignore_errors=True)
        os.makedirs(out)
        target = os.path.join(CACHE, "target-fixture-" + name)
        shutil.rmtree(target, ignore_errors=True)
        env = dict(os.environ)
        env.update({
            "LD_LIBRARY_PATH": nightly_sysroot() + "/lib",
            "CARGO_NET_OFFLINE": "true",
            "FV_CRATES": crate,
            "FV_OUT": out,
            "FV_CALLGRAPH": "0",
            "RUSTFLAGS": "-Zmir-opt-level=0 -Coverflow-checks=on -Cdebug-assertions=on -Zalways-encode-mir -Awarnings",
            "RUSTC_WORKSPACE_WRAPPER": DRIVER_BIN,
            "CARGO_TARGET_DIR": target,
        })
        env.pop("RUSTC_WRAPPER", None)
        r = subprocess.run(["cargo", "+nightly", "check", "--offline", "--lib"], cwd=src, env=env, stdout=subprocess.PIPE,
                           stderr=subprocess.STDOUT, text=True)
        if r.returncode != 0 or not os.path.exists(os.path.join(out, crate + ".facts.jsonl")):
            sys.stderr.write(r.stdout[-3000:])
            raise SystemExit("fv: fixture fact extraction failed")
        open(os.path.join(out, "OK"), "w").write("ok")
        return out, crate


_KRE = re.compile(rb'^\{"k":"([a-z_]+)","crate":"([a-z_]+)"(?:,"path":"((?:[^"\\]|\\.)*)")?')


class Facts:
    """Indexed access to the facts of one configuration."""

    def __init__(self, config="union", callgraph=True):
        self.config = config
        if config.startswith("fixture:"):
            self.dir, crate = build_fixture_facts(config.split(":", 1)[1])
            self.crates = [crate]
        else:
            self.dir = build_facts(config, callgraph)
            self.crates = CONFIGS[config]["crates"]
        self._index = None
        self._body_cache = {}
        self._load_index()

    def _load_index(self):
        ip = os.path.join(self.dir, "index.pickle")
        if os.path.exists(ip):
            with open(ip, "rb") as fh:
                self._index = pickle.load(fh)
            return
        idx = {"body": {}, "other": {}}  # body: path -> (crate, offset, length); other: kind -> [(crate, offset, length)]
        meta = {}
        for c in self.crates:
            p = os.path.join(self.dir, c + ".facts.jsonl")
            off = 0
            with open(p, "rb") as fh:
                for line in fh:
                    m = _KRE.match(line)
                    if not m:
                        raise SystemExit(f"fv: unparseable fact line in {p} at {off}")
                    k = m.group(1).decode()
                    if k == "body":
                        path = json.loads(b'"' + m.group(3) + b'"')
                        # light metadata without parsing the whole body
                        fm = re.search(rb'"file":"((?:[^"\\]|\\.)*)","lo":(\d+),"hi":(\d+)', line[:3000])
                        km = re.search(rb'"kind":"([a-z]+)"', line[:3000])
                        idx["body"].setdefault(path, []).append((c, off, len(line)))
                        meta.setdefault(path, (fm.group(1).decode(), int(fm.group(2)), int(fm.group(3)),
                                               km.group(1).decode(), c))
                    else:
                        idx["other"].setdefault(k, []).append((c, off, len(line)))
                    off += len(line)
        idx["meta"] = meta
        with open(ip + ".tmp", "wb") as fh:
            pickle.dump(idx, fh)
        os.replace(ip + ".tmp", ip)
        self._index = idx

    def _read(self, crate, off, length):
        with open(os.path.join(self.dir, crate + ".facts.jsonl"), "rb") as fh:
            fh.seek(off)
            return json.loads(fh.read(length))

    # ---- bodies -----------------------------------------------------------------
    def body_paths(self):
        return self._index["body"].keys()

    def meta(self, path):
        """(file, lo, hi, kind, crate) without parsing."""
        return self._index["meta"][path]

    # ---- rename-tolerant anchors ----------------------------------------------------
    # rules/anchor_fingerprints.json (written only by `./fv anchors`) records, for every function a rule looked up by
    # name on the pinned tree, the multiset of its callees.  When a lookup by name fails, the unique function of the
    # same crate whose callees match that fingerprint is used instead: a renamed or moved function keeps being checked
    # by the rules written for it, instead of failing closed with "anchor not found".
    _FP = None
    _RECORD = {}

    @classmethod
    def _fingerprints(cls):
        if cls._FP is None:
            p = os.path.join(VERIF, "rules", "anchor_fingerprints.json")
            cls._FP = json.load(open(p)) if os.path.exists(p) else {}
        return cls._FP

    def _callee_bag(self, b):
        bag = {}
        for _, t in b.calls():
            c = t.callee
            if c == b.path:
                c = "<self>"
            bag[c] = bag.get(c, 0) + 1
        return bag

    def _record_anchor(self, request, b):
        if os.environ.get("FV_RECORD_ANCHORS") and b is not None and self.config == "union":
            Facts._RECORD[request] = {"path": b.path, "crate": b.crate, "file": b.file, "blocks": len(b.blocks),
                                      "callees": self._callee_bag(b)}

    def _fuzzy_anchor(self, request):
        fp = self._fingerprints().get(request)
        if not fp or len(fp["callees"]) < 3:
            return None
        want = fp["callees"]
        best = []
        for path, m in self._index["meta"].items():
            if m[4] != fp["crate"] or m[3] != "fn":
                continue
            b = self.body(path, _fuzzy=False)
            if b is None:
                continue
            have = self._callee_bag(b)
            inter = sum(min(v, have.get(k, 0)) for k, v in want.items())
            union = sum(max(v, have.get(k, 0)) for k, v in want.items()) + sum(v for k, v in have.items() if k not in want)
            score = inter / union if union else 0.0
            if b.file == fp["file"]:
                score += 0.05
            if score >= 0.7:
                best.append((score, path))
        best.sort(reverse=True)
        if best and (len(best) == 1 or best[0][0] - best[1][0] >= 0.1):
            # the old name must really be gone (otherwise the lookup would not have failed) and the new one must not be
            # an anchor of its own
            if best[0][1] not in {v["path"] for v in self._fingerprints().values()}:
                log(f"anchor `{request}` not found by name; using `{best[0][1]}` (callee fingerprint match {best[0][0]:.2f})")
                return self.body(best[0][1], _fuzzy=False)
        return None

    def body(self, path, _fuzzy=True):
        from .mir import Body
        if path in self._body_cache:
            b = self._body_cache[path]
            if _fuzzy:
                self._record_anchor(path, b)
            return b
        ents = self._index["body"].get(path)
        if not ents:
            if _fuzzy:
                fb = self._fuzzy_anchor(path)
                if fb is not None:
                    return fb
            return None
        c, off, ln = ents[0]
        b = Body(self._read(c, off, ln))
        self._body_cache[path] = b
        if _fuzzy:
            self._record_anchor(path, b)
        return b

    def bodies_where(self, pred):
        """pred(path, file, lo, hi, kind, crate) -> bool; yields Body objects."""
        for path, m in self._index["meta"].items():
            if pred(path, *m):
                yield self.body(path, _fuzzy=False)

    def bodies_in_files(self, crate, file_res, kinds=("fn", "closure")):
        rs = [re.compile(r) for r in file_res]
        return list(self.bodies_where(
            lambda p, f, lo, hi, k, c: c == crate and k in kinds and any(r.search(f) for r in rs)))

    def find_bodies(self, regex, crate=None):
        r = re.compile(regex)
        out = []
        for path, m in self._index["meta"].items():
            if crate and m[4] != crate:
                continue
            if r.search(path):
                out.append(self.body(path, _fuzzy=False))
        return out

    def one_body(self, regex, crate=None):
        bs = self.find_bodies(regex, crate)
        if len(bs) != 1:
            if not bs:
                return self._fuzzy_anchor("re:" + regex)
            return None
        self._record_anchor("re:" + regex, bs[0])
        return bs[0]

    # ---- other records -------------------------------------------------------------
    def records(self, kind, crate=None):
        for c, off, ln in self._index["other"].get(kind, []):
            if crate and c != crate:
                continue
            yield self._read(c, off, ln)

    def all_bodies(self, crate=None, kinds=("fn", "closure")):
        for path, m in self._index["meta"].items():
            if crate and m[4] != crate:
                continue
            if m[3] in kinds:
                yield self.body(path, _fuzzy=False)
