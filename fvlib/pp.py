"""Pretty-printer for a dumped MIR body (debugging aid):  python3 -m fvlib.pp <regex> [config]"""
import sys

from .facts import Facts


def rv_str(b, rv):
    from .mir import Term
    if isinstance(rv, Term):
        return f"call {rv.callee}({', '.join(b.op_str(a) for a in rv.args)})"
    k = rv[0]
    if k == "use":
        return b.op_str(rv[1])
    if k == "bin":
        return f"{rv[1]}({b.op_str(rv[2])}, {b.op_str(rv[3])})"
    if k == "un":
        return f"{rv[1]}({b.op_str(rv[2])})"
    if k == "cast":
        return f"{b.op_str(rv[2])} as {rv[3]} [{rv[1]}]"
    if k in ("ref", "raw"):
        return f"&{rv[1]} {b.place_str(rv[2])}"
    if k == "disc":
        return f"discriminant({b.place_str(rv[1])})"
    if k == "agg":
        return f"agg {rv[1]} [{', '.join(b.op_str(o) for o in rv[2])}]"
    return str(rv)


def pp(b, out=sys.stdout):
    print(f"fn {b.path}  [{b.file}:{b.lo}-{b.hi}] argc={b.argc}", file=out)
    for i, (ty, *rest) in enumerate(b.locals):
        print(f"  let _{i}: {ty}   // {b.local_name(i)}", file=out)
    for i, blk in enumerate(b.blocks):
        print(f" bb{i}{' (cleanup)' if blk.cleanup else ''}:", file=out)
        for s in blk.stmts:
            if s[0] == "A":
                print(f"    {b.place_str(s[1])} = {rv_str(b, s[2])}", file=out)
            else:
                print(f"    {s}", file=out)
        t = blk.term
        if t.kind == "call":
            print(f"    {b.place_str(t.dest)} = {t.callee}({', '.join(b.op_str(a) for a in t.args)}) -> {t.targets}  @{t.line}", file=out)
        elif t.kind == "switch":
            print(f"    switch {b.op_str(t.d[1])} {t.d[2]} else {t.d[3]}  @{t.line}", file=out)
        elif t.kind == "assert":
            print(f"    assert {b.op_str(t.d[1])}=={t.d[2]} {t.d[3]} ops={[b.op_str(o) for o in t.d[4]]} -> {t.targets} @{t.line}", file=out)
        else:
            print(f"    {t.kind} {t.targets}", file=out)


if __name__ == "__main__":
    f = Facts(sys.argv[2] if len(sys.argv) > 2 else "union")
    for b in f.find_bodies(sys.argv[1]):
        pp(b)
        print()
