"""Symbolic expression recovery for MIR operands (def-use chains of single-assignment temps)."""
from .mir import Term, op_place, op_const


def expr_of(body, op, depth=0):
    """Expression tree of an operand:
       ('const', ty, v) | ('local', l) | ('param', l) | ('place', root_local, projs)
       | ('bin', op, a, b) | ('un', op, a) | ('cast', a, to) | ('call', callee, [args]) | ('unknown',)"""
    if op[0] == "k":
        c = op_const(op)
        if c[1] is None and len(op) > 3:
            return ("const", c[0], None, op[3])
        return ("const", c[0], c[1])
    p = op_place(op)
    return place_expr(body, p, depth)


def place_expr(body, p, depth=0):
    if depth > 25:
        return ("unknown",)
    l, projs = p[0], p[1]
    if not projs:
        if 0 < l <= body.argc:
            return ("param", l)
        sd = body.single_def(l)
        if sd is None:
            return ("local", l)
        rv = sd[2]
        if isinstance(rv, Term):
            return ("call", rv.callee, [expr_of(body, a, depth + 1) for a in rv.args], rv.d["cargs"], rv.d["atys"])
        return rvalue_expr(body, rv, depth + 1, l)
    # tuple field .0 of a checked-arithmetic result
    if len(projs) == 1 and projs[0][0] == "f":
        sd = body.single_def(l)
        if sd is not None and not isinstance(sd[2], Term) and sd[2][0] == "bin" and sd[2][1].endswith("WithOverflow"):
            rv = sd[2]
            if projs[0][1] == 0:
                return ("bin", rv[1][:-len("WithOverflow")], expr_of(body, rv[2], depth + 1), expr_of(body, rv[3], depth + 1))
            return ("unknown",)
    root = body.root_place(p)
    projs = tuple(tuple(e) if isinstance(e, list) else e for e in root[1])
    # field of a tuple/struct aggregate built once: (a, b).1 == b
    if projs and isinstance(projs[0], tuple) and projs[0][0] == "f" and not (0 < root[0] <= body.argc):
        sd = body.single_def(root[0])
        if sd is not None and not isinstance(sd[2], Term) and sd[2][0] == "agg" and sd[2][1][0] in ("tuple", "adt") \
                and projs[0][1] < len(sd[2][2]) and (sd[2][1][0] == "tuple" or True):
            inner = expr_of(body, sd[2][2][projs[0][1]], depth + 1)
            if len(projs) == 1:
                return inner
            return ("proj", inner, projs[1:])
    base = place_expr(body, [root[0], []], depth + 1) if root[0] != l or not projs else \
        (("param", l) if 0 < l <= body.argc else _local_or_call(body, l, depth))
    return ("proj", base, projs)


def _local_or_call(body, l, depth):
    sd = body.single_def(l)
    if sd is not None and isinstance(sd[2], Term):
        rv = sd[2]
        return ("call", rv.callee, [expr_of(body, a, depth + 1) for a in rv.args], rv.d["cargs"], rv.d["atys"])
    if sd is not None and not isinstance(sd[2], Term) and sd[2][0] == "use" and sd[2][1][0] == "k":
        return expr_of(body, sd[2][1], depth + 1)
    return ("local", l)


def rvalue_expr(body, rv, depth, l=None):
    k = rv[0]
    if k == "use":
        return expr_of(body, rv[1], depth)
    if k == "bin":
        return ("bin", rv[1], expr_of(body, rv[2], depth), expr_of(body, rv[3], depth))
    if k == "un":
        return ("un", rv[1], expr_of(body, rv[2], depth))
    if k == "cast":
        return ("cast", expr_of(body, rv[2], depth), rv[3])
    if k == "ref":
        return ("ref", place_expr(body, rv[2], depth))
    if k == "disc":
        return ("disc", place_expr(body, rv[1], depth))
    if k == "agg":
        return ("agg", tuple(rv[1]), [expr_of(body, o, depth) for o in rv[2]])
    return ("local", l) if l is not None else ("unknown",)


def strip_casts(e):
    while e and e[0] == "cast":
        e = e[1]
    return e


def is_param_plus_const(e, param):
    """e == param + c (c >= 1) ?  returns c or None"""
    e = strip_casts(e)
    if e[0] == "bin" and e[1] == "Add":
        a, b = strip_casts(e[2]), strip_casts(e[3])
        if a == ("param", param) and b[0] == "const" and b[2] is not None and b[2] >= 1:
            return b[2]
        if b == ("param", param) and a[0] == "const" and a[2] is not None and a[2] >= 1:
            return a[2]
    return None


def show(body, e):
    k = e[0]
    if k == "const":
        if e[2] is None and len(e) > 3:
            return str(e[3])
        return str(e[2]) if e[2] is not None else f"const:{e[1]}"
    if k in ("param", "local"):
        return body.local_name(e[1])
    if k == "proj":
        s = show(body, e[1])
        for x in e[2]:
            if x == "*":
                s = f"(*{s})"
            elif x == "&":
                s = f"&{s}"
            elif x == "deref()":
                s = f"{s}.deref()"
            elif x[0] == "f":
                s = f"{s}.{x[2] if x[2] is not None else x[1]}"
            elif x[0] == "d":
                s = f"({s} as {x[2]})"
            elif x[0] == "i":
                s = f"{s}[{body.local_name(x[1])}]"
            else:
                s = f"{s}.?"
        return s
    if k == "bin":
        return f"({show(body, e[2])} {e[1]} {show(body, e[3])})"
    if k == "un":
        return f"{e[1]}({show(body, e[2])})"
    if k == "cast":
        return f"({show(body, e[1])} as {e[2]})"
    if k == "call":
        return f"{e[1].split('::')[-1]}({', '.join(show(body, a) for a in e[2])})"
    if k == "ref":
        return "&" + show(body, e[1])
    if k == "disc":
        return f"discr({show(body, e[1])})"
    if k == "agg":
        kd = e[1]
        nm = kd[3] if kd[0] == "adt" else kd[0]
        return f"{nm}({', '.join(show(body, a) for a in e[2])})"
    return "?"
