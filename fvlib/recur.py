"""Recognisers for bounded-recursion idioms (rule template T-REC, DESIGN.md §3)."""
from .mir import op_place, op_const, op_local
from .sym import expr_of, strip_casts, is_param_plus_const, show

CMP_OPS = ("Ge", "Gt", "Lt", "Le", "Eq", "Ne")
INT_TYS = ("u8", "u16", "u32", "u64", "usize", "i8", "i16", "i32", "i64", "isize")


def _cmp_guards(body):
    """yield (bb, cmp_op, lhs_expr, rhs_expr, true_target, false_target) for every bool switch on a comparison"""
    for i, blk in enumerate(body.blocks):
        t = blk.term
        if t.kind != "switch" or blk.cleanup:
            continue
        if t.d[4] != "bool":
            continue
        arms = t.d[2]
        if len(arms) != 1 or arms[0][0] != "0":
            continue
        false_t, true_t = arms[0][1], t.d[3]
        e = strip_casts(expr_of(body, t.d[1]))
        neg = False
        while e[0] == "un" and e[1] == "Not":
            e = strip_casts(e[2])
            neg = not neg
        if neg:
            true_t, false_t = false_t, true_t
        if e[0] == "bin" and e[1] in CMP_OPS:
            yield i, e[1], strip_casts(e[2]), strip_casts(e[3]), true_t, false_t


def depth_param_guard(body, call_bbs, limit_max=1024):
    """R-a: some integer parameter d with (1) an entry comparison d >= K / d > K (bail) or
    d < K / d <= K (continue), K constant <= limit_max, the bail edge reaching none of `call_bbs`
    and the guard block dominating all of them; (2) is left to the caller (argument check).
    Returns list of (param, K, guard_bb) candidates."""
    out = []
    for bb, op, a, b, t_true, t_false in _cmp_guards(body):
        if a[0] == "param" and b[0] == "const" and b[2] is not None:
            p, k = a[1], b[2]
        elif b[0] == "param" and a[0] == "const" and a[2] is not None:
            p, k = b[1], a[2]
            op = {"Ge": "Le", "Gt": "Lt", "Lt": "Gt", "Le": "Ge", "Eq": "Eq", "Ne": "Ne"}[op]
        else:
            continue
        if body.local_ty(p) not in INT_TYS:
            continue
        if body.defs().get(p):
            continue  # parameter reassigned
        if op in ("Ge", "Gt"):
            bail, cont = t_true, t_false
            bound = k if op == "Ge" else k + 1
        elif op in ("Lt", "Le"):
            bail, cont = t_false, t_true
            bound = k if op == "Lt" else k + 1
        else:
            continue
        if bound > limit_max:
            continue
        bail_reach = body.reachable_from(bail)
        if any(c in bail_reach for c in call_bbs):
            continue
        if not all(body.dominates(bb, c) for c in call_bbs):
            continue
        out.append((p, bound, bb))
    return out


def call_arg_index_of_param(body, p):
    return p - 1


def check_depth_param_recursion(body, self_calls, limit_max=1024):
    """self_calls: list of (bb, term) of in-cycle calls whose callee has the same signature as body
    (direct recursion).  Returns (ok, description)."""
    call_bbs = [bb for bb, _ in self_calls]
    cands = depth_param_guard(body, call_bbs, limit_max)
    if not cands:
        return False, "no entry comparison of an integer parameter against a constant dominates the recursive calls"
    reasons = []
    for p, bound, gbb in cands:
        ai = call_arg_index_of_param(body, p)
        ok = True
        for bb, t in self_calls:
            if ai >= len(t.args):
                ok = False
                reasons.append(f"call at line {t.line} has no argument {ai}")
                break
            e = expr_of(body, t.args[ai])
            c = is_param_plus_const(e, p)
            if c is None:
                ok = False
                reasons.append(f"call at line {t.line} passes `{show(body, e)}` for `{body.local_name(p)}`, "
                               f"not `{body.local_name(p)} + c` with c >= 1")
                break
        if ok:
            return True, f"R-a: parameter `{body.local_name(p)}` guarded by constant {bound} at line " \
                         f"{body.blocks[gbb].term.line}; {len(self_calls)} recursive call(s) pass +c"
    return False, "; ".join(reasons)
