"""Path-sensitive exploration of one MIR body with a client automaton.

The explorer walks the CFG (normal edges only) carrying
  * a client state (hashable),
  * `vals`: known discriminant / bool values of locals (flow-sensitive),
  * `links`: temporaries whose value is a pure function of another local's discriminant
    (`_9 = discriminant(_5)`, `_b = Option::is_some(&x)`, `_c = Try::branch(x)`), so that a
    later `switchInt` refines what is known about the source local.
This is what correlates `if let Some(r) = clipbox {push}` ... `if clipbox.is_some() {pop}` and
`result?` after a call whose Ok/Err outcome was forked.  No value is ever computed from
program input: only enum discriminants and booleans derived from them are tracked.
"""
import re

from .mir import Term, op_place, op_local, op_const, place_key

STD_ENUMS = ("core::option::Option", "core::result::Result", "core::ops::control_flow::ControlFlow")

BOOL_FNS = {
    "core::option::Option::<T>::is_some": ("opt", 1),
    "core::option::Option::<T>::is_none": ("opt", 0),
    "core::result::Result::<T, E>::is_ok": ("res", 0),
    "core::result::Result::<T, E>::is_err": ("res", 1),
}


class Violation(Exception):
    def __init__(self, msg, bb, trace):
        super().__init__(msg)
        self.msg = msg
        self.bb = bb
        self.trace = trace


class Env:
    __slots__ = ("vals", "links")

    def __init__(self, vals=None, links=None):
        self.vals = vals or {}
        self.links = links or {}

    def copy(self):
        return Env(dict(self.vals), dict(self.links))

    def key(self):
        return (tuple(sorted(self.vals.items())), tuple(sorted(self.links.items())))

    def kill(self, l):
        self.vals.pop(l, None)
        self.links.pop(l, None)
        for k in [k for k, v in self.links.items() if v[1] == l]:
            del self.links[k]


class Explorer:
    def __init__(self, body, on_call=None, on_stmt=None, on_exit=None, on_edge=None,
                 max_states=200000, absorbing=()):
        # client states in `absorbing` never change again and the client does not care how such a path ends:
        # they are explored once per block, whatever is known about locals
        self.absorbing = tuple(absorbing)
        self.body = body
        self.on_call = on_call
        self.on_stmt = on_stmt
        self.on_exit = on_exit
        self.on_edge = on_edge
        self.max_states = max_states
        self.mut_borrowed = self._mut_borrowed()
        self.visited = set()
        self.n_paths_exits = 0
        self.exits = []  # (bb, state, retval)

    def _mut_borrowed(self):
        s = set()
        for _, _, st in self.body.stmts():
            if st[0] == "A":
                rv = st[2]
                if rv[0] == "ref" and rv[1] == "mut" and not rv[2][1]:
                    s.add(rv[2][0])
                if rv[0] == "raw" and not rv[2][1]:
                    s.add(rv[2][0])
        return s

    def trackable(self, l):
        return l not in self.mut_borrowed

    # ---- transfer ---------------------------------------------------------------------
    def _assign(self, env, place, rv):
        if place[1]:
            # write through a projection: a field/downcast write into local invalidates what we know
            if not (place[1] and place[1][0] == "*"):
                env.kill(place[0])
            return
        l = place[0]
        env.kill(l)
        if not self.trackable(l):
            return
        k = rv[0]
        if k == "use":
            src = op_local(rv[1])
            if src is not None:
                if src in env.vals:
                    env.vals[l] = env.vals[src]
                if src in env.links:
                    env.links[l] = env.links[src]
                elif src not in env.vals and self.trackable(src) and self.body.local_ty(src) == "bool":
                    # plain copy of a bool whose value is not known yet: a later switch on the copy also decides the source
                    env.links[l] = ("copy", src)
            else:
                c = op_const(rv[1])
                if c and c[1] is not None and c[0] == "bool":
                    env.vals[l] = c[1]
        elif k == "agg":
            kd = rv[1]
            if kd[0] == "adt" and kd[1] in STD_ENUMS:
                env.vals[l] = kd[2]
        elif k == "disc":
            src = rv[1]
            if not src[1]:
                if src[0] in env.vals:
                    env.vals[l] = env.vals[src[0]]
                elif self.trackable(src[0]):
                    env.links[l] = ("disc", src[0])
        elif k == "un" and rv[1] == "Not":
            src = op_local(rv[2])
            if src is not None and rv[3] == "bool":
                if src in env.vals:
                    env.vals[l] = 1 - env.vals[src]
                elif src in env.links:
                    kind, tgt = env.links[src][0], env.links[src][1]
                    if kind == "bool":
                        env.links[l] = ("bool", tgt, env.links[src][2], 1 - env.links[src][3])

    def _call_env(self, env, term):
        """Generic effects of a call on env (after the client saw it)."""
        d = term.d
        dest = d["dest"]
        callee = d["callee"]
        dl = dest[0] if not dest[1] else None
        if dl is None:
            env.kill(dest[0])
            return
        env.kill(dl)
        if not self.trackable(dl):
            return
        if callee in BOOL_FNS and d["args"]:
            fam, variant_true = BOOL_FNS[callee]
            p = op_place(d["args"][0])
            if p is not None:
                root = self.body.root_place(p)
                rl = root[0]
                # only whole locals (possibly behind one & of a temp)
                if all(e == "&" or e == "*" for e in root[1]) and self.trackable(rl):
                    if rl in env.vals:
                        env.vals[dl] = 1 if env.vals[rl] == variant_true else 0
                    else:
                        env.links[dl] = ("bool", rl, variant_true, 1)
            return
        if callee.endswith("as core::ops::try_trait::Try>::branch") and d["args"]:
            src = op_local(d["args"][0])
            is_opt = callee.startswith("<core::option::Option")
            is_res = callee.startswith("<core::result::Result")
            if src is not None and (is_opt or is_res):
                if src in env.vals:
                    v = env.vals[src]
                    env.vals[dl] = (v if is_res else 1 - v)
                elif self.trackable(src):
                    env.links[dl] = ("branch", src, is_res)
            return
        # variant-preserving / variant-mapping std combinators
        vp = None
        if re.search(r"^core::result::Result::<T, E>::(map_err|map|as_ref|as_mut|copied|cloned|inspect|inspect_err)$", callee) or \
                re.search(r"^core::option::Option::<T>::(map|as_ref|as_mut|copied|cloned|inspect)$", callee) or \
                re.search(r"^core::option::Option::<&T>::(copied|cloned)$", callee):
            vp = "same"
        elif re.search(r"^core::option::Option::<T>::(ok_or|ok_or_else)$", callee) or callee == "core::result::Result::<T, E>::ok":
            vp = "flip"
        if vp and d["args"]:
            src = op_local(d["args"][0])
            if src is not None:
                if src in env.vals:
                    env.vals[dl] = env.vals[src] if vp == "same" else 1 - env.vals[src]
                elif self.trackable(src):
                    env.links[dl] = ("map", src, vp == "same")
            return
        if callee.endswith("::from_residual") and "FromResidual" in callee:
            dty = d["dty"]
            if dty.startswith("core::result::Result<"):
                env.vals[dl] = 1
            elif dty.startswith("core::option::Option<"):
                env.vals[dl] = 0
            return

    def _switch_edges(self, env, term):
        """yields (target, env') for feasible edges"""
        t = term.d
        op = t[1]
        l = op_local(op)
        arms = [(int(v), bb) for v, bb in t[2]]
        otherwise = t[3]
        if l is not None and l in env.vals:
            v = env.vals[l]
            for val, bb in arms:
                if val == v:
                    return [(bb, env)]
            return [(otherwise, env)]
        out = []
        link = env.links.get(l) if l is not None else None
        # resolve chains: disc-of(branch-of(x))
        for val, bb in arms:
            e = env.copy()
            self._learn(e, l, link, val)
            out.append((bb, e))
        e = env.copy()
        if link is None and l is not None and len(arms) == 1 and arms[0][0] in (0, 1) and self.trackable(l) \
                and self.body.local_ty(l) == "bool":
            e.vals[l] = 1 - arms[0][0]
        if link is not None and len(arms) == 1:
            # two-valued domains: otherwise is the other value
            dom2 = link[0] in ("bool", "disc", "branch", "copy", "map")
            if dom2 and arms[0][0] in (0, 1):
                self._learn(e, l, link, 1 - arms[0][0], only_if_binary=True)
        out.append((otherwise, e))
        return out

    def _learn(self, env, l, link, val, only_if_binary=False):
        if l is None:
            return
        if self.trackable(l):
            env.vals[l] = val
        if link is None:
            return
        kind = link[0]
        if kind == "disc":
            src = link[1]
            if only_if_binary and not self._binary_enum(src):
                return
            env.vals[src] = val
            self._learn(env, src, env.links.get(src), val) if src in env.links else None
        elif kind == "bool":
            _, src, variant_true, polarity = link
            truth = val if polarity == 1 else 1 - val
            env.vals[src] = variant_true if truth == 1 else 1 - variant_true
        elif kind == "branch":
            _, src, is_res = link
            env.vals[src] = val if is_res else 1 - val
            if src in env.links:
                self._learn(env, src, env.links.get(src), env.vals[src])
        elif kind == "copy":
            src = link[1]
            env.vals[src] = val
            if src in env.links:
                self._learn(env, src, env.links.get(src), val)
        elif kind == "map":
            _, src, same = link
            env.vals[src] = val if same else 1 - val
            if src in env.links:
                self._learn(env, src, env.links.get(src), env.vals[src])

    def _binary_enum(self, l):
        ty = self.body.local_ty(l)
        return ty.startswith(STD_ENUMS[0]) or ty.startswith(STD_ENUMS[1]) or ty.startswith(STD_ENUMS[2]) \
            or ty.startswith("&" + STD_ENUMS[0])

    # ---- exploration ------------------------------------------------------------------
    def run(self, init_state, init_env=None):
        body = self.body
        work = [(0, init_state, init_env or Env(), ())]
        while work:
            bb, state, env, trace = work.pop()
            key = (bb, state, None) if state in self.absorbing else (bb, state, env.key())
            if key in self.visited:
                continue
            self.visited.add(key)
            if len(self.visited) > self.max_states:
                raise Violation("state space exceeded bound (unbounded push in a loop?)", bb, trace)
            blk = body.blocks[bb]
            env = env.copy()
            for j, st in enumerate(blk.stmts):
                if self.on_stmt is not None:
                    r = self.on_stmt(bb, j, st, state, env, trace)
                    if r is not None:
                        state = r
                if st[0] == "A":
                    self._assign(env, st[1], st[2])
                elif st[0] == "D":
                    env.kill(st[1][0])
            t = blk.term
            ntrace = trace + (bb,) if len(trace) < 400 else trace
            if t.kind == "call":
                alts = None
                if self.on_call is not None:
                    alts = self.on_call(bb, t, state, env, ntrace)
                if alts is None:
                    e2 = env
                    self._call_env(e2, t)
                    alts = [(state, e2)]
                else:
                    # client returned [(state, {local: val})]: apply generic kill then the facts
                    res = []
                    for st2, facts in alts:
                        e2 = env.copy()
                        self._call_env(e2, t)
                        for k, v in (facts or {}).items():
                            if self.trackable(k):
                                e2.vals[k] = v
                        res.append((st2, e2))
                    alts = res
                for st2, e2 in alts:
                    for s in t.targets:
                        work.append((s, st2, e2, ntrace))
            elif t.kind == "switch":
                for s, e2 in self._switch_edges(env, t):
                    st2 = state
                    if self.on_edge is not None:
                        r = self.on_edge(bb, s, t, state, e2, ntrace)
                        if r is not None:
                            st2 = r
                    work.append((s, st2, e2, ntrace))
            elif t.kind == "ret":
                rv = env.vals.get(0)
                self.exits.append((bb, state, rv))
                if self.on_exit is not None:
                    self.on_exit(bb, state, rv, env, ntrace)
            elif t.kind in ("goto", "drop", "assert"):
                if t.kind == "drop" and self.on_call is not None:
                    pass
                for s in t.targets:
                    work.append((s, state, env, ntrace))
            else:
                pass  # unreachable / resume
        return self


def ret_class(body, rv):
    """Classify a return by the known variant of _0: 'ok' | 'err' | 'unknown'."""
    ty = body.local_ty(0)
    if rv is None:
        return "unknown"
    if ty.startswith("core::result::Result<"):
        return "ok" if rv == 0 else "err"
    if ty.startswith("core::option::Option<"):
        return "ok" if rv == 1 else "err"
    if ty == "bool":
        return "ok" if rv == 1 else "err"
    return "unknown"


def trace_lines(body, trace):
    """source lines along a block trace (for diagnosable reports)"""
    lines = []
    for bb in trace:
        t = body.blocks[bb].term
        ln = t.line
        if ln and (not lines or lines[-1] != ln):
            lines.append(ln)
    return lines
