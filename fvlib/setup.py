"""./fv setup — build everything the checks need, offline, from files on disk."""
import os
import subprocess
import sys

from .facts import VERIF, ensure_driver


def main():
    ensure_driver()
    for sub in ("gencheck", "witness"):
        d = os.path.join(VERIF, sub)
        if os.path.exists(os.path.join(d, "build.sh")):
            r = subprocess.run(["bash", "build.sh"], cwd=d)
            if r.returncode:
                print(f"setup: {sub} failed", file=sys.stderr)
                return 1
    print("fv setup ok")
    return 0
