"""Monotone 64-bit counter fields (who-writes census).

A struct field of type usize/u64 is a *monotone counter* when every write to it anywhere in the analysed crates is
  - a constant below 2^62, or a cheaply bounded value (a std `len()`, a widening cast from a <=32-bit integer,
    `Default::default()`, a clone/copy of a counter field), or
  - the same field plus a constant 0 <= c <= 2^16 (through the overflow-checked add),
and the field is never mutably borrowed on its own.  Such a field cannot overflow a `+ c` within 2^46 increments
(assumption A-STEPS, recorded in the evidence of every check that uses it).
"""
import re

from .mir import Term, op_const, op_local, op_place
from . import intervals

WIDE = ("usize", "u64")
NARROW = ("u8", "u16", "u32", "i8", "i16", "i32", "bool", "char")


def _field_of(place):
    """(adt, field name) if the place ends in a field projection"""
    if not place[1]:
        return None
    last = place[1][-1]
    if isinstance(last, list) and last[0] == "f" and len(last) > 3 and last[3]:
        return (last[3], last[2])
    return None


def compute(facts, crates=None):
    crates = [c for c in (crates or facts.crates) if c in facts.crates]
    ftype = {}
    forder = {}
    for c in crates:
        for r in facts.records("adt", c):
            if r["adt_kind"] != "Struct" or not r["variants"]:
                continue
            if r.get("repr_packed") or r.get("repr_c") or r.get("repr_transparent"):
                continue   # may be materialised from raw bytes
            for i, (name, ty, vis) in enumerate(r["variants"][0][1]):
                if vis == "pub" and r.get("vis") == "pub" and r.get("reachable", True):
                    continue   # writable by code outside the analysed crates
                if ty in WIDE:
                    ftype[(r["path"], name)] = ty
            forder[r["path"]] = [f[0] for f in r["variants"][0][1]]
    bad = set()
    writes = {}

    def bounded_operand(b, o, fld, depth=0):
        """is operand o a constant / cheaply bounded / counter-derived value?"""
        if o[0] == "k":
            c = op_const(o)
            return bool(c and c[1] is not None and 0 <= c[1] < (1 << 62))
        p = o[1]
        if p[1]:
            f2 = _field_of(p)
            if f2 is not None and f2 in ftype:
                deps.setdefault(fld, set()).add(f2)
                return True
            # (_t.0) of an overflow-checked add of the same field
            if len(p[1]) == 1 and isinstance(p[1][0], list) and p[1][0][0] == "f" and p[1][0][1] == 0:
                sd = b.single_def(p[0])
                if sd is not None and not isinstance(sd[2], Term) and sd[2][0] == "bin" and sd[2][1] == "AddWithOverflow":
                    x, y = sd[2][2], sd[2][3]
                    for u, v in ((x, y), (y, x)):
                        cv = op_const(v) if v[0] == "k" else None
                        if cv and cv[1] is not None and 0 <= cv[1] <= intervals.COUNTER_STEP and bounded_operand(b, u, fld, depth + 1):
                            return True
            return False
        if depth > 6:
            return False
        l = p[0]
        if b.locals[l][0] in NARROW:
            return True
        sd = b.single_def(l)
        if sd is None:
            return False
        rv = sd[2]
        if isinstance(rv, Term):
            c = rv.callee
            short = c.split("::")[-1]
            if short == "len" and re.match(r"^<?(core|alloc|std)::", c):
                return True
            if c.endswith("as core::default::Default>::default") and b.locals[l][0] in WIDE:
                return True
            if c.endswith("::clone") and "Clone" in c and rv.args:
                a = op_local(rv.args[0])
                for _ in range(6):
                    if a is None:
                        break
                    sd2 = b.single_def(a)
                    if sd2 is None or isinstance(sd2[2], Term) or sd2[2][0] != "ref":
                        break
                    pl = sd2[2][2]
                    f2 = _field_of(pl)
                    if f2 is not None and f2 in ftype:
                        deps.setdefault(fld, set()).add(f2)
                        return True
                    if pl[1] == ["*"]:
                        a = pl[0]      # a plain reborrow `&(*x)`
                    else:
                        break
            return False
        if rv[0] == "use":
            return bounded_operand(b, rv[1], fld, depth + 1)
        if rv[0] == "cast" and rv[1] == "IntToInt" and rv[4] in NARROW:
            return True
        return False

    deps = {}
    for c in crates:
        for b in facts.all_bodies(c, kinds=("fn", "closure", "const")):
            for bb, j, st in b.stmts():
                if st[0] != "A":
                    continue
                place, rv = st[1], st[2]
                fld = _field_of(place)
                if fld is not None and fld in ftype:
                    writes[fld] = writes.get(fld, 0) + 1
                    if not (rv[0] == "use" and bounded_operand(b, rv[1], fld)):
                        bad.add(fld)
                if rv[0] in ("ref", "raw"):
                    mut = (rv[1] == "mut") if rv[0] == "ref" else ("Mut" in str(rv[1]))
                    f2 = _field_of(rv[2])
                    if mut and f2 is not None and f2 in ftype:
                        bad.add(f2)
                if rv[0] == "agg" and rv[1][0] == "adt" and rv[1][1] in forder:
                    names = forder[rv[1][1]]
                    for i, o in enumerate(rv[2]):
                        if i < len(names) and (rv[1][1], names[i]) in ftype:
                            fld2 = (rv[1][1], names[i])
                            writes[fld2] = writes.get(fld2, 0) + 1
                            if not bounded_operand(b, o, fld2):
                                bad.add(fld2)
            for bb, t in b.calls():
                # a call writing its result straight into the field
                fld = _field_of(t.dest)
                if fld is not None and fld in ftype:
                    bad.add(fld)
    from .fieldinv import ctor_fn_uses
    for adt in ctor_fn_uses(facts, crates, set(forder)):
        for name in forder[adt]:
            bad.add((adt, name))
    # a counter that copies from a non-counter is not a counter
    changed = True
    while changed:
        changed = False
        for f, ds in deps.items():
            if f not in bad and any(d in bad for d in ds):
                bad.add(f)
                changed = True
    return {f for f in ftype if f not in bad and writes.get(f, 0) > 0}


def register(facts, crates=None):
    if getattr(facts, "_counters_registered", False):
        return
    fs = compute(facts, crates)
    intervals.COUNTER_FIELDS.clear()
    intervals.COUNTER_FIELDS.update(fs)
    facts._counters_registered = True
    facts._counter_fields = fs
