"""Loop census (T-LOOP): every natural loop of hand-written code has a recognised reason to terminate.

A natural loop (header h, back-edge sources U, body B; cleanup blocks ignored) is *paced* when one of these holds:

  iterator   a call to `Iterator::next` / `next_back` / `nth` lies in a block that dominates every u in U (each trip
             round the loop advances the iterator), the iterator object is not re-created inside the loop, and the
             iterator's type is finite by construction: std adapters over finite std sources (`Range`, slice / Vec /
             map iterators, `Take<_>`, `Zip` with one finite side ...), or it is supplied by the caller (a type
             parameter / `impl Iterator`), or it is a repo-defined iterator (finiteness of those is *delegated*: their
             own loops are in this census and their `next` is subject to the progress rule, but the length of the
             sequence they yield is not decided here -- assumption A-REPO-ITER, counted in the evidence).
  counter    an integer local v is changed in the loop only by `v = v + k` / `v = v - k` (k a constant >= 1) in a block
             dominating every u in U, and a conditional exit that also dominates every u in U compares v with a value
             that does not change inside the loop, leaving the loop once v has passed it (direction checked:
             continue-while `v < w` / `v <= w` for an increasing v, `v > w` / `v >= w` for a decreasing one).
  budget     the loop body passes, on every trip, a call that fails once a monotone budget is exhausted -- only
             recognised through a confirmed reason, not automatically.

Every other loop is *unpaced*: it is tolerated only by a baseline entry (confirmed with a reason, or untriaged =
existed on the pinned tree and not claimed).  A new unpaced loop, or an edit that removes the pacing of an existing
loop (the increment moved under an `if`, the bound replaced by something the body changes, `iter::repeat` put in front
of the `for`), is a violation.  This is a necessary structural condition of "never fails to terminate", not a proof of
a time bound proportional to the input.
"""
import re

from .mir import Term, op_const, op_local, op_place

NEXT_RE = re.compile(r"::(next|nth|next_back|nth_back)$")


def is_iter_step(callee):
    """a call that advances an `Iterator` / `DoubleEndedIterator` by (at least) one item"""
    if not NEXT_RE.search(callee):
        return False
    return "iter::traits::iterator::Iterator" in callee or "iter::traits::double_ended::DoubleEndedIterator" in callee


FINITE_SRC = re.compile(
    r"^(core::ops::range::Range|core::ops::range::RangeInclusive|core::slice::iter::\w+|core::slice::\w+|alloc::vec::into_iter::IntoIter|"
    r"alloc::vec::drain::Drain|alloc::vec::IntoIter|core::array::iter::IntoIter|alloc::collections::\S+|std::collections::\S+|"
    r"core::str::iter::\w+|core::str::\w+|core::option::(Iter|IntoIter|IterMut)|core::result::(Iter|IntoIter|IterMut)|"
    r"core::iter::sources::once::Once|core::iter::sources::empty::Empty|core::iter::sources::once_with::OnceWith|"
    r"core::char::\w+|alloc::string::Drain|core::iter::sources::repeat_n::RepeatN)$")
INFINITE_SRC = re.compile(r"^(core::ops::range::RangeFrom|core::iter::sources::repeat::Repeat|core::iter::sources::repeat_with::RepeatWith|"
                          r"core::iter::adapters::cycle::Cycle|core::iter::sources::successors::Successors)$")
FIRST_ARG_ADAPTERS = re.compile(
    r"^core::iter::adapters::(map::Map|filter::Filter|filter_map::FilterMap|enumerate::Enumerate|rev::Rev|skip::Skip|step_by::StepBy|"
    r"copied::Copied|cloned::Cloned|peekable::Peekable|take_while::TakeWhile|skip_while::SkipWhile|map_while::MapWhile|scan::Scan|"
    r"fuse::Fuse|inspect::Inspect|by_ref_sized::ByRefSized|array_chunks::ArrayChunks|map_windows::MapWindows)$")
REPO_CRATES = ("read_fonts", "skrifa", "font_types", "incremental_font_transfer", "write_fonts", "klippa",
               "shared_brotli_patch_decoder", "fv_engine_fixture")


def parse_type(s):
    """'a::B<C, d::E<F>>' -> (name, [args]) ; tolerant, good enough for iterator types"""
    s = s.strip().replace("->", "\u2192")       # the arrow of fn types is not a closing bracket
    s = re.sub(r"^for<[^>]*>\s*", "", s)        # higher-ranked fn pointer types
    if s.startswith(("fn(", "unsafe fn(", "extern ")):
        return ("fn-pointer", [])
    i = s.find("<")
    if i < 0 or not s.endswith(">"):
        return (s, [])
    name = s[:i]
    inner = s[i + 1:-1]
    args, depth, cur = [], 0, ""
    for ch in inner:
        if ch in "<([{":
            depth += 1
        elif ch in ">)]}":
            depth -= 1
        if ch == "," and depth == 0:
            args.append(cur)
            cur = ""
        else:
            cur += ch
    if cur.strip():
        args.append(cur)
    return (name, [parse_type(a) for a in args])


def finiteness(t, inner_matters=False):
    """'finite' | 'infinite' | 'repo' | 'caller' | 'unknown' for a parsed iterator type.  `inner_matters`: the items of
    this iterator are themselves iterated (we are under a `Flatten`)"""
    name, args = t
    name = name.strip()
    while name.startswith("&"):
        name = name[5:] if name.startswith("&mut ") else name[1:]
        name = re.sub(r"^'\w+ ", "", name).strip()
    if name.startswith("<") and " as core::iter::traits::collect::IntoIterator" in name + "".join(a[0] for a in args):
        return "caller"         # `<I as IntoIterator>::IntoIter`: whatever the caller passes
    if re.match(r"^<\s*(impl |[A-Z]\w*\s)", name):
        return "caller"
    if name in ("core::option::Option", "core::result::Result"):
        return "finite"
    if FINITE_SRC.match(name):
        if inner_matters and args:
            rs = [finiteness(a) for a in args if _looks_like_iterator(a)]
            return _worst("finite", *rs)
        return "finite"
    if INFINITE_SRC.match(name):
        return "infinite"
    if name == "core::iter::adapters::take::Take":
        return "finite"
    if name == "core::iter::adapters::zip::Zip" and len(args) >= 2:
        a, b = finiteness(args[0]), finiteness(args[1])
        if "finite" in (a, b):
            return "finite"
        return _worst(a, b)
    if name == "core::iter::adapters::chain::Chain" and len(args) >= 2:
        return _worst(finiteness(args[0], inner_matters), finiteness(args[1], inner_matters))
    if name == "core::iter::adapters::flatten::Flatten" and args:
        return finiteness(args[0], True)
    if name == "core::iter::adapters::flatten::FlatMap" and len(args) >= 2:
        return _worst(finiteness(args[0]), finiteness(args[1]))
    if FIRST_ARG_ADAPTERS.match(name) and args:
        return finiteness(args[0], inner_matters)
    if name == "core::iter::sources::from_fn::FromFn":
        return "repo"           # a closure of this repository decides when it ends
    if name == "alloc::boxed::Box" and args and "dyn " in args[0][0]:
        return "repo"           # a boxed iterator built somewhere in this repository
    if name.startswith(REPO_CRATES):
        return "repo"
    if re.match(r"^(impl |dyn |[A-Z]\w*$)", name):
        return "caller"
    if name.startswith("{closure"):
        return "repo"
    return "unknown"


def _looks_like_iterator(t):
    n = t[0]
    return ("iter" in n.lower() or n.lstrip("&").strip().startswith(REPO_CRATES) or "FromFn" in n or "Range" in n) and not n.lstrip().startswith("{closure")


def _worst(*rs):
    for k in ("infinite", "unknown", "repo", "caller", "finite"):
        if k in rs:
            return k
    return "unknown"


def natural_loops(b):
    dom = b.dominators()
    heads = {}
    for u, blk in enumerate(b.blocks):
        if blk.cleanup:
            continue
        for h in blk.term.targets:
            if h in dom[u]:
                heads.setdefault(h, []).append(u)
    preds = b.preds()
    out = []
    for h, us in sorted(heads.items()):
        body = {h}
        st = list(us)
        while st:
            x = st.pop()
            if x in body:
                continue
            body.add(x)
            for p in preds[x]:
                if p not in body and not b.blocks[p].cleanup:
                    st.append(p)
        out.append((h, us, body))
    return out


def _assigned_in(b, body):
    """locals assigned (as a whole) inside the loop body"""
    out = set()
    for bb in body:
        blk = b.blocks[bb]
        for st in blk.stmts:
            if st[0] == "A" and not st[1][1]:
                out.add(st[1][0])
        t = blk.term
        if t.kind == "call" and not t.dest[1]:
            out.add(t.dest[0])
    return out


def _root_of_ref(b, l, depth=0):
    """root local of the place a reference local points to (through reborrows), or None"""
    if depth > 8:
        return None
    if 0 < l <= b.argc:
        return l
    sd = b.single_def(l)
    if sd is None or isinstance(sd[2], Term):
        return None
    rv = sd[2]
    if rv[0] in ("ref", "raw"):
        pl = rv[2]
        if pl[1] and pl[1][0] == "*":
            return _root_of_ref(b, pl[0], depth + 1)
        return pl[0]
    if rv[0] == "use":
        p = op_place(rv[1])
        if p is not None and not p[1]:
            return _root_of_ref(b, p[0], depth + 1)
    return None


def _copy_source(b, l, depth=0):
    """follow `x = copy y` single definitions back to the variable"""
    for _ in range(6):
        sd = b.single_def(l)
        if sd is None or isinstance(sd[2], Term) or sd[2][0] != "use":
            return l
        p = op_place(sd[2][1])
        if p is None or p[1]:
            return l
        l = p[0]
    return l


def classify(b, h, us, body):
    """-> (class, paced, detail)"""
    dom = b.dominators()
    assigned = _assigned_in(b, body)

    def dominates_back_edges(c):
        return all(c in dom[u] for u in us)

    # ---- iterator paced ---------------------------------------------------------------------------
    best = None
    for c in sorted(body):
        t = b.blocks[c].term
        if t.kind != "call" or not t.args or not is_iter_step(t.callee) or not dominates_back_edges(c):
            continue
        aty = (t.d.get("atys") or ["?"])[0]
        recv = op_local(t.args[0])
        root = _root_of_ref(b, recv) if recv is not None else None
        recreated = root is not None and root in assigned and not (0 < root <= b.argc)
        # the iterator object assigned inside the loop: only by this very call's own state update? a `for` desugars to an
        # iterator local defined *before* the loop, so any assignment inside means it is rebuilt each trip
        fin = finiteness(parse_type(aty))
        if recreated:
            fin = "recreated"
        cand = (fin, aty)
        order = {"finite": 0, "caller": 1, "repo": 2, "unknown": 3, "recreated": 4, "infinite": 5}
        if best is None or order[cand[0]] < order[best[0]]:
            best = cand
    if best is not None and best[0] in ("finite", "caller", "repo"):
        return "iterator:" + best[0], True, best[1][:100]
    # ---- counter paced ----------------------------------------------------------------------------
    ctr = _counter(b, h, us, body, dom, assigned)
    if ctr is not None:
        return "counter", True, ctr
    bs = _bisection(b, h, us, body, dom)
    if bs is not None:
        return "bisection", True, bs
    dr = _drain(b, h, us, body, dom, assigned)
    if dr is not None:
        return "drain", True, dr
    if best is not None:
        return "iterator:" + best[0], False, best[1][:100]
    calls = sorted({b.blocks[c].term.callee.split("::")[-1] for c in body
                    if b.blocks[c].term.kind == "call" and dominates_back_edges(c)})
    return "unpaced", False, ",".join(calls)[:80]


def _counter(b, h, us, body, dom, assigned):
    # candidate variables: locals assigned in the loop exactly once, by `v = (t.0)` / `v = t` with t = v (+|-) k
    defs_in = {}
    for bb in body:
        for j, st in enumerate(b.blocks[bb].stmts):
            if st[0] == "A" and not st[1][1]:
                defs_in.setdefault(st[1][0], []).append((bb, j, st[2]))
        t = b.blocks[bb].term
        if t.kind == "call" and not t.dest[1]:
            defs_in.setdefault(t.dest[0], []).append((bb, -1, t))
    for v, ds in sorted(defs_in.items()):
        if len(ds) != 1 or isinstance(ds[0][2], Term):
            continue
        bb, j, rv = ds[0]
        if not all(bb in dom[u] for u in us):
            continue
        step = _step_of(b, v, rv, body)
        if step is None:
            continue
        direction = step
        # a mutable borrow of v inside the loop lets something else write it
        if _mut_borrowed_in(b, v, body):
            continue
        # exit test on every trip
        for s in sorted(body):
            t = b.blocks[s].term
            if t.kind != "switch" or not all(s in dom[u] for u in us):
                continue
            inside = [x for x in t.targets if x in body]
            outside = [x for x in t.targets if x not in body]
            if not inside or not outside:
                continue
            dl = op_local(t.d[1])
            if dl is None:
                continue
            cmp_rv = _def_in_block_chain(b, dl, body)
            if cmp_rv is None or cmp_rv[0] != "bin" or cmp_rv[1] not in ("Lt", "Le", "Gt", "Ge"):
                continue
            x, y = cmp_rv[2], cmp_rv[3]
            side = None
            xl, yl = op_local(x), op_local(y)
            if xl is not None and _copy_source(b, xl) == v and _invariant(b, y, assigned, body):
                side = "left"
            elif yl is not None and _copy_source(b, yl) == v and _invariant(b, x, assigned, body):
                side = "right"
            if side is None:
                continue
            # which truth value stays in the loop?
            arms = dict((int(val), tgt) for val, tgt in t.d[2])
            stay_true = None
            if 0 in arms:
                stay_true = arms[0] not in body       # value 0 (false) leaves -> true stays
                if arms[0] in body and t.d[3] in body:
                    continue
                if arms[0] not in body and t.d[3] not in body:
                    continue
            else:
                continue
            op = cmp_rv[1]
            # normalise to a relation "v REL w" that holds while the loop continues
            rel = op if side == "left" else {"Lt": "Gt", "Le": "Ge", "Gt": "Lt", "Ge": "Le"}[op]
            if not stay_true:
                rel = {"Lt": "Ge", "Le": "Gt", "Gt": "Le", "Ge": "Lt"}[rel]
            if direction > 0 and rel in ("Lt", "Le"):
                return f"local _{v} increases by a constant every trip and the loop continues only while it is below an invariant bound"
            if direction < 0 and rel in ("Gt", "Ge"):
                return f"local _{v} decreases by a constant every trip and the loop continues only while it is above an invariant bound"
    return None


_RNG = {"fn": None}


def _step_at_least_one(b, op):
    """is operand (a local) known to be >= 1 where it is defined?  Uses the interval analysis of the body."""
    fn = _RNG["fn"]
    l = op_local(op)
    if fn is None or l is None:
        return False
    try:
        r = fn(b, l)
    except Exception:
        return False
    return r is not None and r[0] >= 1


def _expr(b, op, body, depth=0):
    """small expression tree of an operand through single-definition temporaries defined inside the loop:
    ('v', local) | ('k', n) | (op, a, b)"""
    if op[0] == "k":
        c = op_const(op)
        return ("k", c[1]) if c and c[1] is not None else ("?",)
    p = op[1]
    if len(p[1]) == 1 and isinstance(p[1][0], list) and p[1][0][0] == "f" and p[1][0][1] == 0:
        sd = b.single_def(p[0])
        if sd is not None and not isinstance(sd[2], Term) and sd[2][0] == "bin" and sd[2][1].endswith("WithOverflow"):
            return (sd[2][1][:-len("WithOverflow")], _expr(b, sd[2][2], body, depth + 1), _expr(b, sd[2][3], body, depth + 1))
        return ("?",)
    if p[1]:
        return ("?",)
    l = p[0]
    sd = b.single_def(l)
    if sd is None or isinstance(sd[2], Term) or depth > 8 or sd[0] not in body:
        return ("v", l)
    rv = sd[2]
    if rv[0] == "use":
        return _expr(b, rv[1], body, depth + 1)
    if rv[0] == "bin" and rv[1] in ("Add", "Sub", "Div", "Shr", "AddUnchecked", "SubUnchecked"):
        return (rv[1].replace("Unchecked", ""), _expr(b, rv[2], body, depth + 1), _expr(b, rv[3], body, depth + 1))
    return ("v", l)


def _is_midpoint(e, lo, hi):
    """(lo + hi) / 2, (lo + hi) >> 1, lo + (hi - lo) / 2, lo + ((hi - lo) >> 1): all lie in [lo, hi) when lo < hi"""
    def half(x):
        return x[0] in ("Div", "Shr") and x[2] == ("k", 2 if x[0] == "Div" else 1) and x[1]
    h = half(e) if len(e) == 3 else None
    if h:
        return h[0] == "Add" and {h[1], h[2]} == {("v", lo), ("v", hi)}
    if len(e) == 3 and e[0] == "Add":
        for a, c in ((e[1], e[2]), (e[2], e[1])):
            hh = half(c) if len(c) == 3 else None
            if a == ("v", lo) and hh and hh == ("Sub", ("v", hi), ("v", lo)):
                return True
    return False


def _bisection(b, h, us, body, dom):
    """`while lo < hi { mid = midpoint(lo, hi); .. lo = mid + k | hi = mid .. }` with one of the two assigned on every trip"""
    defs_in = {}
    for bb in body:
        for j, st in enumerate(b.blocks[bb].stmts):
            if st[0] == "A" and not st[1][1]:
                defs_in.setdefault(st[1][0], []).append((bb, j, st[2]))
        t = b.blocks[bb].term
        if t.kind == "call" and not t.dest[1]:
            defs_in.setdefault(t.dest[0], []).append((bb, -1, t))
    for s in sorted(body):
        t = b.blocks[s].term
        if t.kind != "switch" or not all(s in dom[u] for u in us):
            continue
        dl = op_local(t.d[1])
        if dl is None:
            continue
        cmp_rv = _def_in_block_chain(b, dl, body)
        if cmp_rv is None or cmp_rv[0] != "bin" or cmp_rv[1] not in ("Lt", "Gt", "Le", "Ge"):
            continue
        xl, yl = op_local(cmp_rv[2]), op_local(cmp_rv[3])
        if xl is None or yl is None:
            continue
        arms = dict((int(val), tgt) for val, tgt in t.d[2])
        if 0 not in arms:
            continue
        false_in, true_in = arms[0] in body, t.d[3] in body
        if false_in == true_in:
            continue
        # the relation between x and y that holds while the loop continues
        rel = cmp_rv[1] if true_in else {"Lt": "Ge", "Le": "Gt", "Gt": "Le", "Ge": "Lt"}[cmp_rv[1]]
        if rel == "Lt":
            lo, hi = _copy_source(b, xl), _copy_source(b, yl)
        elif rel == "Gt":
            lo, hi = _copy_source(b, yl), _copy_source(b, xl)
        else:
            continue            # the loop must run exactly while `lo < hi`
        if lo not in defs_in or hi not in defs_in or lo == hi:
            continue
        ok = True
        blocks = set()
        for v, want in ((lo, "lo"), (hi, "hi")):
            for bb, j, rv in defs_in[v]:
                if isinstance(rv, Term):
                    ok = False
                    break
                blocks.add(bb)
                e = _expr(b, ["c", [v, []]], body) if False else None
                # the assigned value
                if rv[0] != "use":
                    ok = False
                    break
                e = _expr(b, rv[1], body)
                if want == "hi":
                    if not _is_midpoint(e, lo, hi):
                        ok = False
                else:
                    if not (len(e) == 3 and e[0] == "Add" and ((_is_midpoint(e[1], lo, hi) and e[2][0] == "k" and e[2][1] >= 1)
                                                                or (_is_midpoint(e[2], lo, hi) and e[1][0] == "k" and e[1][1] >= 1))):
                        ok = False
                if not ok:
                    break
            if not ok:
                break
        if not ok or _mut_borrowed_in(b, lo, body) or _mut_borrowed_in(b, hi, body):
            continue
        # every trip assigns one of them: without the assigning blocks no back edge is reachable from the header
        seen = {h} if h not in blocks else set()
        st = list(seen)
        while st:
            x = st.pop()
            for y in b.blocks[x].term.targets:
                if y in body and y not in seen and y not in blocks and y != h:
                    seen.add(y)
                    st.append(y)
        if any(u in seen for u in us):
            continue
        return f"bisection: the loop runs while _{lo} < _{hi} and every trip sets _{lo} = mid + k or _{hi} = mid, mid a midpoint of the two"
    return None


POP_RE = re.compile(r"^(alloc::vec::Vec::<T, A>::pop|alloc::collections::vec_deque::VecDeque::<T, A>::pop_(front|back)|"
                    r"alloc::collections::btree::(set::BTreeSet|map::BTreeMap)::<[^>]*>::pop_(first|last)|"
                    r"alloc::collections::binary_heap::BinaryHeap::<T, A>::pop)$")


def _drain(b, h, us, body, dom, assigned):
    """`while let Some(x) = work.pop() { .. }` where nothing in the loop can put elements back: each trip removes one
    element of a finite std container"""
    for c in sorted(body):
        t = b.blocks[c].term
        if t.kind != "call" or not t.args or not POP_RE.match(t.callee) or not all(c in dom[u] for u in us):
            continue
        recv = op_local(t.args[0])
        root = _root_of_ref(b, recv) if recv is not None else None
        if root is None or (root in assigned and not (0 < root <= b.argc)):
            continue
        # the field path of the receiver (e.g. `(*self).todo`), to tell it from other containers behind the same root
        sd = b.single_def(recv)
        rpath = None
        if sd is not None and not isinstance(sd[2], Term) and sd[2][0] in ("ref", "raw"):
            rpath = _fields(sd[2][2][1])
        grows = False
        for bb in body:
            t2 = b.blocks[bb].term
            if t2.kind != "call" or bb == c:
                continue
            for a, aty in zip(t2.args, t2.d.get("atys") or []):
                if not aty.startswith("&mut"):
                    continue
                al = op_local(a)
                if al is None or _root_of_ref(b, al) != root:
                    continue
                sd2 = b.single_def(al)
                p2 = _fields(sd2[2][2][1]) if sd2 is not None and not isinstance(sd2[2], Term) and sd2[2][0] in ("ref", "raw") else None
                if rpath is None or p2 is None or None in rpath or None in p2:
                    grows = True
                else:
                    n = min(len(rpath), len(p2))
                    if rpath[:n] == p2[:n]:
                        grows = True         # the container itself, or something containing it, is handed out mutably
        if not grows:
            return f"every trip pops one element of {t.callee.split('::')[-3] if '::' in t.callee else 'a container'} and nothing in the loop can add to it"
    return None


def _step_of(b, v, rv, body):
    """+1 / -1 if rv computes v + k / v - k (k const >= 1), through the overflow tuple"""
    if rv[0] == "use":
        p = op_place(rv[1])
        if p is None:
            return None
        if len(p[1]) == 1 and isinstance(p[1][0], list) and p[1][0][0] == "f" and p[1][0][1] == 0:
            sd = b.single_def(p[0])
            if sd is None or isinstance(sd[2], Term):
                return None
            return _step_of(b, v, sd[2], body)
        if not p[1]:
            sd = b.single_def(p[0])
            if sd is None or isinstance(sd[2], Term):
                return None
            return _step_of(b, v, sd[2], body)
        return None
    if rv[0] == "bin" and rv[1] in ("AddWithOverflow", "SubWithOverflow", "Add", "Sub", "AddUnchecked", "SubUnchecked"):
        a, k = rv[2], rv[3]
        al = op_local(a)
        kc = op_const(k) if k[0] == "k" else None
        if al is not None and _copy_source(b, al) == v and kc and kc[1] is not None and kc[1] >= 1:
            return 1 if rv[1].startswith("Add") else -1
        if al is not None and _copy_source(b, al) == v and k[0] != "k" and _step_at_least_one(b, k):
            return 1 if rv[1].startswith("Add") else -1
        if rv[1].startswith("Add"):
            # k + v
            al2 = op_local(k)
            kc2 = op_const(a) if a[0] == "k" else None
            if al2 is not None and _copy_source(b, al2) == v and kc2 and kc2[1] is not None and kc2[1] >= 1:
                return 1
    return None


def _mut_borrowed_in(b, v, body):
    for bb in body:
        for st in b.blocks[bb].stmts:
            if st[0] == "A" and st[2][0] in ("ref", "raw"):
                rv = st[2]
                mut = (rv[1] == "mut") if rv[0] == "ref" else ("Mut" in str(rv[1]))
                if mut and rv[2][0] == v:
                    return True
    return False


def _def_in_block_chain(b, l, body):
    sd = b.single_def(l)
    if sd is None or isinstance(sd[2], Term):
        return None
    return sd[2]


def _invariant(b, op, assigned, body, depth=0):
    """operand does not change inside the loop: a constant, a local not assigned in the loop, a copy of one, or the
    length of something reached through an invariant reference"""
    if op[0] == "k":
        return True
    p = op[1]
    if p[0] not in assigned or (0 < p[0] <= b.argc and p[0] not in assigned):
        if not p[1]:
            return True
        # a field read through a pointer that does not change in the loop
        if b.locals[p[0]][0].startswith("&") and not b.locals[p[0]][0].startswith("&mut"):
            return True
        return not _place_written_in(b, p, body)
    if depth > 4 or p[1]:
        return False
    sd = b.single_def(p[0])
    if sd is None:
        return False
    rv = sd[2]
    if isinstance(rv, Term):
        short = rv.callee.split("::")[-1]
        from . import intervals as _iv
        gp = _iv.GETTERS.get(rv.callee)
        if gp is not None and len(rv.args) == 1 and op_local(rv.args[0]) is not None:
            # `self.stack.len()` where `len` is a plain field getter: the field, read through the receiver
            al = op_local(rv.args[0])
            sd2 = b.single_def(al)
            if sd2 is not None and not isinstance(sd2[2], Term) and sd2[2][0] == "ref":
                base = sd2[2][2]
                if base[0] not in assigned or (0 < base[0] <= b.argc):
                    full = [base[0], list(base[1]) + list(gp[1:])]
                    if b.locals[base[0]][0].startswith("&") and not b.locals[base[0]][0].startswith("&mut"):
                        return True
                    return not _place_written_in(b, full, body)
            return False
        if short in ("len",) and rv.args and re.match(r"^<?(core|alloc|std)::", rv.callee):
            a = rv.args[0]
            al = op_local(a)
            if al is None:
                return False
            root = _root_of_ref(b, al)
            if root is None or (root in assigned and not (0 < root <= b.argc)):
                return False
            rty = b.locals[al][0]
            # the container itself must not be growable inside the loop: a `&mut Vec` handed to a call could push
            return not _container_mutated(b, root, body)
        return False
    if rv[0] == "use":
        return _invariant(b, rv[1], assigned, body, depth + 1)
    if rv[0] == "cast":
        return _invariant(b, rv[2], assigned, body, depth + 1)
    return False


def _fields(projs):
    return [e[1] if isinstance(e, list) and e[0] == "f" else ("*" if e == "*" else None) for e in projs]


def _place_written_in(b, p, body):
    """can the loop body write the place p = (*ptr).f.g (ptr a `&mut` that is not reassigned in the loop)?  Conservative:
    a store through the same pointer to an overlapping field path, a `&mut` borrow of an overlapping path, or handing
    the pointer itself (or a reborrow of the whole pointee) to a call"""
    root = p[0]
    path = _fields(p[1])
    if None in path:
        return True

    def overlaps(q):
        qp = _fields(q)
        if None in qp:
            qp = qp[:qp.index(None)]
        n = min(len(qp), len(path))
        return qp[:n] == path[:n]
    derived = {root}
    changed = True
    while changed:
        changed = False
        for l in range(len(b.locals)):
            if l in derived:
                continue
            sd = b.single_def(l)
            if sd is None or isinstance(sd[2], Term):
                continue
            rv = sd[2]
            src = None
            if rv[0] == "use":
                q = op_place(rv[1])
                if q is not None and not q[1]:
                    src = q[0]
            elif rv[0] in ("ref", "raw") and rv[2][1] == ["*"]:
                src = rv[2][0]
            if src in derived:
                derived.add(l)
                changed = True
    for bb in body:
        blk = b.blocks[bb]
        for st in blk.stmts:
            if st[0] != "A":
                continue
            d = st[1]
            if d[0] in derived and d[1] and overlaps(d[1]):
                return True
            rv = st[2]
            if rv[0] in ("ref", "raw"):
                mut = (rv[1] == "mut") if rv[0] == "ref" else ("Mut" in str(rv[1]))
                q = rv[2]
                if mut and q[0] in derived and q[1] and q[1] != ["*"] and overlaps(q[1]):
                    return True
        t = blk.term
        if t.kind == "call":
            if t.dest[0] in derived and t.dest[1] and overlaps(t.dest[1]):
                return True
            for a, aty in zip(t.args, t.d.get("atys") or []):
                al = op_local(a)
                if al is not None and al in derived and aty.startswith("&mut"):
                    return True
    return False


def _container_mutated(b, root, body):
    """does the loop hand out `&mut` access to (the whole of) local `root`, whose length is the loop bound?"""
    ty = b.locals[root][0]
    if ty.startswith("&") and not ty.startswith("&mut"):
        return False            # behind a shared reference: nobody can change its length
    if re.match(r"^(&mut )?\[", ty) or re.search(r"^&mut \[", ty):
        return False            # a slice cannot change length
    for bb in body:
        t = b.blocks[bb].term
        if t.kind == "call":
            for a, aty in zip(t.args, t.d.get("atys") or []):
                if aty.startswith("&mut") and "Vec" in aty:
                    al = op_local(a)
                    if al is not None and _root_of_ref(b, al) == root:
                        return True
    return False


def _make_rng(facts):
    """range of a local at its (single) definition point, from the body's interval analysis"""
    from . import argsum, intervals, counters, fieldinv, retsum
    from .intervals import register_adts
    register_adts(facts)
    counters.register(facts)
    fieldinv.register(facts)
    retsum.register(facts)
    asum = argsum.get(facts)

    def rng(b, l):
        iv = asum.iv_of(b)
        if iv is None or not iv.converged:
            return None
        sd = b.single_def(l)
        if sd is None:
            return None
        bb, j = sd[0], sd[1]
        # state after the defining statement / call: take the state before the next statement of that block
        blk = b.blocks[bb]
        if isinstance(sd[2], Term):
            tgt = sd[2].targets[0] if sd[2].targets else None
            st = iv.state_before_stmt(tgt, 0) if tgt is not None and tgt in iv.in_states else None
        else:
            st = iv.state_before_stmt(bb, j + 1) if j + 1 <= len(blk.stmts) else None
        if st is None:
            return None
        return iv.rng(st, ["c", [l, []]])
    return rng


def exit_free_cycle(b, h, body):
    """Is there a path from the loop head back to the head, inside the loop, that passes no block from which the loop
    can be left (a branch with a successor outside the loop, or a return)?  Such a trip cannot end the loop whatever the
    state is: `for`/`while` loops never have one (the head itself is an exit test), a `loop { .. }` whose `continue`
    skips the exit test does.  Unwind edges do not count as exits.  -> a witness block on the cycle, or None"""
    def is_exit(x):
        t = b.blocks[x].term
        if t.kind == "ret":
            return True
        return any(s not in body and not b.blocks[s].cleanup for s in t.targets)
    exits = {x for x in body if is_exit(x)}
    if h in exits:
        return None
    seen = set()
    st = [(s, s) for s in b.blocks[h].term.targets if s in body and s not in exits]
    while st:
        x, first = st.pop()
        if x == h:
            return first
        if x in seen:
            continue
        seen.add(x)
        for s in b.blocks[x].term.targets:
            if s in body and s not in exits:
                st.append((s, first))
    return None


def stutter_trip(b, h, body):
    """Is there a path from the loop head back to the head on which nothing is written that any branch inside the loop
    depends on?  After such a trip every test in the loop sees the values it saw before, so (the code being deterministic)
    the same path is taken again, for ever.  D = the locals that the operands of the loop's `switch` terminators depend on,
    through definitions inside the loop (assignments, call results, references); a block *writes* D if it assigns a place
    rooted at a local of D, stores a call result there, or hands a `&mut` to one of them to a call.  -> True if such a
    trip exists"""
    from .mir import op_place
    defs = {}
    for x in body:
        blk = b.blocks[x]
        for st in blk.stmts:
            if st[0] == "A" and not st[1][1]:
                defs.setdefault(st[1][0], []).append(("s", st[2]))
        t = blk.term
        if t.kind == "call" and not t.dest[1]:
            defs.setdefault(t.dest[0], []).append(("c", t))
    work = []
    n_sw = 0
    for x in body:
        t = b.blocks[x].term
        if t.kind == "switch":
            n_sw += 1
            p = op_place(t.d[1])
            if p is not None:
                work.append(p[0])
    if not n_sw:
        return False
    dep = set()

    def roots(v, out):
        # every place mentioned in an rvalue, whatever its form (use / ref / disc / len / bin / agg / cast ..): `[local, [proj..]]`
        if isinstance(v, list):
            if len(v) == 2 and isinstance(v[0], int) and not isinstance(v[0], bool) and isinstance(v[1], list):
                out.append(v[0])
                for e in v[1]:
                    if isinstance(e, list) and e and e[0] == "i" and len(e) > 1 and isinstance(e[1], int):
                        out.append(e[1])
            else:
                for y in v:
                    roots(y, out)
    while work:
        l = work.pop()
        if l in dep:
            continue
        dep.add(l)
        for kind, d in defs.get(l, []):
            rs = []
            if kind == "s":
                roots(d, rs)
            else:
                roots(list(d.args), rs)
            work.extend(rs)
    # a write is an assignment to a *variable* (a local the source names, or something behind a pointer / in a field) --
    # the compiler's temporaries are recomputed from the variables on every trip and carry no state of their own
    # ... more precisely, of a *loop-carried* variable: one whose value at the loop head can be read by the trip before the
    # trip assigns it (live at the head).  `let a = table[i];` at the top of the body is recomputed like a temporary.
    blk_use_first = {}
    blk_def = {}
    for x in body:
        blk = b.blocks[x]
        used, defined = set(), set()
        for st in blk.stmts:
            if st[0] == "A":
                rs = []
                roots(st[2], rs)
                if st[1][1]:
                    rs.append(st[1][0])          # a store through / into part of it reads the rest
                used |= {r for r in rs if r not in defined}
                if not st[1][1]:
                    defined.add(st[1][0])
        t = blk.term
        rs = []
        if t.kind == "call":
            roots(list(t.args), rs)
        elif t.kind == "switch":
            roots(t.d[1], rs)
        elif t.kind == "assert":
            roots(t.d[4] if len(t.d) > 4 else [], rs)
            roots(t.d[1], rs)
        used |= {r for r in rs if r not in defined}
        if t.kind == "call" and not t.dest[1]:
            defined.add(t.dest[0])
        blk_use_first[x] = used
        blk_def[x] = defined

    def live_at_head(l):
        seen = set()
        st = [h]
        while st:
            x = st.pop()
            if x in seen:
                continue
            seen.add(x)
            if l in blk_use_first[x]:
                return True
            if l in blk_def[x]:
                continue
            st.extend(s2 for s2 in b.blocks[x].term.targets if s2 in body)
        return False
    carried = {l for l in dep if live_at_head(l)}

    def is_var(place):
        return bool(place[1]) or place[0] in carried
    writes = set()
    for x in body:
        blk = b.blocks[x]
        for st in blk.stmts:
            if st[0] == "A" and st[1][0] in dep and is_var(st[1]):
                writes.add(x)
        t = blk.term
        if t.kind == "call":
            if t.dest[0] in dep and is_var(t.dest):
                writes.add(x)
            for a, aty in zip(t.args, (t.d.get("atys") or [])):
                p = op_place(a)
                if p is None or not (aty.startswith("&mut") or aty.startswith("*mut")):
                    continue
                tgt = {p[0]}
                # `f(&mut v)`: the argument is a temporary holding the reference; what it points into is what is written
                for _ in range(3):
                    nxt = set()
                    for l in tgt:
                        for (dbb, dj, rv) in b.defs().get(l, []):
                            if not hasattr(rv, "callee") and rv[0] == "ref" and isinstance(rv[2], list):
                                nxt.add(rv[2][0])
                            elif not hasattr(rv, "callee") and rv[0] == "use" and op_place(rv[1]) is not None:
                                nxt.add(op_place(rv[1])[0])
                    if not nxt - tgt:
                        break
                    tgt |= nxt
                if tgt & dep:
                    writes.add(x)
    if h in writes:
        return False

    # path search, with one piece of path sensitivity: `x = None` / `x = Err(..)` followed by `x?` leaves the loop, it does not
    # continue (the arm of a match that produces the absence ends the iteration)
    def const_fail(x):
        """locals assigned a payload-free failure variant in block x"""
        out = set()
        for st_ in b.blocks[x].stmts:
            if st_[0] == "A" and not st_[1][1] and st_[2][0] == "agg" and st_[2][1][0] == "adt":
                adt, var = st_[2][1][1], st_[2][1][2]
                if (adt == "core::option::Option" and var == 0) or (adt == "core::result::Result" and var == 1):
                    out.add(st_[1][0])
        return out
    seen = set()
    st = [(s, frozenset()) for s in b.blocks[h].term.targets if s in body and s not in writes]
    while st:
        x, fails = st.pop()
        if x == h:
            return True
        if (x, fails) in seen:
            continue
        seen.add((x, fails))
        blk = b.blocks[x]
        fails = set(fails) | const_fail(x)
        t = blk.term
        targets = list(t.targets)
        if t.kind == "call" and t.callee.endswith("as core::ops::try_trait::Try>::branch") and t.args and op_place(t.args[0]) is not None \
                and op_place(t.args[0])[0] in fails and not t.dest[1]:
            fails.add(("br", t.dest[0]))
        if t.kind == "switch":
            # switch on the discriminant of a `branch` result known to be Break: only the Break arm (value 1) is feasible
            p = op_place(t.d[1])
            if p is not None:
                for st_ in blk.stmts:
                    if st_[0] == "A" and st_[1] == [p[0], []] and st_[2][0] == "disc" and ("br", st_[2][1][0]) in fails:
                        targets = [tg for v, tg in t.d[2] if str(v) == "1"]
        st.extend((s, frozenset(fails)) for s in targets if s in body and s not in writes)
    return False


def collect_loops(facts, crates, skip_file_re=None):
    """-> (sites, n_functions): one census 'site' per natural loop"""
    out = []
    nfn = 0
    _RNG["fn"] = _make_rng(facts)
    for c in crates:
        if c not in facts.crates:
            continue
        for b in facts.all_bodies(c):
            if b.generated or (skip_file_re is not None and skip_file_re.search(b.file)):
                continue
            nfn += 1
            ls = natural_loops(b)
            for h, us, body in ls:
                cls, paced, detail = classify(b, h, us, body)
                line = b.blocks[h].term.line
                if line is None:
                    for x in sorted(body):
                        if b.blocks[x].term.line is not None:
                            line = b.blocks[x].term.line
                            break
                out.append(dict(kind="loop:" + cls, body=b, bb=h, line=line or b.lo, ok=paced,
                                why=(detail if paced else f"no recognised pacing ({cls}: {detail})"),
                                key=(b.path, "loop", h), iv=None, loop_class=cls))
                w = exit_free_cycle(b, h, body)
                out.append(dict(kind="loop:exit-free-trip", body=b, bb=h, line=line or b.lo, ok=w is None,
                                why=("every trip through the loop passes a block from which the loop can be left" if w is None else
                                     "a path from the loop head back to the head passes no exit test (a `continue` that skips the "
                                     "loop's exit condition): if the state keeps selecting that path the loop never ends"),
                                key=(b.path, "loop-exit", h), iv=None, loop_class="exit-free-trip"))
                stut = stutter_trip(b, h, body)
                out.append(dict(kind="loop:stutter-trip", body=b, bb=h, line=line or b.lo, ok=not stut,
                                why=("every trip writes something a branch in the loop depends on" if not stut else
                                     "a path from the loop head back to the head writes nothing that any branch in the loop depends "
                                     "on (a `continue` before the step, a step left out of one arm): the next trip is identical"),
                                key=(b.path, "loop-stutter", h), iv=None, loop_class="stutter-trip"))
    return out, nfn
