"""Return-range summaries: for every analysed function that returns an integer, the hull of the interval of `_0` over
all its return blocks with the parameters unconstrained.  Computed on every run (two rounds, so a summary can use the
summaries of the callees computed in the round before; a callee without a summary is unconstrained, so every round is
sound on its own).  Lets a caller know that `element_index(v) <= 7` or `branch_factor.value() >= 2`."""
from . import intervals
from .intervals import Intervals, ty_range, hull


def compute(facts, crates=None, rounds=2):
    crates = [c for c in (crates or facts.crates) if c in facts.crates]
    todo = []
    for c in crates:
        for b in facts.all_bodies(c, kinds=("fn",)):
            tr = ty_range(b.locals[0][0])
            if tr is None or b.locals[0][0] in ("bool", "char"):
                continue
            if len(b.blocks) > 400:
                continue
            todo.append((b, tr))
    out = {}
    for rnd in range(rounds):
        intervals.RET_RANGES.clear()
        intervals.RET_RANGES.update(out)
        new = {}
        for b, tr in todo:
            # leaf-ish functions only need one round: skip bodies without calls after the first
            if rnd > 0 and b.path in out and not any(True for _ in b.calls()):
                new[b.path] = out[b.path]
                continue
            iv = Intervals(b)
            if not iv.converged:
                continue
            r = None
            for rb in b.return_blocks():
                st = iv.state_at_term(rb)
                if st is None:
                    continue
                v = st.iv.get(0, tr)
                a = st.alias.get(0)
                if a is not None and a in st.iv:
                    av = st.iv[a]
                    if av[0] <= v[1] and av[1] >= v[0]:
                        v = (max(v[0], av[0]), min(v[1], av[1]))
                r = v if r is None else hull(r, v)
            if r is not None and r != tr:
                new[b.path] = r
        out = new
    intervals.RET_RANGES.clear()
    return out


def register(facts, crates=None):
    if getattr(facts, "_retsum", None) is None:
        facts._retsum = compute(facts, crates)
    intervals.RET_RANGES.clear()
    intervals.RET_RANGES.update(facts._retsum)
    return facts._retsum
