"""Return-range summaries: for every analysed function that returns an integer, the hull of the interval of `_0` over
all its return blocks with the parameters unconstrained.  Computed on every run (two rounds, so a summary can use the
summaries of the callees computed in the round before; a callee without a summary is unconstrained, so every round is
sound on its own).  Lets a caller know that `element_index(v) <= 7` or `branch_factor.value() >= 2`."""
from . import intervals
from .intervals import Intervals, ty_range, hull


def compute(facts, crates=None, rounds=2):
    crates = [c for c in (crates or facts.crates) if c in facts.crates]
    todo = []
    for c in crates:
        for b in facts.all_bodies(c, kinds=("fn",)):
            tr = ty_range(b.locals[0][0])
            if tr is None or b.locals[0][0] in ("bool", "char"):
                continue
            if len(b.blocks) > 400:
                continue
            todo.append((b, tr))
    out = {}
    for rnd in range(rounds):
        intervals.RET_RANGES.clear()
        intervals.RET_RANGES.update(out)
        new = {}
        for b, tr in todo:
            # leaf-ish functions only need one round: skip bodies without calls after the first
            if rnd > 0 and b.path in out and not any(True for _ in b.calls()):
                new[b.path] = out[b.path]
                continue
            iv = Intervals(b)
            if not iv.converged:
                continue
            r = None
            for rb in b.return_blocks():
                st = iv.state_at_term(rb)
                if st is None:
                    continue
                v = st.iv.get(0, tr)
                a = st.alias.get(0)
                if a is not None and a in st.iv:
                    av = st.iv[a]
                    if av[0] <= v[1] and av[1] >= v[0]:
                        v = (max(v[0], av[0]), min(v[1], av[1]))
                r = v if r is None else hull(r, v)
            if r is not None and r != tr:
                new[b.path] = r
        out = new
    intervals.RET_RANGES.clear()
    return out


def closed_trait_summaries(facts, summaries):
    """A call through a trait the crate does not export (`T: CharsetRange`, `<T as CharsetRange>::n_left` -- MIR names the
    trait method) can only land in one of the impls the analysed crates contain.  If every impl of such a trait has a
    return summary for the method, the hull of those summaries is a summary of the trait method.  -> {trait method path: range}"""
    closed = {r["path"] for r in facts.records("trait") if not r.get("reachable", True)}
    if not closed:
        return {}
    impls = {}
    for r in facts.records("impl"):
        t = r.get("trait")
        if t in closed:
            impls.setdefault(t, []).append(r)
    out = {}
    for t, rs in impls.items():
        if any(not r.get("mono", True) and "<" in r["self_ty"] and False for r in rs):
            continue
        methods = set()
        for r in rs:
            methods |= {m for m in (r.get("items") or [])}
        for m in methods:
            rng = None
            ok = True
            for r in rs:
                key = f"<{r['self_ty']} as {t}>::{m}"
                sr = summaries.get(key)
                if sr is None:
                    ok = False      # this impl has no summary (or inherits a default method): nothing to say
                    break
                rng = sr if rng is None else hull(rng, sr)
            if ok and rng is not None:
                out[f"{t}::{m}"] = rng
    return out


def getters(facts, crates=None):
    """plain field getters: `fn f(&self) -> int { self.a.b }` -> the MIR projection list of the returned place"""
    from .mir import op_place
    out = {}
    crates = [c for c in (crates or facts.crates) if c in facts.crates]
    for c in crates:
        for b in facts.all_bodies(c, kinds=("fn",)):
            if b.argc != 1 or len(b.blocks) > 2 or ty_range(b.locals[0][0]) is None or not b.locals[1][0].startswith("&"):
                continue
            if b.locals[1][0].startswith("&mut"):
                continue
            stmts = [st for blk in b.blocks if not blk.cleanup for st in blk.stmts if st[0] == "A"]
            if not stmts or len(stmts) > 2 or any(blk.term.kind not in ("ret", "goto") for blk in b.blocks if not blk.cleanup):
                continue
            src = None
            ok = True
            cur = None     # local currently holding the value
            for st in stmts:
                pl, rv = st[1], st[2]
                if pl[1] or rv[0] != "use":
                    ok = False
                    break
                p = op_place(rv[1])
                if p is None:
                    ok = False
                    break
                if src is None:
                    if p[0] != 1 or not p[1] or p[1][0] != "*" or not all(isinstance(e, list) and e[0] == "f" for e in p[1][1:]) or len(p[1]) < 2:
                        ok = False
                        break
                    src = p[1]
                    cur = pl[0]
                else:
                    if p[1] or p[0] != cur:
                        ok = False
                        break
                    cur = pl[0]
            if ok and src is not None and cur == 0:
                out[b.path] = src
    return out


def ret_facts(facts, crates=None):
    """facts about the Ok / Some payload of small functions that return `Result<int | (int, ..), E>` / `Option<..>`:
    relations between the payload components, between a component and the length of something behind a pointer parameter,
    and component intervals -- evaluated in the function's own interval state at every place that builds the success value"""
    from .mir import op_const, op_local, Term
    crates = [c for c in (crates or facts.crates) if c in facts.crates]
    out = {}
    RE = __import__("re").compile(r"^core::(result::Result|option::Option)<(\((?:[ui](?:8|16|32|64|size), )*[ui](?:8|16|32|64|size),?\)|[ui](?:8|16|32|64|size))[,>]")
    for c in crates:
        for b in facts.all_bodies(c, kinds=("fn",)):
            rty = b.locals[0][0]
            m = RE.match(rty)
            if not m or len(b.blocks) > 300 or b.generated:
                continue
            succ = 0 if "Result" in m.group(1) else 1
            sites = []
            ok = True
            for bb, blk in enumerate(b.blocks):
                if blk.cleanup:
                    continue
                for j, st in enumerate(blk.stmts):
                    if st[0] != "A" or st[1] != [0, []]:
                        continue
                    rv = st[2]
                    if rv[0] == "agg" and rv[1][0] == "adt" and rv[1][1] in ("core::result::Result", "core::option::Option"):
                        if rv[1][2] == succ:
                            sites.append((bb, j, rv[2][0] if rv[2] else None))
                    else:
                        ok = False
                t = blk.term
                if t.kind == "call" and t.dest == [0, []] and not t.callee.endswith("from_residual"):
                    ok = False
            if not ok or not sites:
                continue
            iv = Intervals(b)
            if not iv.converged:
                continue
            acc = None
            for bb, j, op in sites:
                st = iv.state_before_stmt(bb, j)
                if st is None:
                    continue
                if op is None:
                    acc = set()
                    break
                comps = []     # (payload path, operand)
                ol = op_local(op)
                if ol is not None and iv.tr[ol] is None:
                    # a tuple built just before
                    tdef = None
                    for jj in range(j - 1, -1, -1):
                        s2 = b.blocks[bb].stmts[jj]
                        if s2[0] == "A" and s2[1] == [ol, []]:
                            tdef = s2[2]
                            break
                    if tdef is None or tdef[0] != "agg" or tdef[1][0] != "tuple":
                        acc = set()
                        break
                    for i, o in enumerate(tdef[2]):
                        comps.append(((("d", succ), ("f", 0), ("f", i)), o))
                else:
                    comps.append(((("d", succ), ("f", 0)), op))
                here = set()
                terms = {}
                for path, o in comps:
                    r = iv.rng(st, o)
                    if r is None:
                        continue
                    terms[path] = iv.term_of(st, o)
                    ty = iv.op_type(o) if o[0] != "k" else o[1]
                    tr = ty_range(ty) if ty else None
                    if tr is not None and r != tr:
                        here.add((path, "rng", ("rng", r[0], r[1])))
                for path, t in terms.items():
                    if t is None:
                        continue
                    for (a, o2, b2) in st.rel:
                        if a == t and isinstance(b2, tuple) and b2[0] == "L" and isinstance(b2[1], int) and 0 < b2[1] <= b.argc \
                                and b.locals[b2[1]][0].startswith("&"):
                            here.add((path, o2, ("Lp", b2[1], tuple(b2[2]))))
                            if o2 == "<":
                                here.add((path, "<=", ("Lp", b2[1], tuple(b2[2]))))
                    # ... and an integer parameter that the function never assigns (`end < num_points`)
                    for pi in range(1, b.argc + 1):
                        if iv.tr[pi] is None or pi == t or b.defs().get(pi):
                            continue
                        if iv.has_rel(st, t, "<", pi):
                            here.add((path, "<", ("Ip", pi)))
                            here.add((path, "<=", ("Ip", pi)))
                        elif iv.has_rel(st, t, "<=", pi):
                            here.add((path, "<=", ("Ip", pi)))
                    for path2, t2 in terms.items():
                        if path2 != path and t2 is not None:
                            if iv.has_rel(st, t, "<", t2):
                                here.add((path, "<", ("ret", path2)))
                                here.add((path, "<=", ("ret", path2)))
                            elif iv.has_rel(st, t, "<=", t2):
                                here.add((path, "<=", ("ret", path2)))
                # interval facts are joined by hull, relations by intersection
                if acc is None:
                    acc = here
                else:
                    rel_a = {x for x in acc if x[1] != "rng"} & {x for x in here if x[1] != "rng"}
                    ra = {x[0]: x[2] for x in acc if x[1] == "rng"}
                    rh = {x[0]: x[2] for x in here if x[1] == "rng"}
                    rng = set()
                    for k in ra:
                        if k in rh:
                            rng.add((k, "rng", ("rng", min(ra[k][1], rh[k][1]), max(ra[k][2], rh[k][2]))))
                    acc = rel_a | rng
            if acc:
                out[b.path] = (succ, sorted(acc, key=repr))
    return out


def promoted_ranges(facts):
    """promoted constants that are integer ranges: `&(0..=6)` -> {promoted path: (start, end, inclusive)}"""
    from .mir import op_const
    out = {}
    for path, m in facts._index["meta"].items():
        if m[3] != "promoted":
            continue
        b = facts.body(path, _fuzzy=False)
        if b is None or len(b.blocks) > 3 or not b.locals[0][0].startswith("&core::ops::range::Range"):
            continue
        for blk in b.blocks:
            t = blk.term
            if t.kind == "call" and t.callee.endswith("RangeInclusive::<Idx>::new") and len(t.args) == 2 and t.args[0][0] == "k" and t.args[1][0] == "k":
                a, c = op_const(t.args[0]), op_const(t.args[1])
                if a and c and a[1] is not None and c[1] is not None and ty_range(a[0]) is not None:
                    out[path] = (a[1], c[1], True, a[0])
        for st in b.blocks[0].stmts:
            if st[0] == "A" and st[2][0] == "agg" and st[2][1][0] == "adt" and st[2][1][1] in ("core::ops::range::Range", "core::ops::range::RangeInclusive"):
                ops = st[2][2]
                if len(ops) >= 2 and ops[0][0] == "k" and ops[1][0] == "k":
                    a, c = op_const(ops[0]), op_const(ops[1])
                    if a and c and a[1] is not None and c[1] is not None and ty_range(a[0]) is not None:
                        out[path] = (a[1], c[1], st[2][1][1].endswith("Inclusive"), a[0])
    return out


def register_getters(facts, crates=None):
    if getattr(facts, "_getters", None) is None:
        facts._getters = getters(facts, crates)
        facts._promoted_ranges = promoted_ranges(facts)
    intervals.GETTERS.clear()
    intervals.GETTERS.update(facts._getters)
    intervals.PROMOTED_RANGES.clear()
    intervals.PROMOTED_RANGES.update(facts._promoted_ranges)


def register(facts, crates=None):
    register_getters(facts, crates)
    if getattr(facts, "_ret_facts", None) is None:
        intervals.RET_FACTS.clear()
        facts._ret_facts = ret_facts(facts, crates)
    intervals.RET_FACTS.clear()
    intervals.RET_FACTS.update(facts._ret_facts)
    if getattr(facts, "_retsum", None) is None:
        facts._retsum = compute(facts, crates)
        facts._retsum.update(closed_trait_summaries(facts, facts._retsum))
    intervals.RET_RANGES.clear()
    intervals.RET_RANGES.update(facts._retsum)
    return facts._retsum
