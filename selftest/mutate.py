#!/usr/bin/env python3
"""Self-test: apply each mutant patch to a scratch worktree of /repo, run the named check against it
(FV_REPO), and require a VIOLATION (mutants/) or silence (benign/).  /repo itself is never touched.

  selftest/mutate.py [--only SUBSTR] [--keep]
Patch header lines:   # property: C13     # expect: C13-a   (rule id that must appear)
"""
import os, re, subprocess, sys, shutil, tempfile, json, time

VERIF = os.path.dirname(os.path.dirname(os.path.abspath(__file__)))
SCRATCH = os.environ.get("FV_SCRATCH", "/tmp/fvscratch")


def sh(cmd, **kw):
    return subprocess.run(cmd, shell=True, text=True, stdout=subprocess.PIPE, stderr=subprocess.STDOUT, **kw)


def ensure_scratch():
    if not os.path.isdir(os.path.join(SCRATCH, ".git")) and not os.path.isfile(os.path.join(SCRATCH, ".git")):
        sh(f"git -C /repo worktree prune")
        r = sh(f"git -C /repo worktree add --detach {SCRATCH} HEAD")
        if r.returncode:
            print(r.stdout); sys.exit(2)
    else:
        sh(f"git -C {SCRATCH} checkout -q --detach $(git -C /repo rev-parse HEAD) && git -C {SCRATCH} checkout -q -- . && git -C {SCRATCH} clean -fdq")
    # carry over uncommitted changes of /repo (normally none)
    d = sh("git -C /repo diff HEAD").stdout
    if d.strip():
        p = subprocess.run(f"git -C {SCRATCH} apply", shell=True, input=d, text=True)


def main():
    only = None
    args = sys.argv[1:]
    if "--only" in args:
        only = args[args.index("--only") + 1]
    # --kind mutants|benign|seeded restricts to one directory; --shard i/n takes every n-th patch of it (a full run is longer
    # than one `vp run` allows, so the final run is split into parallel shards)
    kinds = [args[args.index("--kind") + 1]] if "--kind" in args else ["mutants", "benign", "seeded"]
    shard = tuple(int(x) for x in args[args.index("--shard") + 1].split("/")) if "--shard" in args else (0, 1)
    ensure_scratch()
    results = []
    evd = tempfile.mkdtemp(prefix="fv-ev-")
    for kind in ("mutants", "benign"):
        d = os.path.join(VERIF, "selftest", kind)
        if not os.path.isdir(d) or kind not in kinds:
            continue
        for ix, f in enumerate(sorted(x for x in os.listdir(d) if x.endswith(".patch"))):
            if ix % shard[1] != shard[0]:
                continue
            if only and only not in f:
                continue
            path = os.path.join(d, f)
            txt = open(path).read()
            props = re.findall(r"^# property: (\S+)", txt, re.M)
            expect = re.findall(r"^# expect: (\S+)", txt, re.M)
            sh(f"git -C {SCRATCH} checkout -q -- . && git -C {SCRATCH} clean -fdq")
            r = sh(f"git -C {SCRATCH} apply --whitespace=nowarn {path}")
            if r.returncode:
                results.append((kind, f, "PATCH-FAILED", r.stdout.strip()[:200]))
                continue
            for pid in props:
                t0 = time.time()
                env = dict(os.environ, FV_REPO=SCRATCH, FV_EVIDENCE_DIR=evd)
                r = subprocess.run([os.path.join(VERIF, "fv"), "check", pid], env=env, text=True,
                                   stdout=subprocess.PIPE, stderr=subprocess.STDOUT)
                out = r.stdout
                viol = [l for l in out.splitlines() if l.startswith("VIOLATION")]
                rules = re.findall(r"^\s+rule=(\S+)", out, re.M)
                if "fact extraction failed" in out:
                    status = "DOES-NOT-COMPILE"
                elif kind == "mutants":
                    ok = r.returncode == 1 and viol and (not expect or any(e in rules for e in expect))
                    status = "caught" if ok else "MISSED"
                else:
                    status = "silent" if r.returncode == 0 and not viol else "FALSE-ALARM"
                results.append((kind, f, pid, status, sorted(set(rules)), round(time.time() - t0, 1)))
                print(results[-1], flush=True)
                if status in ("MISSED", "FALSE-ALARM", "DOES-NOT-COMPILE"):
                    print(out[-1500:])
    # seeded changes from independent sub-agents: /verif/seeded/<id>/patch.diff
    sd = os.path.join(VERIF, "seeded")
    for ix, f in enumerate(sorted(x for x in os.listdir(sd) if os.path.exists(os.path.join(sd, x, "patch.diff"))) if os.path.isdir(sd) and "seeded" in kinds else []):
        path = os.path.join(sd, f, "patch.diff")
        if ix % shard[1] != shard[0]:
            continue
        if not os.path.exists(path) or (only and only not in f and only != "seeded"):
            continue
        meta = json.load(open(os.path.join(sd, f, "meta.json")))
        pids = meta.get("check_with", [meta["property"]])
        sh(f"git -C {SCRATCH} checkout -q -- . && git -C {SCRATCH} clean -fdq")
        r = sh(f"git -C {SCRATCH} apply --whitespace=nowarn {path}")
        if r.returncode:
            results.append(("seeded", f, "PATCH-FAILED", r.stdout.strip()[:200]))
            continue
        for pid in pids:
            if not os.path.exists(os.path.join(VERIF, "fvlib", "rules", pid.lower() + ".py")):
                results.append(("seeded", f, pid, "NO-CHECK", [], 0)); print(results[-1], flush=True); continue
            t0 = time.time()
            env = dict(os.environ, FV_REPO=SCRATCH, FV_EVIDENCE_DIR=evd)
            r = subprocess.run([os.path.join(VERIF, "fv"), "check", pid], env=env, text=True,
                               stdout=subprocess.PIPE, stderr=subprocess.STDOUT)
            rules = re.findall(r"^\s+rule=(\S+)", r.stdout, re.M)
            status = "caught" if r.returncode == 1 and "VIOLATION" in r.stdout else ("seed-missed" if r.returncode == 0 else "ERROR")
            results.append(("seeded", f, pid, status, sorted(set(rules)), round(time.time() - t0, 1)))
            print(results[-1], flush=True)
    sh(f"git -C {SCRATCH} checkout -q -- . && git -C {SCRATCH} clean -fdq")
    shutil.rmtree(evd, ignore_errors=True)
    bad = [r for r in results if r[3] in ("MISSED", "FALSE-ALARM", "DOES-NOT-COMPILE") or r[2] == "PATCH-FAILED"]
    # merge with earlier results (a partial --only run must not forget the others)
    rp = os.path.join(VERIF, "selftest", "last_results.json")
    merged = {}
    if os.path.exists(rp):
        for r in json.load(open(rp)):
            merged[(r[0], r[1], r[2])] = r
    for r in results:
        merged[(r[0], r[1], r[2])] = list(r)
    json.dump([merged[k] for k in sorted(merged)], open(rp, "w"), indent=1)
    print(f"{len(results)} runs, {len(bad)} bad")
    if "--keep" not in args:
        pass
    return 1 if bad else 0


if __name__ == "__main__":
    sys.exit(main())
