#!/usr/bin/env python3
"""mkmut.py NAME KIND(mutants|benign) PROPS(comma) EXPECT(comma or -) FILE OLD NEW [FILE OLD NEW ...]
Creates selftest/KIND/NAME.patch from exact string replacements in the scratch worktree."""
import os, subprocess, sys
VERIF = os.path.dirname(os.path.dirname(os.path.abspath(__file__)))
SCRATCH = os.environ.get("FV_SCRATCH", "/tmp/fvscratch")
name, kind, props, expect = sys.argv[1:5]
rest = sys.argv[5:]
subprocess.run(f"git -C {SCRATCH} checkout -q -- . && git -C {SCRATCH} clean -fdq", shell=True, check=True)
for i in range(0, len(rest), 3):
    f, old, new = rest[i:i+3]
    p = os.path.join(SCRATCH, f)
    t = open(p).read()
    if t.count(old) != 1:
        print(f"ERROR: {old!r} occurs {t.count(old)} times in {f}"); sys.exit(1)
    open(p, "w").write(t.replace(old, new))
d = subprocess.run(f"git -C {SCRATCH} diff", shell=True, text=True, stdout=subprocess.PIPE).stdout
hdr = "".join(f"# property: {p}\n" for p in props.split(","))
if expect != "-":
    hdr += "".join(f"# expect: {e}\n" for e in expect.split(","))
os.makedirs(os.path.join(VERIF, "selftest", kind), exist_ok=True)
open(os.path.join(VERIF, "selftest", kind, name + ".patch"), "w").write(hdr + d)
subprocess.run(f"git -C {SCRATCH} checkout -q -- .", shell=True, check=True)
print("wrote", name, len(d.splitlines()), "lines")
