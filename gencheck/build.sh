#!/bin/bash
set -e
cd "$(dirname "$0")"
CARGO_NET_OFFLINE=true cargo build --offline 2>&1 | tail -3
