// gencheck: parse generated reader/writer files with syn and dump their structure as JSON:
// structs (fields, repr attrs), impl blocks, functions as lists of top-level statements rendered as
// normalised token strings, plus per-function counts of `.unwrap()` / `.expect()` method calls.
// The agreement logic lives in fvlib/gen.py; this tool only guarantees correct statement boundaries.
use quote::ToTokens;
use std::fmt::Write as _;
use syn::visit::Visit;

fn esc(s: &str) -> String {
    let mut o = String::with_capacity(s.len() + 2);
    o.push('"');
    for c in s.chars() {
        match c {
            '"' => o.push_str("\\\""),
            '\\' => o.push_str("\\\\"),
            '\n' => o.push_str("\\n"),
            '\t' => o.push_str("\\t"),
            '\r' => o.push_str("\\r"),
            c if (c as u32) < 0x20 => {
                let _ = write!(o, "\\u{:04x}", c as u32);
            }
            c => o.push(c),
        }
    }
    o.push('"');
    o
}

fn toks<T: ToTokens>(t: &T) -> String {
    t.to_token_stream().to_string()
}

struct Counter {
    unwraps: usize,
    expects: usize,
    panics: usize,
}

impl<'ast> Visit<'ast> for Counter {
    fn visit_expr_method_call(&mut self, m: &'ast syn::ExprMethodCall) {
        let n = m.method.to_string();
        if n == "unwrap" {
            self.unwraps += 1;
        } else if n == "expect" {
            self.expects += 1;
        }
        syn::visit::visit_expr_method_call(self, m);
    }
    fn visit_macro(&mut self, m: &'ast syn::Macro) {
        let n = toks(&m.path);
        if n == "panic" || n == "unreachable" || n == "assert" || n == "unimplemented" || n == "todo" {
            self.panics += 1;
        }
        syn::visit::visit_macro(self, m);
    }
}

fn fn_json(sig: &syn::Signature, block: &syn::Block, line: usize) -> String {
    let mut stmts: Vec<String> = Vec::new();
    for st in &block.stmts {
        stmts.push(esc(&toks(st)));
    }
    let ret = match &sig.output {
        syn::ReturnType::Default => "()".to_string(),
        syn::ReturnType::Type(_, t) => toks(&**t),
    };
    let args: Vec<String> = sig.inputs.iter().map(|a| esc(&toks(a))).collect();
    let mut c = Counter { unwraps: 0, expects: 0, panics: 0 };
    c.visit_block(block);
    format!(
        "{{\"name\":{},\"ret\":{},\"args\":[{}],\"stmts\":[{}],\"unwraps\":{},\"expects\":{},\"panics\":{},\"line\":{}}}",
        esc(&sig.ident.to_string()),
        esc(&ret),
        args.join(","),
        stmts.join(","),
        c.unwraps,
        c.expects,
        c.panics,
        line
    )
}

fn attrs_json(attrs: &[syn::Attribute]) -> String {
    let v: Vec<String> = attrs.iter().filter(|a| !a.path().is_ident("doc")).map(|a| esc(&toks(a))).collect();
    format!("[{}]", v.join(","))
}

fn items_json(items: &[syn::Item], out: &mut Vec<String>, modpath: &str) {
    for it in items {
        match it {
            syn::Item::Struct(s) => {
                let mut fields: Vec<String> = Vec::new();
                for f in s.fields.iter() {
                    let n = f.ident.as_ref().map(|i| i.to_string()).unwrap_or_default();
                    fields.push(format!("{{\"name\":{},\"ty\":{},\"attrs\":{}}}", esc(&n), esc(&toks(&f.ty)), attrs_json(&f.attrs)));
                }
                out.push(format!(
                    "{{\"k\":\"struct\",\"mod\":{},\"name\":{},\"generics\":{},\"attrs\":{},\"fields\":[{}],\"line\":{}}}",
                    esc(modpath),
                    esc(&s.ident.to_string()),
                    esc(&toks(&s.generics)),
                    attrs_json(&s.attrs),
                    fields.join(","),
                    s.ident.span().start().line
                ));
            }
            syn::Item::Enum(e) => {
                let vars: Vec<String> = e
                    .variants
                    .iter()
                    .map(|v| format!("{{\"name\":{},\"fields\":{}}}", esc(&v.ident.to_string()), esc(&toks(&v.fields))))
                    .collect();
                out.push(format!(
                    "{{\"k\":\"enum\",\"mod\":{},\"name\":{},\"attrs\":{},\"variants\":[{}],\"line\":{}}}",
                    esc(modpath),
                    esc(&e.ident.to_string()),
                    attrs_json(&e.attrs),
                    vars.join(","),
                    e.ident.span().start().line
                ));
            }
            syn::Item::Type(t) => {
                out.push(format!(
                    "{{\"k\":\"type\",\"mod\":{},\"name\":{},\"ty\":{}}}",
                    esc(modpath),
                    esc(&t.ident.to_string()),
                    esc(&toks(&*t.ty))
                ));
            }
            syn::Item::Impl(im) => {
                let tr = im.trait_.as_ref().map(|(_, p, _)| toks(p));
                let mut fns: Vec<String> = Vec::new();
                let mut consts: Vec<String> = Vec::new();
                for ii in &im.items {
                    match ii {
                        syn::ImplItem::Fn(f) => fns.push(fn_json(&f.sig, &f.block, f.sig.ident.span().start().line)),
                        syn::ImplItem::Const(c) => consts.push(format!("{{\"name\":{},\"expr\":{}}}", esc(&c.ident.to_string()), esc(&toks(&c.expr)))),
                        _ => {}
                    }
                }
                out.push(format!(
                    "{{\"k\":\"impl\",\"mod\":{},\"self_ty\":{},\"trait\":{},\"generics\":{},\"attrs\":{},\"fns\":[{}],\"consts\":[{}]}}",
                    esc(modpath),
                    esc(&toks(&*im.self_ty)),
                    tr.as_ref().map(|t| esc(t)).unwrap_or("null".into()),
                    esc(&toks(&im.generics)),
                    attrs_json(&im.attrs),
                    fns.join(","),
                    consts.join(",")
                ));
            }
            syn::Item::Fn(f) => {
                out.push(format!("{{\"k\":\"fn\",\"mod\":{},\"fn\":{}}}", esc(modpath), fn_json(&f.sig, &f.block, f.sig.ident.span().start().line)));
            }
            syn::Item::Mod(m) => {
                if let Some((_, items)) = &m.content {
                    let cfg_test = m.attrs.iter().any(|a| toks(a).contains("cfg (test)") || toks(a).contains("cfg(test)"));
                    if !cfg_test {
                        let p = format!("{}::{}", modpath, m.ident);
                        items_json(items, out, &p);
                    }
                }
            }
            _ => {}
        }
    }
}

fn main() {
    let args: Vec<String> = std::env::args().collect();
    if args.len() < 3 {
        eprintln!("usage: gencheck OUT.jsonl FILE.rs...");
        std::process::exit(2);
    }
    let mut out = String::new();
    for path in &args[2..] {
        let src = match std::fs::read_to_string(path) {
            Ok(s) => s,
            Err(e) => {
                eprintln!("gencheck: cannot read {}: {}", path, e);
                std::process::exit(2);
            }
        };
        let file = match syn::parse_file(&src) {
            Ok(f) => f,
            Err(e) => {
                eprintln!("gencheck: cannot parse {}: {}", path, e);
                std::process::exit(2);
            }
        };
        let mut items: Vec<String> = Vec::new();
        items_json(&file.items, &mut items, "");
        let _ = writeln!(out, "{{\"file\":{},\"items\":[{}]}}", esc(path), items.join(","));
    }
    std::fs::write(&args[1], out).expect("write output");
}
