// F48: Ebdt::data / Cbdt::data with a caller-built BitmapLocation (all fields are public)
use read_fonts::{tables::bitmap::BitmapLocation, FontRef, TableProvider};
fn main() {
    let font = FontRef::new(font_test_data::EMBEDDED_BITMAPS).unwrap();
    let ebdt = font.ebdt().unwrap();
    let loc = BitmapLocation { format: 1, data_offset: usize::MAX, data_size: 2, bit_depth: 1, metrics: None };
    println!("Ebdt::data(offset usize::MAX, size 2) = {:?}", ebdt.data(&loc).map(|_| ()));
}
