// F47: a gvar with axisCount 0: the shared tuples are zero bytes long each; ComputedArray::get(idx) succeeds for every idx
use read_fonts::{tables::gvar::Gvar, traversal::SomeTable, FontData, FontRead};
fn main() {
    let bytes: [u8; 22] = [0, 1, 0, 0, 0, 0, 0, 0, 0, 0, 0, 0x14, 0, 0, 0, 0, 0, 0, 0, 0x14, 0, 0];
    let gvar = Gvar::read(FontData::new(&bytes)).unwrap();
    let shared = gvar.shared_tuples().unwrap();
    let tuples = shared.tuples();
    println!("typed API: len() = {}, iter().count() = {}, get(0) ok = {}, get(1_000_000) ok = {}",
        tuples.len(), tuples.iter().count(), tuples.get(0).is_ok(), tuples.get(1_000_000).is_ok());
    // the generic traversal (and the Debug impl built on it) loops `while let Some(item) = array.get(idx)`
    let field = shared.get_field(0).unwrap();
    if let read_fonts::traversal::FieldType::Array(array) = field.value {
        let mut n = 0usize;
        while array.get(n).is_some() && n < 1_000_000 { n += 1; }
        println!("traversal: array.len() = {}, get(n) was Some for n < {n}{}", array.len(), if n == 1_000_000 { " (gave up: Debug-printing this table never ends)" } else { "" });
    }
}
