// F30: the auto-hinter's "long" blue-zone search never ends for a spike-shaped Hebrew glyph
use skrifa::{
    instance::{LocationRef, Size},
    outline::{pen::NullPen, DrawSettings, Engine, HintingInstance, HintingOptions},
    raw::{types::Tag, FontRef, TableProvider},
    GlyphId, MetadataProvider,
};
use write_fonts::FontBuilder;

fn main() {
    let base = FontRef::new(font_test_data::NOTOSERIFHEBREW_AUTOHINT_METRICS).unwrap();
    let n = base.maxp().unwrap().num_glyphs() as usize;
    let upem = base.head().unwrap().units_per_em() as i16;
    // every glyph becomes the same triangle: (0,0) (upem/2, upem) (upem, 0), all on-curve
    let pts: [(i16, i16); 6] = [(0, -20000), (0, 0), (0, 20000), (200, 20000), (200, 0), (200, -20000)]; let _ = upem;
    let mut g: Vec<u8> = vec![];
    g.extend(1i16.to_be_bytes());
    g.extend(0i16.to_be_bytes()); g.extend((-20000i16).to_be_bytes());
    g.extend(200i16.to_be_bytes()); g.extend(20000i16.to_be_bytes());
    g.extend(5u16.to_be_bytes());
    g.extend(0u16.to_be_bytes()); // instructionLength
    g.extend([0x01u8; 6]); // flags: on-curve, long x/y deltas
    let mut px = 0i16; for (x, _) in pts { g.extend((x - px).to_be_bytes()); px = x; }
    let mut py = 0i16; for (_, y) in pts { g.extend((y - py).to_be_bytes()); py = y; }
    while g.len() % 4 != 0 { g.push(0); }
    let mut glyf: Vec<u8> = vec![];
    let mut loca: Vec<u8> = vec![];
    for _ in 0..n { loca.extend((glyf.len() as u32).to_be_bytes()); glyf.extend(&g); }
    loca.extend((glyf.len() as u32).to_be_bytes());
    let mut head = base.table_data(Tag::new(b"head")).unwrap().as_bytes().to_vec();
    head[50] = 0; head[51] = 1;
    let mut fb = FontBuilder::new();
    fb.add_raw(Tag::new(b"head"), head);
    fb.add_raw(Tag::new(b"glyf"), glyf);
    fb.add_raw(Tag::new(b"loca"), loca);
    fb.copy_missing_tables(base);
    let bytes = fb.build();
    let font = FontRef::new(&bytes).unwrap();
    let outlines = font.outline_glyphs();
    let gid = font.charmap().map('\u{05D1}').unwrap_or(GlyphId::new(1));
    println!("drawing glyph {gid:?} of {n} with the auto-hinter ...");
    let opts = HintingOptions { engine: Engine::Auto(None), ..Default::default() };
    let inst = HintingInstance::new(&outlines, Size::new(16.0), LocationRef::default(), opts).unwrap();
    let r = outlines.get(gid).unwrap().draw(DrawSettings::hinted(&inst, false), &mut NullPen);
    println!("draw: {:?}", r.map(|_| ()).map_err(|e| e.to_string()));
}
