use font_types::GlyphId;
use write_fonts::tables::cmap::Cmap;
fn main() {
    let which = std::env::args().nth(1).unwrap();
    let mappings: Vec<(char, GlyphId)> = match which.as_str() {
        // F3: glyph id minus code point > 32767
        "delta" => vec![('a', GlyphId::new(40000))],
        "ok" => vec![('a', GlyphId::new(3)), ('b', GlyphId::new(9))],
        // F9: two long runs of consecutive code points with non-consecutive glyph ids
        "big" => {
            let mut v = vec![];
            for i in 0..17000u32 { v.push((char::from_u32(0x100 + i).unwrap(), GlyphId::new(1 + (i * 7919u32) % 60000))); }
            for i in 0..17000u32 { v.push((char::from_u32(0x5000 + i).unwrap(), GlyphId::new(1 + (i % 2) * 30000 + i / 2))); }
            for i in 0..12000u32 { v.push((char::from_u32(0xA000 + i).unwrap(), GlyphId::new(1 + (i % 2) * 20000 + i / 2 + 100))); }
            v
        }
        _ => vec![],
    };
    let cmap = Cmap::from_mappings(mappings).map(|c| write_fonts::dump_table(&c).map(|b| b.len()));
    println!("{:?}", cmap.map_err(|e| format!("{e:?}")));
}
