// F26-F29: TrueType interpreter operations that use unchecked + - * neg on values a font program controls.
use skrifa::{
    instance::{LocationRef, Size},
    outline::{Engine, HintingInstance, HintingOptions},
    raw::{types::Tag, FontRef, TableProvider},
    MetadataProvider,
};
use write_fonts::FontBuilder;

fn push_min(p: &mut Vec<u8>) {
    // PUSHB 1, then 31 x (DUP ADD): wrapping doubling up to i32::MIN
    p.extend_from_slice(&[0xB0, 1]);
    for _ in 0..31 { p.extend_from_slice(&[0x20, 0x60]); }
}
fn push_max(p: &mut Vec<u8>) {
    // 2^30, DUP, PUSHB 1, SUB, ADD -> i32::MAX
    p.extend_from_slice(&[0xB0, 1]);
    for _ in 0..30 { p.extend_from_slice(&[0x20, 0x60]); }
    p.extend_from_slice(&[0x20, 0xB0, 1, 0x61, 0x60]);
}

fn main() {
    let which = std::env::args().nth(1).unwrap();
    let base = FontRef::new(font_test_data::TINOS_SUBSET).unwrap();
    println!("max_twilight_points = {:?}", base.maxp().unwrap().max_twilight_points());
    let mut prep: Vec<u8> = vec![];
    let mut size = 16.0f32;
    match which.as_str() {
        "mps" => { prep.push(0x4C); size = 1.0e9; }
        "mirp" => { prep.extend_from_slice(&[0xB0, 0]); push_max(&mut prep); prep.push(0xE0); }
        "isect" => {
            prep.extend_from_slice(&[0xB0, 0, 0x16]); // all zone pointers -> twilight
            prep.extend_from_slice(&[0xB0, 1]); push_min(&mut prep); prep.push(0x48); // SCFS: twilight[1].x = i32::MIN
            prep.extend_from_slice(&[0xB4, 2, 1, 0, 1, 0, 0x0F]); // ISECT point 2, a0=1 a1=0 b0=1 b1=0
        }
        "spvtl" => {
            prep.extend_from_slice(&[0xB0, 0, 0x16, 0x00]); // twilight; SVTCA[y]
            prep.extend_from_slice(&[0xB0, 1]); push_min(&mut prep); prep.push(0x48); // twilight[1].y = i32::MIN
            prep.extend_from_slice(&[0xB1, 1, 0, 0x07]); // SPVTL[perpendicular] p1=1 p2=0
        }
        _ => panic!("which?"),
    }
    let mut fb = FontBuilder::new();
    fb.add_raw(Tag::new(b"prep"), prep);
    fb.copy_missing_tables(base);
    let bytes = fb.build();
    let font = FontRef::new(&bytes).unwrap();
    let outlines = font.outline_glyphs();
    let opts = HintingOptions { engine: Engine::Interpreter, ..Default::default() };
    let r = HintingInstance::new(&outlines, Size::new(size), LocationRef::default(), opts);
    println!("instance: {:?}", r.map(|_| ()).map_err(|e| e.to_string()));
}
