use font_types::F2Dot14;
use read_fonts::{tables::avar::Avar as RAvar, FontData, FontRead, FontRef, TableProvider};
use write_fonts::tables::avar::{Avar, AxisValueMap, SegmentMaps};
use write_fonts::tables::variations::{DeltaSetIndexMap, ItemVariationStore, VariationRegionList};

fn main() {
    // F2: avar version 2 written with 2 segment maps reads back with more
    let maps = |n: usize| SegmentMaps::new((0..n).map(|i| AxisValueMap::new(F2Dot14::from_f32(i as f32 / 4.0 - 1.0), F2Dot14::from_f32(i as f32 / 4.0 - 1.0))).collect());
    let mut avar = Avar::new(vec![maps(3), maps(3)]);
    avar.axis_index_map = DeltaSetIndexMap::from_iter([0u32, 1]).into();
    avar.var_store = ItemVariationStore::new(VariationRegionList::new(2, vec![]), vec![]).into();
    let bytes = write_fonts::dump_table(&avar).unwrap();
    let r = RAvar::read(FontData::new(&bytes)).unwrap();
    println!("F2: version {:?} axis_count {} segment maps iterated {}", r.version(), r.axis_count(), r.axis_segment_maps().iter().count());

    // F4: same bytes at two addresses give different PaintIds
    let a: Vec<u8> = font_test_data::COLRV0V1.to_vec();
    let mut b: Vec<u8> = vec![0u8; 4096];
    b.extend_from_slice(&a);
    let fa = FontRef::new(&a).unwrap();
    let fb = FontRef::new(&b[4096..]).unwrap();
    let ia = fa.colr().unwrap().v1_layer(0).unwrap().1;
    let ib = fb.colr().unwrap().v1_layer(0).unwrap().1;
    println!("F4: v1_layer(0) id for copy A = {ia:#x}, for copy B = {ib:#x}, equal = {}", ia == ib);
}
