// F31: a chain of n nested PaintGlyph nodes is traversed 2^n times
mod common;
use common::*;
use skrifa::{prelude::*, raw::FontRef, MetadataProvider};
use std::time::Instant;

fn main() {
    for n in [8usize, 12, 16, 18, 20, 22] {
        let mut paint = paint_solid(0);
        for _ in 0..n {
            paint = paint_glyph(2, &paint);
        }
        let mut b = ColrBuilder::default();
        b.base_glyphs.push((1, paint));
        let bytes = b.build_font();
        let font = FontRef::new(&bytes).unwrap();
        let glyph = font.color_glyphs().get(GlyphId::new(1)).unwrap();
        let mut rec = Recorder::new(false);
        let t0 = Instant::now();
        let r = glyph.paint(LocationRef::default(), &mut rec);
        let dt = t0.elapsed();
        println!("depth {n:2}: COLR table {:4} bytes, paint -> {:?}, {} callbacks, {:?}", b.build().len(), r.is_ok(), rec.ops.len(), dt);
    }
}
