// Shared helpers for the C13 demonstrations: a tiny COLRv1 table builder, a
// minimal sfnt wrapper and a ColorPainter that records the callback stream
// and checks that it is well nested.
#![allow(dead_code)]

use skrifa::{
    color::{Brush, ColorPainter, CompositeMode, PaintCachedColorGlyph, PaintError, Transform},
    raw::types::BoundingBox,
    GlyphId,
};

// ---------------------------------------------------------------------------
// byte helpers
// ---------------------------------------------------------------------------

pub fn u16be(v: &mut Vec<u8>, x: u16) {
    v.extend_from_slice(&x.to_be_bytes());
}
pub fn i16be(v: &mut Vec<u8>, x: i16) {
    v.extend_from_slice(&x.to_be_bytes());
}
pub fn u24be(v: &mut Vec<u8>, x: u32) {
    assert!(x < (1 << 24));
    v.extend_from_slice(&x.to_be_bytes()[1..]);
}
pub fn u32be(v: &mut Vec<u8>, x: u32) {
    v.extend_from_slice(&x.to_be_bytes());
}

// ---------------------------------------------------------------------------
// paints (serialised as a self contained blob: children follow the parent)
// ---------------------------------------------------------------------------

pub fn paint_colr_layers(first: u32, num: u8) -> Vec<u8> {
    let mut v = vec![1u8, num];
    u32be(&mut v, first);
    v
}

pub fn paint_solid(palette_index: u16) -> Vec<u8> {
    let mut v = vec![2u8];
    u16be(&mut v, palette_index);
    u16be(&mut v, 0x4000); // alpha 1.0
    v
}

pub fn paint_glyph(gid: u16, child: &[u8]) -> Vec<u8> {
    let mut v = vec![10u8];
    u24be(&mut v, 6); // child directly follows
    u16be(&mut v, gid);
    v.extend_from_slice(child);
    v
}

pub fn paint_colr_glyph(gid: u16) -> Vec<u8> {
    let mut v = vec![11u8];
    u16be(&mut v, gid);
    v
}

pub fn paint_translate(dx: i16, dy: i16, child: &[u8]) -> Vec<u8> {
    let mut v = vec![14u8];
    u24be(&mut v, 8); // child directly follows
    i16be(&mut v, dx);
    i16be(&mut v, dy);
    v.extend_from_slice(child);
    v
}

pub fn paint_composite(source: &[u8], mode: u8, backdrop: &[u8]) -> Vec<u8> {
    let mut v = vec![32u8];
    u24be(&mut v, 8);
    v.push(mode);
    u24be(&mut v, 8 + source.len() as u32);
    v.extend_from_slice(source);
    v.extend_from_slice(backdrop);
    v
}

// ---------------------------------------------------------------------------
// COLR v1 table
// ---------------------------------------------------------------------------

#[derive(Default)]
pub struct ColrBuilder {
    /// (glyph id, paint blob), must be added in increasing glyph id order
    pub base_glyphs: Vec<(u16, Vec<u8>)>,
    /// paint blobs of the LayerList
    pub layers: Vec<Vec<u8>>,
    /// (start gid, end gid, [x_min, y_min, x_max, y_max]) static clip boxes
    pub clips: Vec<(u16, u16, [i16; 4])>,
}

impl ColrBuilder {
    pub fn build(&self) -> Vec<u8> {
        // BaseGlyphList
        let mut bgl = Vec::new();
        u32be(&mut bgl, self.base_glyphs.len() as u32);
        let mut paint_pos = 4 + 6 * self.base_glyphs.len();
        let mut blobs = Vec::new();
        for (gid, blob) in &self.base_glyphs {
            u16be(&mut bgl, *gid);
            u32be(&mut bgl, paint_pos as u32);
            paint_pos += blob.len();
            blobs.extend_from_slice(blob);
        }
        bgl.extend_from_slice(&blobs);

        // LayerList
        let mut ll = Vec::new();
        u32be(&mut ll, self.layers.len() as u32);
        let mut paint_pos = 4 + 4 * self.layers.len();
        let mut blobs = Vec::new();
        for blob in &self.layers {
            u32be(&mut ll, paint_pos as u32);
            paint_pos += blob.len();
            blobs.extend_from_slice(blob);
        }
        ll.extend_from_slice(&blobs);

        // ClipList
        let mut cl = Vec::new();
        cl.push(1u8);
        u32be(&mut cl, self.clips.len() as u32);
        let mut box_pos = 5 + 7 * self.clips.len();
        let mut boxes = Vec::new();
        for (start, end, bbox) in &self.clips {
            u16be(&mut cl, *start);
            u16be(&mut cl, *end);
            u24be(&mut cl, box_pos as u32);
            box_pos += 9;
            boxes.push(1u8); // ClipBoxFormat1
            for c in bbox {
                i16be(&mut boxes, *c);
            }
        }
        cl.extend_from_slice(&boxes);

        const HEADER_LEN: usize = 34;
        let bgl_off = HEADER_LEN;
        let ll_off = bgl_off + bgl.len();
        let cl_off = ll_off + ll.len();

        let mut t = Vec::new();
        u16be(&mut t, 1); // version
        u16be(&mut t, 0); // numBaseGlyphRecords
        u32be(&mut t, 0); // baseGlyphRecordsOffset
        u32be(&mut t, 0); // layerRecordsOffset
        u16be(&mut t, 0); // numLayerRecords
        u32be(&mut t, bgl_off as u32);
        u32be(&mut t, if self.layers.is_empty() { 0 } else { ll_off as u32 });
        u32be(&mut t, if self.clips.is_empty() { 0 } else { cl_off as u32 });
        u32be(&mut t, 0); // varIndexMapOffset
        u32be(&mut t, 0); // itemVariationStoreOffset
        assert_eq!(t.len(), HEADER_LEN);
        t.extend_from_slice(&bgl);
        t.extend_from_slice(&ll);
        t.extend_from_slice(&cl);
        t
    }

    /// Wraps the COLR table into a minimal single-table sfnt.
    pub fn build_font(&self) -> Vec<u8> {
        let colr = self.build();
        let mut f = Vec::new();
        u32be(&mut f, 0x0001_0000);
        u16be(&mut f, 1); // numTables
        u16be(&mut f, 16); // searchRange
        u16be(&mut f, 0); // entrySelector
        u16be(&mut f, 0); // rangeShift
        f.extend_from_slice(b"COLR");
        u32be(&mut f, 0); // checksum (not verified)
        u32be(&mut f, 28); // offset
        u32be(&mut f, colr.len() as u32);
        assert_eq!(f.len(), 28);
        f.extend_from_slice(&colr);
        f
    }
}

// ---------------------------------------------------------------------------
// recording painter
// ---------------------------------------------------------------------------

#[derive(Debug, Clone, PartialEq)]
pub enum Op {
    PushTransform,
    PopTransform,
    PushClipGlyph(u32),
    PushClipBox,
    PopClip,
    Fill,
    FillGlyph(u32),
    PushLayer,
    PopLayer,
    Cached(u32),
}

/// Records every callback. `fill_glyph` is deliberately NOT overridden unless
/// `override_fill_glyph` is set, so the provided implementation of the trait
/// is exercised as well.
pub struct Recorder {
    pub ops: Vec<Op>,
    /// what paint_cached_color_glyph answers
    pub cache_hit: bool,
}

impl Recorder {
    pub fn new(cache_hit: bool) -> Self {
        Self {
            ops: Vec::new(),
            cache_hit,
        }
    }

    /// Checks that every push is popped exactly once in LIFO order and that
    /// nothing is popped that was not pushed.
    pub fn check_well_nested(&self) -> Result<(), String> {
        #[derive(Debug, PartialEq)]
        enum Kind {
            Transform,
            Clip,
            Layer,
        }
        let mut stack: Vec<Kind> = Vec::new();
        for (i, op) in self.ops.iter().enumerate() {
            let (push, kind) = match op {
                Op::PushTransform => (true, Kind::Transform),
                Op::PushClipGlyph(_) | Op::PushClipBox => (true, Kind::Clip),
                Op::PushLayer => (true, Kind::Layer),
                Op::PopTransform => (false, Kind::Transform),
                Op::PopClip => (false, Kind::Clip),
                Op::PopLayer => (false, Kind::Layer),
                _ => continue,
            };
            if push {
                stack.push(kind);
            } else {
                match stack.pop() {
                    None => {
                        return Err(format!(
                            "op #{i} {op:?} pops something that was never pushed; stream: {:?}",
                            self.ops
                        ))
                    }
                    Some(top) if top != kind => {
                        return Err(format!(
                            "op #{i} {op:?} does not match the innermost open {top:?}; stream: {:?}",
                            self.ops
                        ))
                    }
                    _ => {}
                }
            }
        }
        if !stack.is_empty() {
            return Err(format!(
                "left open at the end: {stack:?}; stream: {:?}",
                self.ops
            ));
        }
        Ok(())
    }
}

impl ColorPainter for Recorder {
    fn push_transform(&mut self, _t: Transform) {
        self.ops.push(Op::PushTransform);
    }
    fn pop_transform(&mut self) {
        self.ops.push(Op::PopTransform);
    }
    fn push_clip_glyph(&mut self, glyph_id: GlyphId) {
        self.ops.push(Op::PushClipGlyph(glyph_id.to_u32()));
    }
    fn push_clip_box(&mut self, _b: BoundingBox<f32>) {
        self.ops.push(Op::PushClipBox);
    }
    fn pop_clip(&mut self) {
        self.ops.push(Op::PopClip);
    }
    fn fill(&mut self, _brush: Brush<'_>) {
        self.ops.push(Op::Fill);
    }
    fn push_layer(&mut self, _mode: CompositeMode) {
        self.ops.push(Op::PushLayer);
    }
    fn pop_layer(&mut self) {
        self.ops.push(Op::PopLayer);
    }
    fn paint_cached_color_glyph(
        &mut self,
        glyph: GlyphId,
    ) -> Result<PaintCachedColorGlyph, PaintError> {
        if self.cache_hit {
            self.ops.push(Op::Cached(glyph.to_u32()));
            Ok(PaintCachedColorGlyph::Ok)
        } else {
            Ok(PaintCachedColorGlyph::Unimplemented)
        }
    }
}
