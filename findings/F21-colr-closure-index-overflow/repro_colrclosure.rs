use read_fonts::{collections::IntSet, types::{GlyphId, Tag}, FontRef, TableProvider};
use write_fonts::FontBuilder;

fn closure(bytes: &[u8]) -> Result<usize, String> {
    let r = std::panic::catch_unwind(|| {
        let font = FontRef::new(bytes).unwrap();
        let colr = font.colr().unwrap();
        let mut glyphs: IntSet<GlyphId> = IntSet::all();
        let (mut layers, mut palettes, mut vars) = (IntSet::empty(), IntSet::empty(), IntSet::empty());
        colr.v1_closure(&mut glyphs, &mut layers, &mut palettes, &mut vars);
        layers.len() as usize + vars.len() as usize
    });
    r.map_err(|e| e.downcast_ref::<String>().cloned().or(e.downcast_ref::<&str>().map(|s| s.to_string())).unwrap_or_default())
}

fn main() {
    std::panic::set_hook(Box::new(|_| {}));
    let base = FontRef::new(font_test_data::COLRV0V1_VARIABLE).unwrap();
    println!("unmodified font: {:?}", closure(font_test_data::COLRV0V1_VARIABLE));
    let colr = base.table_data(Tag::new(b"COLR")).unwrap().as_bytes().to_vec();
    let rebuild = |t: Vec<u8>| {
        let mut b = FontBuilder::default();
        b.add_raw(Tag::new(b"COLR"), t);
        b.copy_missing_tables(base.clone());
        b.build()
    };
    // PaintColrLayers = format 1: u8 format, u8 numLayers, u32 firstLayerIndex
    let mut found = 0;
    for o in 0..colr.len().saturating_sub(6) {
        if colr[o] != 1 || colr[o + 1] == 0 {
            continue;
        }
        let mut t = colr.clone();
        t[o + 2..o + 6].copy_from_slice(&0xFFFF_FFFFu32.to_be_bytes());
        if let Err(msg) = closure(&rebuild(t)) {
            println!("COLR byte {o}: PaintColrLayers.firstLayerIndex = 0xFFFFFFFF -> PANIC {msg}");
            found += 1;
            break;
        }
    }
    // PaintVarLinearGradient / PaintVarRadialGradient (formats 5 / 7): varIndexBase at byte 16
    for o in 0..colr.len().saturating_sub(20) {
        if colr[o] != 5 && colr[o] != 7 {
            continue;
        }
        let mut t = colr.clone();
        t[o + 16..o + 20].copy_from_slice(&0xFFFF_FFFEu32.to_be_bytes());
        if let Err(msg) = closure(&rebuild(t)) {
            println!("COLR byte {o}: PaintVar*Gradient.varIndexBase = 0xFFFFFFFE -> PANIC {msg}");
            found += 1;
            break;
        }
    }
    println!("{found} panicking variants found");
}
