use font_types::{GlyphId16, Tag};
use read_fonts::{collections::IntSet, FontData, FontRead};
use write_fonts::tables::gsub::{Gsub, SingleSubst, SubstitutionLookup, SubstitutionLookupList, SubstitutionSequenceContext};
use write_fonts::tables::layout::*;

fn main() {
    let seq_idx: u16 = std::env::args().nth(1).unwrap().parse().unwrap();
    let g = |n: u16| GlyphId16::new(n);
    // lookup 0: contextual format 1: glyph 1 followed by glyph 2 -> apply lookup 1 at sequence index `seq_idx`
    let rule = SequenceRule::new(vec![g(2)], vec![SequenceLookupRecord::new(seq_idx, 1)]);
    let ctx = SequenceContext::format_1(
        [g(1)].into_iter().collect(),
        vec![Some(SequenceRuleSet::new(vec![rule]))],
    );
    let l0 = SubstitutionLookup::Contextual(Lookup::new(LookupFlag::empty(), vec![SubstitutionSequenceContext::from(ctx)]));
    let l1 = SubstitutionLookup::Single(Lookup::new(
        LookupFlag::empty(),
        vec![SingleSubst::format_1([g(2)].into_iter().collect(), 1)],
    ));
    let gsub = Gsub::new(
        ScriptList::new(vec![ScriptRecord::new(Tag::new(b"DFLT"), Script::new(Some(LangSys::new(vec![0])), vec![]))]),
        FeatureList::new(vec![FeatureRecord::new(Tag::new(b"liga"), Feature::new(None, vec![0]))]),
        SubstitutionLookupList::new(vec![l0, l1]),
    );
    let bytes = write_fonts::dump_table(&gsub).expect("compiles");
    println!("GSUB bytes: {}", bytes.len());
    let gsub = read_fonts::tables::gsub::Gsub::read(FontData::new(&bytes)).unwrap();
    let mut set = IntSet::<GlyphId16>::empty();
    set.insert(g(1));
    set.insert(g(2));
    match gsub.closure_glyphs(set) {
        Ok(s) => println!("closure ok: {} glyphs", s.len()),
        Err(e) => println!("closure err: {e}"),
    }
}
