// F39: MarkBasePosFormat1 with mark classes {0, 2}: markClassCount is written as 2 although each base record has 3 anchors
use read_fonts::{tables::gpos::MarkBasePosFormat1 as ReadMb, FontData, FontRead};
use write_fonts::{dump_table, tables::{gpos::{AnchorTable, BaseArray, BaseRecord, MarkArray, MarkBasePosFormat1, MarkRecord}, layout::CoverageTable}, types::GlyphId16};
fn main() {
    let anchor = |x: i16| AnchorTable::format_1(x, x);
    let marks = MarkArray::new(vec![MarkRecord::new(0, anchor(10)), MarkRecord::new(2, anchor(20))]);
    let bases = BaseArray::new(vec![
        BaseRecord::new(vec![Some(anchor(100)), Some(anchor(101)), Some(anchor(102))]),
        BaseRecord::new(vec![Some(anchor(200)), Some(anchor(201)), Some(anchor(202))]),
    ]);
    let t = MarkBasePosFormat1::new(
        CoverageTable::format_1(vec![GlyphId16::new(5), GlyphId16::new(6)]),
        CoverageTable::format_1(vec![GlyphId16::new(1), GlyphId16::new(2)]),
        marks,
        bases,
    );
    let bytes = dump_table(&t).unwrap();
    let back = ReadMb::read(FontData::new(&bytes)).unwrap();
    println!("mark_class_count read back: {}", back.mark_class_count());
    let ba = back.base_array().unwrap();
    for (i, rec) in ba.base_records().iter().enumerate() {
        let rec = rec.unwrap();
        let xs: Vec<_> = rec.base_anchors(ba.offset_data()).iter().map(|a| a.map(|a| a.map(|a| a.x_coordinate()).ok())).collect();
        println!("base record {i}: anchors x = {xs:?}");
    }
}
