use skrifa::outline::{DrawSettings, OutlinePen};
use skrifa::prelude::*;
use skrifa::raw::FontRef;
use skrifa::outline::pen::PathStyle;

#[derive(Default)]
struct Rec(Vec<String>);
impl OutlinePen for Rec {
    fn move_to(&mut self, x: f32, y: f32) { self.0.push(format!("M{x},{y}")); }
    fn line_to(&mut self, x: f32, y: f32) { self.0.push(format!("L{x},{y}")); }
    fn quad_to(&mut self, a: f32, b: f32, x: f32, y: f32) { self.0.push(format!("Q{a},{b} {x},{y}")); }
    fn curve_to(&mut self, a: f32, b: f32, c: f32, d: f32, x: f32, y: f32) { self.0.push(format!("C{a},{b} {c},{d} {x},{y}")); }
    fn close(&mut self) { self.0.push("Z".into()); }
}

fn draw(font: &FontRef, gid: u32, fill: u8) -> Vec<String> {
    let glyphs = font.outline_glyphs();
    let g = glyphs.get(GlyphId::new(gid)).unwrap();
    let size = g.draw_memory_size(skrifa::outline::Hinting::None);
    let mut buf = vec![fill; size];
    let mut pen = Rec::default();
    let settings = DrawSettings::unhinted(Size::unscaled(), LocationRef::default())
        .with_path_style(PathStyle::HarfBuzz)
        .with_memory(Some(&mut buf));
    g.draw(settings, &mut pen).unwrap();
    pen.0
}

fn main() {
    let font = FontRef::new(font_test_data::VAZIRMATN_VAR).unwrap();
    for gid in 0..font.maxp_count() {
        let a = draw(&font, gid, 0x00);
        let b = draw(&font, gid, 0x7f);
        if a != b {
            println!("gid {gid}: zeroed buffer -> {:?}", &a[..2.min(a.len())]);
            println!("gid {gid}: 0x7f buffer   -> {:?}", &b[..2.min(b.len())]);
        }
    }
    println!("done");
}
trait Mx { fn maxp_count(&self) -> u32; }
impl Mx for FontRef<'_> { fn maxp_count(&self) -> u32 { use skrifa::raw::TableProvider; self.maxp().unwrap().num_glyphs() as u32 } }
