use incremental_font_transfer::patchmap::{intersecting_patches, SubsetDefinition};
use read_fonts::{types::Tag, FontRef};
use write_fonts::FontBuilder;

fn try_it(name: &str, f: impl FnOnce() -> String + std::panic::UnwindSafe) {
    match std::panic::catch_unwind(f) {
        Ok(s) => println!("{name}: ok {s}"),
        Err(e) => println!("{name}: PANIC {:?}", e.downcast_ref::<String>().cloned().or(e.downcast_ref::<&str>().map(|s| s.to_string()))),
    }
}

fn build(counts: [u16; 3]) -> Vec<u8> {
    // the format 1 + feature map test table; entry map counts replaced, entry map data extended with zeros
    let buf = font_test_data::ift::feature_map_format1();
    let fm = buf.offset_for("feature_map");
    let mut bytes = buf.as_slice().to_vec();
    // feature map: count u16, then 3 records of (tag 4, first_new u16, count u16)
    for (i, c) in counts.iter().enumerate() {
        let at = fm + 2 + i * 8 + 6;
        bytes[at..at + 2].copy_from_slice(&c.to_be_bytes());
    }
    let total: usize = counts.iter().map(|c| *c as usize).sum();
    bytes.truncate(fm + 2 + 3 * 8);
    bytes.extend(std::iter::repeat(0u8).take(total * 4)); // max entry id 400 >= 256: 2 x u16 per record
    let base = FontRef::new(font_test_data::ift::IFT_BASE).unwrap();
    let mut b = FontBuilder::default();
    b.add_raw(Tag::new(b"IFT "), bytes);
    b.copy_missing_tables(base);
    b.build()
}

fn main() {
    std::panic::set_hook(Box::new(|_| {}));
    for (name, counts) in [("baseline 1/2/1", [1u16, 2, 1]), ("one record of 20000", [20000, 2, 1]), ("two records 40000+40000", [40000, 40000, 1])] {
        try_it(name, move || {
            let bytes = build(counts);
            let font = FontRef::new(&bytes).unwrap();
            match intersecting_patches(&font, &SubsetDefinition::all()) {
                Ok(v) => format!("Ok({} patches)", v.len()),
                Err(e) => format!("Err({e})"),
            }
        });
    }
}
