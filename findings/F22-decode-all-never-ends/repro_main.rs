use read_fonts::tables::glyf::bytecode::decode_all;

fn main() {
    // NPUSHB (0x40) announcing 5 inline bytes, but only 2 follow: the instruction cannot be decoded
    let bytecode = [0x40u8, 5, 1, 2];
    let n = decode_all(&bytecode, 0).take(1_000_000).count();
    println!("items yielded for a 4-byte program (capped at 1000000): {n}");
    let errs = decode_all(&bytecode, 0).take(1_000_000).filter(|r| r.is_err()).count();
    println!("of which errors: {errs}");
    if n > bytecode.len() {
        println!("DEFECT: the iterator never ends: count() / collect() on it would not return");
        std::process::exit(1);
    }
}
