use incremental_font_transfer::patchmap::{intersecting_patches, SubsetDefinition};
use read_fonts::{FontRef, types::Tag};
use write_fonts::FontBuilder;

fn ift_table(n: u32) -> Vec<u8> {
    let mut b: Vec<u8> = vec![];
    b.push(2); // format
    b.extend_from_slice(&0u32.to_be_bytes()); // reserved
    for v in [1u32, 2, 3, 4] { b.extend_from_slice(&v.to_be_bytes()); } // compat id
    b.push(3); // default patch format = glyph keyed
    let count = n + 1;
    b.extend_from_slice(&count.to_be_bytes()[1..]); // entry count u24
    let entries_offset_pos = b.len();
    b.extend_from_slice(&0u32.to_be_bytes()); // entries offset
    b.extend_from_slice(&0u32.to_be_bytes()); // entry id string data offset
    b.extend_from_slice(&8u16.to_be_bytes());
    b.extend_from_slice(&[b'A', b'B', b'C', b'D', b'E', b'F', 0xc9, 0xa4]);
    let off = b.len() as u32;
    b[entries_offset_pos..entries_offset_pos + 4].copy_from_slice(&off.to_be_bytes());
    // entry 0: ignored, no children
    b.push(0b0100_0000);
    // entries 1..n-1: ignored, child = previous
    for i in 1..n {
        b.push(0b0100_0010);
        b.push(1);
        b.extend_from_slice(&(i - 1).to_be_bytes()[1..]);
    }
    // entry n: NOT ignored, child = n-1
    b.push(0b0000_0010);
    b.push(1);
    b.extend_from_slice(&(n - 1).to_be_bytes()[1..]);
    b
}

fn main() {
    let n: u32 = std::env::args().nth(1).unwrap().parse().unwrap();
    let table = ift_table(n);
    println!("IFT table bytes: {}", table.len());
    let mut fb = FontBuilder::new();
    fb.add_raw(Tag::new(b"IFT "), table);
    let font = fb.build();
    let font = FontRef::new(&font).unwrap();
    let def = SubsetDefinition::all();
    let r = intersecting_patches(&font, &def);
    match r {
        Ok(v) => println!("ok: {} patches", v.len()),
        Err(e) => println!("err: {e}"),
    }
}
