use skrifa::{
    instance::{LocationRef, Size},
    outline::{pen::NullPen, DrawSettings, Engine, HintingInstance, HintingOptions},
    raw::{FontRef, TableProvider},
    GlyphId, MetadataProvider,
};

fn main() {
    let a = FontRef::new(font_test_data::TINOS_SUBSET).unwrap();
    let b = FontRef::new(font_test_data::CVAR).unwrap();
    println!("cvt len A={:?} B={:?}", a.cvt().map(|c| c.len()).ok(), b.cvt().map(|c| c.len()).ok());
    let oa = a.outline_glyphs();
    let ob = b.outline_glyphs();
    let opts = HintingOptions { engine: Engine::Interpreter, ..Default::default() };
    let inst_a = HintingInstance::new(&ob, Size::new(16.0), LocationRef::default(), opts).unwrap();
    // API misuse: instance configured for font A, glyph from font B
    for gid in 0..8u32 {
        if let Some(glyph) = oa.get(GlyphId::new(gid)) {
            let r = glyph.draw(DrawSettings::hinted(&inst_a, false), &mut NullPen);
            println!("gid {gid}: {:?}", r.map(|_| ()));
        }
    }
}
