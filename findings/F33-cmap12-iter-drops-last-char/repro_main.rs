// F33: Charmap::mappings() / Cmap12::iter_with_limits omit U+10FFFF although map() finds it
use skrifa::{raw::{tables::cmap::Cmap12IterLimits, FontRef, TableProvider}, GlyphId, MetadataProvider};
use write_fonts::{tables::{cmap::Cmap, maxp::Maxp}, FontBuilder};

fn main() {
    let cmap = Cmap::from_mappings([('A', GlyphId::new(1)), ('\u{10FFFF}', GlyphId::new(2))]).unwrap();
    let mut fb = FontBuilder::new();
    fb.add_table(&cmap).unwrap();
    fb.add_table(&Maxp { num_glyphs: 3, ..Default::default() }).unwrap();
    let bytes = fb.build();
    let font = FontRef::new(&bytes).unwrap();
    let charmap = font.charmap();
    println!("map(U+10FFFF)        = {:?}", charmap.map('\u{10FFFF}'));
    let listed: Vec<_> = charmap.mappings().collect();
    println!("mappings()           = {listed:?}");
    for st in font.cmap().unwrap().encoding_records().iter().filter_map(|r| r.subtable(font.cmap().unwrap().offset_data()).ok()) {
        if let skrifa::raw::tables::cmap::CmapSubtable::Format12(f12) = st {
            println!("Cmap12::iter()       = {:?}", f12.iter().collect::<Vec<_>>());
            println!("iter_with_limits     = {:?}", f12.iter_with_limits(Cmap12IterLimits::default_for_font(&font)).collect::<Vec<_>>());
        }
    }
}
