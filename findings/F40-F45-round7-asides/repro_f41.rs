// F41: composite whose second simple component has unordered contour end points [0xFFFF, 2], drawn with PathStyle::HarfBuzz
use skrifa::{
    instance::{LocationRef, Size},
    outline::{pen::{NullPen, PathStyle}, DrawSettings},
    raw::{types::Tag, FontRef, TableProvider},
    GlyphId, MetadataProvider,
};
use write_fonts::FontBuilder;

fn simple(ends: &[u16], npoints: usize) -> Vec<u8> {
    let mut g: Vec<u8> = vec![];
    g.extend((ends.len() as i16).to_be_bytes());
    for _ in 0..4 { g.extend(0i16.to_be_bytes()); }
    for e in ends { g.extend(e.to_be_bytes()); }
    g.extend(0u16.to_be_bytes()); // no instructions
    let flag = 0x01u8 | 0x10 | 0x20; // on curve, x/y same (zero deltas)
    for _ in 0..npoints { g.push(flag); }
    if g.len() % 4 != 0 { g.resize(g.len() + 4 - g.len() % 4, 0); }
    g
}

fn main() {
    let base = FontRef::new(font_test_data::TINOS_SUBSET).unwrap();
    let n = base.maxp().unwrap().num_glyphs() as usize;
    let g1 = simple(&[2], 3);
    let g2 = simple(&[0xFFFF, 2], 3);
    let mut g3: Vec<u8> = vec![];
    g3.extend((-1i16).to_be_bytes());
    for _ in 0..4 { g3.extend(0i16.to_be_bytes()); }
    for (flags, gid) in [(0x23u16, 1u16), (0x03, 2)] {
        g3.extend(flags.to_be_bytes());
        g3.extend(gid.to_be_bytes());
        g3.extend(0i16.to_be_bytes());
        g3.extend(0i16.to_be_bytes());
    }
    if g3.len() % 4 != 0 { g3.resize(g3.len() + 4 - g3.len() % 4, 0); }
    let mut glyf: Vec<u8> = vec![];
    let mut loca: Vec<u8> = vec![];
    let mut offs = vec![0u32, 0]; // glyph 0 empty
    glyf.extend(&g1); offs.push(glyf.len() as u32);
    glyf.extend(&g2); offs.push(glyf.len() as u32);
    glyf.extend(&g3); offs.push(glyf.len() as u32);
    while offs.len() < n + 1 { offs.push(glyf.len() as u32); }
    for o in &offs { loca.extend(o.to_be_bytes()); }
    let mut head = base.table_data(Tag::new(b"head")).unwrap().as_bytes().to_vec();
    head[50] = 0; head[51] = 1; // long loca
    let mut fb = FontBuilder::new();
    fb.add_raw(Tag::new(b"head"), head);
    fb.add_raw(Tag::new(b"glyf"), glyf);
    fb.add_raw(Tag::new(b"loca"), loca);
    fb.copy_missing_tables(base);
    let bytes = fb.build();
    let font = FontRef::new(&bytes).unwrap();
    let outlines = font.outline_glyphs();
    for (gid, what) in [(2u32, "simple, unordered ends"), (3, "composite: ordered + unordered")] {
        let g = outlines.get(GlyphId::new(gid)).unwrap();
        for style in [PathStyle::FreeType, PathStyle::HarfBuzz] {
            let r = g.draw(
                DrawSettings::unhinted(Size::new(16.0), LocationRef::default()).with_path_style(style),
                &mut NullPen,
            );
            println!("glyph {gid} ({what}) {style:?}: {:?}", r.map(|_| ()).map_err(|e| e.to_string()));
        }
    }
}
