// F45: a simple glyph whose data ends inside the flags array: the remaining flags are whatever the point-flag buffer held
use skrifa::{
    instance::{LocationRef, Size},
    outline::{pen::PathStyle, DrawSettings, Hinting, OutlinePen},
    raw::{types::Tag, FontRef, TableProvider},
    GlyphId, MetadataProvider,
};
use write_fonts::FontBuilder;

#[derive(Default)]
struct Rec(String);
impl OutlinePen for Rec {
    fn move_to(&mut self, x: f32, y: f32) { self.0 += &format!("M{x},{y} "); }
    fn line_to(&mut self, x: f32, y: f32) { self.0 += &format!("L{x},{y} "); }
    fn quad_to(&mut self, a: f32, b: f32, x: f32, y: f32) { self.0 += &format!("Q{a},{b} {x},{y} "); }
    fn curve_to(&mut self, a: f32, b: f32, c: f32, d: f32, x: f32, y: f32) { self.0 += &format!("C{a},{b} {c},{d} {x},{y} "); }
    fn close(&mut self) { self.0 += "Z "; }
}

fn main() {
    let base = FontRef::new(font_test_data::TINOS_SUBSET).unwrap();
    let n = base.maxp().unwrap().num_glyphs() as usize;
    // glyph 1: one contour of 5 points, no instructions, and only two flag bytes (on curve, x and y "same"): the data ends there
    let mut g1: Vec<u8> = vec![];
    g1.extend(1i16.to_be_bytes());
    for _ in 0..4 { g1.extend(0i16.to_be_bytes()); }
    g1.extend(4u16.to_be_bytes());
    g1.extend(0u16.to_be_bytes());
    g1.extend([0x31u8, 0x31]);
    let mut glyf: Vec<u8> = vec![];
    let mut loca: Vec<u8> = vec![];
    let mut offs = vec![0u32, 0];
    glyf.extend(&g1); offs.push(glyf.len() as u32);
    while offs.len() < n + 1 { offs.push(glyf.len() as u32); }
    for o in &offs { loca.extend(o.to_be_bytes()); }
    let mut head = base.table_data(Tag::new(b"head")).unwrap().as_bytes().to_vec();
    head[50] = 0; head[51] = 1; // long loca
    let mut fb = FontBuilder::new();
    fb.add_raw(Tag::new(b"head"), head);
    fb.add_raw(Tag::new(b"glyf"), glyf);
    fb.add_raw(Tag::new(b"loca"), loca);
    fb.copy_missing_tables(base);
    let bytes = fb.build();
    let font = FontRef::new(&bytes).unwrap();
    let glyph = font.outline_glyphs().get(GlyphId::new(1)).unwrap();
    for style in [PathStyle::FreeType, PathStyle::HarfBuzz] {
        let settings = || DrawSettings::unhinted(Size::new(16.0), LocationRef::default()).with_path_style(style);
        let mut pen = Rec::default();
        let r = glyph.draw(settings(), &mut pen).map(|_| ());
        println!("{style:?} library memory    : {r:?} {}", pen.0);
        for fill in [0x00u8, 0x31] {
            let mut buf = vec![fill; glyph.draw_memory_size(Hinting::None)];
            let mut pen = Rec::default();
            let r = glyph.draw(settings().with_memory(Some(&mut buf)), &mut pen).map(|_| ());
            println!("{style:?} caller memory {fill:#04x}: {r:?} {}", pen.0);
        }
    }
}
