// F43: a composite whose first component is positioned by point matching (base point 8, component point 0):
// no component has been loaded before it, so base point 8 is whatever the scratch buffer holds
use skrifa::{
    instance::{LocationRef, Size},
    outline::{pen::PathStyle, DrawSettings, OutlinePen},
    raw::{types::Tag, FontRef, TableProvider},
    GlyphId, MetadataProvider,
};
use write_fonts::FontBuilder;

#[derive(Default)]
struct Rec(String);
impl OutlinePen for Rec {
    fn move_to(&mut self, x: f32, y: f32) { self.0 += &format!("M{x},{y} "); }
    fn line_to(&mut self, x: f32, y: f32) { self.0 += &format!("L{x},{y} "); }
    fn quad_to(&mut self, a: f32, b: f32, x: f32, y: f32) { self.0 += &format!("Q{a},{b} {x},{y} "); }
    fn curve_to(&mut self, a: f32, b: f32, c: f32, d: f32, x: f32, y: f32) { self.0 += &format!("C{a},{b} {c},{d} {x},{y} "); }
    fn close(&mut self) { self.0 += "Z "; }
}

fn main() {
    let base = FontRef::new(font_test_data::GLYF_COMPONENTS).unwrap();
    let loca = base.loca(None).unwrap();
    let glyf_data = base.table_data(Tag::new(b"glyf")).unwrap().as_bytes().to_vec();
    let gid = 5u32;
    let (start, end) = (loca.get_raw(gid as usize).unwrap() as usize, loca.get_raw(gid as usize + 1).unwrap() as usize);
    let mut glyf = glyf_data.clone();
    let g = &mut glyf[start..end];
    assert_eq!(i16::from_be_bytes([g[0], g[1]]), -1, "glyph 5 is a composite");
    let flags = u16::from_be_bytes([g[10], g[11]]);
    println!("first component flags {flags:#06x}, args are words: {}", flags & 1 != 0);
    let flags = flags & !0x0002; // ARGS_ARE_XY_VALUES off: args are point numbers
    g[10..12].copy_from_slice(&flags.to_be_bytes());
    if flags & 1 != 0 { g[14..16].copy_from_slice(&8u16.to_be_bytes()); g[16..18].copy_from_slice(&0u16.to_be_bytes()); }
    else { g[14] = 8; g[15] = 0; }
    let mut fb = FontBuilder::new();
    fb.add_raw(Tag::new(b"glyf"), glyf);
    fb.copy_missing_tables(base);
    let bytes = fb.build();
    let font = FontRef::new(&bytes).unwrap();
    let glyph = font.outline_glyphs().get(GlyphId::new(gid)).unwrap();
    for style in [PathStyle::FreeType, PathStyle::HarfBuzz] {
        let settings = || DrawSettings::unhinted(Size::new(16.0), LocationRef::default()).with_path_style(style);
        let mut pen = Rec::default();
        let r = glyph.draw(settings(), &mut pen).map(|_| ());
        println!("{style:?} library memory : {r:?} {}", &pen.0[..pen.0.len().min(60)]);
        for fill in [0x00u8, 0x5A] {
            let size = glyph.draw_memory_size(skrifa::outline::Hinting::None);
            let mut buf = vec![fill; size];
            let mut pen = Rec::default();
            let r = glyph.draw(settings().with_memory(Some(&mut buf)), &mut pen).map(|_| ());
            println!("{style:?} caller memory {fill:#04x}: {r:?} {}", &pen.0[..pen.0.len().min(60)]);
        }
    }
}
