// F40: CFF flex1 (12 37) with dx1 = -32768.0: Fixed::abs negates i32::MIN
use read_fonts::tables::postscript::{charstring::{self, CommandSink}, Index};
use read_fonts::types::Fixed;
struct Sink(usize);
impl CommandSink for Sink {
    fn move_to(&mut self, _: Fixed, _: Fixed) { self.0 += 1 }
    fn line_to(&mut self, _: Fixed, _: Fixed) { self.0 += 1 }
    fn curve_to(&mut self, _: Fixed, _: Fixed, _: Fixed, _: Fixed, _: Fixed, _: Fixed) { self.0 += 1 }
    fn close(&mut self) {}
}
fn main() {
    // 255 <16.16 = 0x80000000> (dx1 = -32768.0), ten zeros (139), flex1 (12 37), endchar (14)
    let mut cs = vec![255u8, 0x80, 0, 0, 0];
    cs.extend(std::iter::repeat(139u8).take(10));
    cs.extend([12, 37, 14]);
    let mut sink = Sink(0);
    let r = charstring::evaluate(&cs, Index::Empty, None, None, &mut sink);
    println!("result: {r:?}, {} commands", sink.0);
    println!("Fixed::MIN.abs() = {:?}", Fixed::MIN.abs());
}
