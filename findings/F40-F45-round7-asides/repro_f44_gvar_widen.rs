//! F44: a glyph keyed patch that pushes a short-offset gvar past 128 KiB must widen the offsets,
//! also when the base font is sparse (many glyphs, hardly any variation data yet).
#[path = "f44_support/helpers.rs"]
mod helpers;
use helpers::*;
use read_fonts::{types::Tag, FontRef};

fn widen(n: usize, base_data: usize, new_len: usize) -> Result<Vec<u8>, String> {
    let mut glyphs = vec![vec![]; n];
    glyphs[0] = vec![7u8; base_data];
    let gvar = gvar_table(&glyphs, false, &[0x4000]);
    let (ift, _) = mapping_table(CID_IFT, 1, 0, None, None);
    let font = build_font(&BaseFont {
        num_glyphs: n as u16,
        glyf: None,
        raw: vec![(Tag::new(b"gvar"), gvar), (Tag::new(b"IFT "), ift)],
    });
    let new_glyph: Vec<u8> = (0..new_len as u32).map(|i| (i % 253) as u8).collect();
    let payload = glyph_patches(&[5], &[(b"gvar", vec![new_glyph])], false);
    let patch = glyph_keyed_patch(CID_IFT, &payload, false);
    let infos = patch_infos(&FontRef::new(&font).unwrap());
    apply(&font, &[(&infos[0].1, &patch)]).map_err(|e| format!("{e:?}"))
}

#[test]
fn sparse_gvar_widens() {
    // 1000 glyphs, 4 bytes of variation data, one new 140000 byte glyph: offsets must become long
    let r = widen(1000, 4, 140_000);
    println!("sparse: {:?}", r.as_ref().map(|f| f.len()));
    let font = r.expect("patch application failed instead of widening the offsets");
    let gvar = table(&font, b"gvar").unwrap();
    assert_eq!(gvar[15] & 1, 1, "long offsets");
}

#[test]
fn populated_gvar_widens() {
    // control: the original data is larger than the growth of the offset array
    let r = widen(1000, 4000, 140_000);
    println!("populated: {:?}", r.as_ref().map(|f| f.len()));
    assert!(r.is_ok());
}
