// adapted from the demonstration of seeded change C02-18
//! C02 demonstration 18: a CFF glyph whose charstring (through nested
//! subroutine calls) expands to far more than 65536 points must be rejected
//! with an error (or drawn) by the automatic hinter; it must not panic.

use skrifa::{
    outline::{DrawSettings, Engine, HintingInstance, HintingOptions, OutlinePen, Target},
    prelude::{LocationRef, Size},
    raw::FontRef,
    GlyphId, MetadataProvider,
};

#[derive(Default)]
struct CountingPen {
    points: usize,
    contours: usize,
}

impl OutlinePen for CountingPen {
    fn move_to(&mut self, _x: f32, _y: f32) {
        self.points += 1;
        self.contours += 1;
    }
    fn line_to(&mut self, _x: f32, _y: f32) {
        self.points += 1;
    }
    fn quad_to(&mut self, _cx0: f32, _cy0: f32, _x: f32, _y: f32) {
        self.points += 2;
    }
    fn curve_to(&mut self, _cx0: f32, _cy0: f32, _cx1: f32, _cy1: f32, _x: f32, _y: f32) {
        self.points += 3;
    }
    fn close(&mut self) {}
}

fn push16(out: &mut Vec<u8>, v: u16) {
    out.extend_from_slice(&v.to_be_bytes());
}

fn push32(out: &mut Vec<u8>, v: u32) {
    out.extend_from_slice(&v.to_be_bytes());
}

/// Assembles a minimal sfnt container (OTTO flavor) from the given tables.
fn build_sfnt(mut tables: Vec<([u8; 4], Vec<u8>)>) -> Vec<u8> {
    tables.sort_by_key(|(tag, _)| *tag);
    let mut out = Vec::new();
    out.extend_from_slice(b"OTTO");
    push16(&mut out, tables.len() as u16);
    out.extend_from_slice(&[0u8; 6]); // searchRange, entrySelector, rangeShift
    let mut offset = 12 + 16 * tables.len();
    let mut body = Vec::new();
    for (tag, data) in &tables {
        out.extend_from_slice(tag);
        push32(&mut out, 0); // checksum
        push32(&mut out, offset as u32);
        push32(&mut out, data.len() as u32);
        body.extend_from_slice(data);
        offset += data.len();
        while offset % 4 != 0 {
            body.push(0);
            offset += 1;
        }
    }
    out.extend_from_slice(&body);
    out
}

/// CFF INDEX with 4 byte offsets.
fn cff_index(items: &[Vec<u8>]) -> Vec<u8> {
    let mut out = Vec::new();
    push16(&mut out, items.len() as u16);
    if items.is_empty() {
        return out;
    }
    out.push(4); // offSize
    let mut offset = 1u32;
    push32(&mut out, offset);
    for item in items {
        offset += item.len() as u32;
        push32(&mut out, offset);
    }
    for item in items {
        out.extend_from_slice(item);
    }
    out
}

/// Charstring operand in the single byte range.
fn num(v: i32) -> u8 {
    assert!((-107..=107).contains(&v));
    (v + 139) as u8
}

const RLINETO: u8 = 5;
const RETURN: u8 = 11;
const ENDCHAR: u8 = 14;
const RMOVETO: u8 = 21;
const CALLGSUBR: u8 = 29;

/// Operand selecting global subroutine `index` (bias is 107 for small
/// INDEXes).
fn gsubr(index: i32) -> u8 {
    num(index - 107)
}

/// Builds a CFF table with two glyphs. Glyph 1 consists of `contours`
/// contours of `1 + 800 * calls_per_contour` points each.
fn cff_table(contours: usize, outer_calls: usize, inner_calls: usize, extra: usize) -> Vec<u8> {
    // gsubr 0: 40 rlineto operators with 20 segments each
    let mut subr0 = Vec::new();
    for _ in 0..40 {
        for i in 0..20 {
            let d = if i % 2 == 0 { 10 } else { -10 };
            subr0.push(num(d));
            subr0.push(num(d));
        }
        subr0.push(RLINETO);
    }
    subr0.push(RETURN);
    // gsubr 1: inner_calls x gsubr 0
    let mut subr1 = Vec::new();
    for _ in 0..inner_calls {
        subr1.push(gsubr(0));
        subr1.push(CALLGSUBR);
    }
    subr1.push(RETURN);
    // gsubr 2: outer_calls x gsubr 1
    let mut subr2 = Vec::new();
    for _ in 0..outer_calls {
        subr2.push(gsubr(1));
        subr2.push(CALLGSUBR);
    }
    subr2.push(RETURN);
    let global_subrs = cff_index(&[subr0, subr1, subr2]);

    let notdef = vec![ENDCHAR];
    let mut glyph = Vec::new();
    for _ in 0..contours {
        glyph.extend_from_slice(&[num(0), num(0), RMOVETO, gsubr(if outer_calls == 0 { 0 } else { 2 }), CALLGSUBR]);
    }
    if extra > 0 {
        glyph.extend_from_slice(&[num(0), num(0), RMOVETO]);
        let mut left = extra;
        while left > 0 {
            let n = left.min(20);
            for i in 0..n {
                let d = if i % 2 == 0 { 10 } else { -10 };
                glyph.push(num(d));
                glyph.push(num(d));
            }
            glyph.push(RLINETO);
            left -= n;
        }
    }
    glyph.push(ENDCHAR);
    let charstrings = cff_index(&[notdef, glyph]);

    let header = vec![1u8, 0, 4, 4];
    let names = cff_index(&[b"Demo".to_vec()]);
    let strings = cff_index(&[]);
    // Top DICT: <charstrings offset> CharStrings(17), with a fixed size
    // (5 byte) integer operand so the offset can be computed up front.
    let top_dict_len = 6;
    let top_dict_index_len = 2 + 1 + 2 * 4 + top_dict_len;
    let charstrings_offset =
        header.len() + names.len() + top_dict_index_len + strings.len() + global_subrs.len();
    let mut top_dict = vec![29u8];
    push32(&mut top_dict, charstrings_offset as u32);
    top_dict.push(17);
    assert_eq!(top_dict.len(), top_dict_len);
    let top_dicts = cff_index(&[top_dict]);
    assert_eq!(top_dicts.len(), top_dict_index_len);

    let mut cff = header;
    cff.extend_from_slice(&names);
    cff.extend_from_slice(&top_dicts);
    cff.extend_from_slice(&strings);
    cff.extend_from_slice(&global_subrs);
    assert_eq!(cff.len(), charstrings_offset);
    cff.extend_from_slice(&charstrings);
    cff
}

fn cff_font(contours: usize, outer_calls: usize, inner_calls: usize, extra: usize) -> Vec<u8> {
    let mut head = Vec::new();
    push32(&mut head, 0x0001_0000); // version
    push32(&mut head, 0); // fontRevision
    push32(&mut head, 0); // checksumAdjustment
    push32(&mut head, 0x5F0F_3CF5); // magicNumber
    push16(&mut head, 0); // flags
    push16(&mut head, 1000); // unitsPerEm
    head.extend_from_slice(&[0u8; 16]); // created, modified
    for v in [0i16, -200, 1000, 800] {
        push16(&mut head, v as u16); // xMin, yMin, xMax, yMax
    }
    push16(&mut head, 0); // macStyle
    push16(&mut head, 8); // lowestRecPPEM
    push16(&mut head, 2); // fontDirectionHint
    push16(&mut head, 0); // indexToLocFormat
    push16(&mut head, 0); // glyphDataFormat
    assert_eq!(head.len(), 54);

    let mut hhea = Vec::new();
    push32(&mut hhea, 0x0001_0000);
    push16(&mut hhea, 800); // ascender
    push16(&mut hhea, (-200i16) as u16); // descender
    push16(&mut hhea, 0); // lineGap
    push16(&mut hhea, 1000); // advanceWidthMax
    for _ in 0..11 {
        push16(&mut hhea, 0);
    }
    push16(&mut hhea, 2); // numberOfHMetrics
    assert_eq!(hhea.len(), 36);

    let mut maxp = Vec::new();
    push32(&mut maxp, 0x0000_5000);
    push16(&mut maxp, 2); // numGlyphs

    let mut hmtx = Vec::new();
    for _ in 0..2 {
        push16(&mut hmtx, 1000);
        push16(&mut hmtx, 0);
    }

    build_sfnt(vec![
        (*b"CFF ", cff_table(contours, outer_calls, inner_calls, extra)),
        (*b"head", head),
        (*b"hhea", hhea),
        (*b"hmtx", hmtx),
        (*b"maxp", maxp),
    ])
}

fn auto_instance(font: &FontRef, ppem: f32) -> HintingInstance {
    HintingInstance::new(
        &font.outline_glyphs(),
        Size::new(ppem),
        LocationRef::default(),
        HintingOptions {
            engine: Engine::Auto(None),
            target: Target::default(),
        },
    )
    .expect("the automatic hinter can always be instantiated")
}

/// Returns (points drawn unhinted, result of the autohinted draw).
fn draw(font_data: &[u8]) -> (usize, Result<usize, String>) {
    let font = FontRef::new(font_data).unwrap();
    let outlines = font.outline_glyphs();
    let glyph = outlines.get(GlyphId::new(1)).expect("glyph 1 exists");
    let mut pen = CountingPen::default();
    glyph
        .draw(
            DrawSettings::unhinted(Size::new(16.0), LocationRef::default()),
            &mut pen,
        )
        .expect("unhinted CFF outline");
    let unhinted_points = pen.points;
    let instance = auto_instance(&font, 16.0);
    let mut pen = CountingPen::default();
    let result = glyph
        .draw(DrawSettings::hinted(&instance, false), &mut pen)
        .map(|_| pen.points)
        .map_err(|e| format!("{e:?}"));
    (unhinted_points, result)
}


fn main() {
    // F42: a CFF glyph with exactly 65536 points (81 contours of 801 points and one of 655) drawn through the auto-hinter
    for (contours, extra) in [(81usize, 654usize), (81, 653), (81, 655)] {
        let (unhinted, hinted) = draw(&cff_font(contours, 0, 0, extra));
        println!("{unhinted} points: autohinted draw -> {hinted:?}");
    }
}
