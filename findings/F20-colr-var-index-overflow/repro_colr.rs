use skrifa::{
    color::{Brush, ColorPainter, CompositeMode, Transform},
    instance::Location,
    metrics::BoundingBox,
    raw::{types::Tag, FontRef, TableProvider},
    GlyphId, MetadataProvider,
};
use write_fonts::FontBuilder;

struct Nop;
impl ColorPainter for Nop {
    fn push_transform(&mut self, _: Transform) {}
    fn pop_transform(&mut self) {}
    fn push_clip_glyph(&mut self, _: GlyphId) {}
    fn push_clip_box(&mut self, _: BoundingBox) {}
    fn pop_clip(&mut self) {}
    fn fill(&mut self, _: Brush<'_>) {}
    fn push_layer(&mut self, _: CompositeMode) {}
    fn pop_layer(&mut self) {}
}

fn paint_all(bytes: &[u8]) -> Result<(), String> {
    let r = std::panic::catch_unwind(|| {
        let font = FontRef::new(bytes).unwrap();
        let n = font.maxp().unwrap().num_glyphs();
        let axes = font.axes();
        let loc: Location = axes.location(axes.iter().map(|a| (a.tag(), a.max_value())));
        let glyphs = font.color_glyphs();
        for gid in 0..n {
            if let Some(g) = glyphs.get(GlyphId::new(gid as u32)) {
                let _ = g.paint(&loc, &mut Nop);
            }
        }
    });
    r.map_err(|e| e.downcast_ref::<String>().cloned().or(e.downcast_ref::<&str>().map(|s| s.to_string())).unwrap_or_default())
}

fn main() {
    std::panic::set_hook(Box::new(|_| {}));
    let base = FontRef::new(font_test_data::COLRV0V1_VARIABLE).unwrap();
    println!("unmodified font: {:?}", paint_all(font_test_data::COLRV0V1_VARIABLE));
    let colr = base.table_data(Tag::new(b"COLR")).unwrap().as_bytes().to_vec();
    let mut found = 0;
    // PaintVarLinearGradient = format 5 / PaintVarRadialGradient = format 7: u8 format, Offset24 colorLine, 6 x i16/u16,
    // u32 varIndexBase (at byte 16)
    for o in 0..colr.len().saturating_sub(20) {
        if colr[o] != 5 && colr[o] != 7 {
            continue;
        }
        let mut t = colr.clone();
        t[o + 16..o + 20].copy_from_slice(&0xFFFF_FFFEu32.to_be_bytes());
        let mut b = FontBuilder::default();
        b.add_raw(Tag::new(b"COLR"), t);
        b.copy_missing_tables(base.clone());
        let bytes = b.build();
        if let Err(msg) = paint_all(&bytes) {
            println!("COLR byte {o}: PaintVar(Linear|Radial)Gradient.varIndexBase = 0xFFFFFFFE -> PANIC {msg}");
            found += 1;
            if found >= 2 {
                break;
            }
        }
    }
    println!("{found} panicking variants found");
}
