// F34: IntersectionInfo::design_space_size wraps for a segment wider than 32767 units, so the narrower entry wins
use incremental_font_transfer::{patch_group::PatchGroup, patchmap::{DesignSpace, FeatureSet, SubsetDefinition}};
use read_fonts::{collections::{IntSet, RangeSet}, types::{Fixed, Tag}, FontRef};
use std::collections::HashMap;
use write_fonts::FontBuilder;

fn table(entries: &[(i32, i32)]) -> Vec<u8> {
    let mut b: Vec<u8> = vec![2]; // format
    b.extend(0u32.to_be_bytes()); // reserved
    for x in [1u32, 2, 3, 4] { b.extend(x.to_be_bytes()); } // compat id
    b.push(1); // default patch format: table keyed, fully invalidating
    b.extend(&(entries.len() as u32).to_be_bytes()[1..]); // entry count (u24)
    let entries_offset_pos = b.len();
    b.extend(0u32.to_be_bytes()); // entries offset
    b.extend(0u32.to_be_bytes()); // entry id string data offset
    let template = b"//foo/{id}";
    b.extend((template.len() as u16).to_be_bytes());
    b.extend(template);
    let off = b.len() as u32;
    b[entries_offset_pos..entries_offset_pos + 4].copy_from_slice(&off.to_be_bytes());
    for (lo, hi) in entries {
        b.push(0b0000_0001); // FEATURES_AND_DESIGN_SPACE
        b.push(0); // feature count
        b.extend(1u16.to_be_bytes()); // design space count
        b.extend(Tag::new(b"wght").to_be_bytes());
        b.extend(Fixed::from_i32(*lo).to_be_bytes());
        b.extend(Fixed::from_i32(*hi).to_be_bytes());
    }
    b
}

fn main() {
    // entry 0 covers the whole requested segment, entry 1 a sliver of it
    let ift = table(&[(-20000, 20000), (0, 100)]);
    let mut fb = FontBuilder::new();
    fb.add_raw(Tag::new(b"IFT "), ift);
    let bytes = fb.build();
    let font = FontRef::new(&bytes).unwrap();
    let mut ranges: RangeSet<Fixed> = Default::default();
    ranges.insert(Fixed::from_i32(-20000)..=Fixed::from_i32(20000));
    let def = SubsetDefinition::new(IntSet::new(), FeatureSet::Set(Default::default()), DesignSpace::Ranges(HashMap::from([(Tag::new(b"wght"), ranges)])));
    let g = PatchGroup::select_next_patches(font, &def).unwrap();
    println!("selected: {:?}", g.uris().collect::<Vec<_>>());
}
