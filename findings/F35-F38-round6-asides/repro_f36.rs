// F36: Cmap12Iter re-enumerates overlapping groups: output quadratic (or worse) in the table size
use read_fonts::{tables::cmap::{Cmap12, Cmap12IterLimits}, FontData, FontRead};

fn main() {
    for n_groups in [10u32, 20, 40, 80] {
        let mut b: Vec<u8> = vec![];
        b.extend(12u16.to_be_bytes());
        b.extend(0u16.to_be_bytes());
        b.extend((16 + 12 * n_groups).to_be_bytes());
        b.extend(0u32.to_be_bytes());
        b.extend(n_groups.to_be_bytes());
        for i in 0..n_groups {
            let end = if i % 2 == 0 { 60000u32 } else { 10 };
            b.extend(0u32.to_be_bytes());
            b.extend(end.to_be_bytes());
            b.extend(1u32.to_be_bytes());
        }
        let t = Cmap12::read(FontData::new(&b)).unwrap();
        let n = t.iter_with_limits(Cmap12IterLimits::default()).count();
        println!("{n_groups:3} groups ({:4} bytes): {n} pairs enumerated", b.len());
    }
}
