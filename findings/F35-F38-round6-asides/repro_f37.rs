// F37: GlyphPatches::glyph_data_for_table multiplies a caller-supplied table index unchecked
use read_fonts::{tables::ift::{GlyphKeyedFlags, GlyphPatches}, FontData};
fn main() {
    let data = font_test_data::ift::glyf_u16_glyph_patches();
    let table = GlyphPatches::read(FontData::new(data.as_slice()), GlyphKeyedFlags::NONE).unwrap();
    println!("table 0: {} entries", table.glyph_data_for_table(0).count());
    println!("table 7: {} entries", table.glyph_data_for_table(7).count());
    println!("table usize::MAX: {} entries", table.glyph_data_for_table(usize::MAX).count());
}
