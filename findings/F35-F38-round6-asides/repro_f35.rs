// F35: ExtendedStateTableU16::entry panics or not depending on where the table bytes sit in memory
use read_fonts::{tables::aat::ExtendedStateTableU16, FontData, FontRead};

fn table() -> Vec<u8> {
    // STXHeader: nClasses u32, classTableOffset u32, stateArrayOffset u32, entryTableOffset u32
    let mut b: Vec<u8> = vec![];
    b.extend(4u32.to_be_bytes());
    b.extend(16u32.to_be_bytes()); // class table (lookup format 6, empty)
    b.extend(28u32.to_be_bytes()); // state array
    b.extend(36u32.to_be_bytes()); // entry table
    // class lookup: format 6, binsrch header (unitSize 4, nUnits 0, ...)
    b.extend(6u16.to_be_bytes());
    for x in [4u16, 0, 0, 0, 0] { b.extend(x.to_be_bytes()); }
    assert_eq!(b.len(), 28);
    // state array: one state x 4 classes, all entry index 0
    for _ in 0..4 { b.extend(0u16.to_be_bytes()); }
    assert_eq!(b.len(), 36);
    // entry table: newState, flags, payload (u16 = 0x1234)
    b.extend(0u16.to_be_bytes());
    b.extend(0u16.to_be_bytes());
    b.extend(0x1234u16.to_be_bytes());
    b
}

fn main() {
    let t = table();
    // the same bytes at an even and at an odd address
    let mut buf = vec![0u8; t.len() + 8];
    let base = buf.as_ptr() as usize;
    for shift in [0usize, 1] {
        let off = (if base % 2 == 0 { 0 } else { 1 }) + shift;
        buf[off..off + t.len()].copy_from_slice(&t);
        let data = FontData::new(&buf[off..off + t.len()]);
        let r = std::panic::catch_unwind(|| {
            let st = ExtendedStateTableU16::read(data).unwrap();
            st.entry(0, 1).map(|e| e.payload.get())
        });
        println!("bytes at an {} address: {:?}", if shift == 0 { "even" } else { "odd" }, r.map_err(|_| "PANIC"));
    }
}
