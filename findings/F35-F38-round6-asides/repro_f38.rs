// F38: write-fonts drops the DRAW_OUTLINES bit of the sbix header (and never forces bit 0)
use read_fonts::{tables::sbix::{HeaderFlags, Sbix as ReadSbix}, FontData, FontReadWithArgs};
use write_fonts::{dump_table, tables::sbix::Sbix};
fn main() {
    for flags in [HeaderFlags::ALWAYS_SET | HeaderFlags::DRAW_OUTLINES, HeaderFlags::ALWAYS_SET, HeaderFlags::empty(), HeaderFlags::DRAW_OUTLINES] {
        let t = Sbix::new(flags, vec![]);
        let bytes = dump_table(&t).unwrap();
        let back = ReadSbix::read_with_args(FontData::new(&bytes), &0).unwrap();
        println!("written {:?} (0x{:04x}) -> bytes {:02x}{:02x} -> read back {:?}", flags, flags.bits(), bytes[2], bytes[3], back.flags());
    }
}
