use read_fonts::{tables::layout::{Device, CoverageTable}, FontData, FontRead, types::GlyphId16, collections::IntSet, types::GlyphId};

fn be(v: &[u16]) -> Vec<u8> { v.iter().flat_map(|x| x.to_be_bytes()).collect() }

fn try_it(name: &str, f: impl FnOnce() -> String + std::panic::UnwindSafe) {
    match std::panic::catch_unwind(f) {
        Ok(s) => println!("{name}: ok {s}"),
        Err(e) => println!("{name}: PANIC {:?}", e.downcast_ref::<String>().cloned().or(e.downcast_ref::<&str>().map(|s| s.to_string()))),
    }
}

fn main() {
    std::panic::set_hook(Box::new(|_| {}));
    // A: Device with start_size > end_size
    try_it("A device start>end", || {
        let bytes = be(&[20, 10, 1, 0x5540]);
        let d = Device::read(FontData::new(&bytes)).unwrap();
        format!("{:?}", d.iter().collect::<Vec<_>>())
    });
    // E: Device 8-bit deltas containing 0x80
    try_it("E device 8-bit -128 low byte", || {
        let bytes = be(&[10, 11, 3, 0x0580]);
        let d = Device::read(FontData::new(&bytes)).unwrap();
        format!("{:?}", d.iter().collect::<Vec<_>>())
    });
    try_it("E' device 8-bit 0xFE,0xFF (=-2,-1)", || {
        let bytes = be(&[10, 11, 3, 0xFEFF]);
        let d = Device::read(FontData::new(&bytes)).unwrap();
        format!("{:?}", d.iter().collect::<Vec<_>>())
    });
    // B: coverage format 2 with start_coverage_index 65535
    try_it("B coverage2 index overflow", || {
        let bytes = be(&[2, 1, 5, 10, 65535]);
        let c = CoverageTable::read(FontData::new(&bytes)).unwrap();
        format!("{:?} {:?}", c.get(GlyphId16::new(5)), c.get(GlyphId16::new(6)))
    });
    // G: intersects with a huge (inverted) glyph set
    try_it("G coverage intersects inverted set", || {
        let bytes = be(&[1, 3, 5, 6, 7]);
        let c = CoverageTable::read(FontData::new(&bytes)).unwrap();
        let mut s: IntSet<GlyphId> = IntSet::all();
        s.remove(GlyphId::new(1));
        format!("{}", c.intersects(&s))
    });
}
