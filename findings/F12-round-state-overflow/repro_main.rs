use skrifa::{
    instance::{LocationRef, Size},
    outline::{Engine, HintingInstance, HintingOptions},
    raw::{types::Tag, FontRef},
    MetadataProvider,
};
use write_fonts::FontBuilder;

fn main() {
    let which = std::env::args().nth(1).unwrap();
    let base = FontRef::new(font_test_data::TINOS_SUBSET).unwrap();
    // prep: push 1, double it 31 times with wrapping ADD -> i32::MIN, then the op under test
    let mut prep: Vec<u8> = vec![0xB0, 1];
    for _ in 0..31 { prep.extend_from_slice(&[0x20, 0x60]); } // DUP ADD
    match which.as_str() {
        "div" => prep.extend_from_slice(&[0xB0, 1, 0x62]),      // PUSHB 1; DIV  -> mul_div_no_round(MIN, 64, 1)
        "ceil" => { prep.extend_from_slice(&[0xB0, 1, 0x61]); prep.push(0x67); } // PUSHB 1; SUB -> i32::MAX; CEILING
        "round" => { prep.extend_from_slice(&[0xB0, 1, 0x61]); prep.push(0x68); } // -> i32::MAX; ROUND[00]
        "round_min" => { prep.push(0x68); }                       // i32::MIN; ROUND[00]  (RTG: -distance)
        "rthg_max" => { prep.extend_from_slice(&[0xB0, 1, 0x61]); prep.push(0x19); prep.push(0x68); } // i32::MAX; RTHG; ROUND
        "sround_min" => { prep.extend_from_slice(&[0xB0, 0x48, 0x76]); prep.push(0x68); }  // i32::MIN; SROUND 0x48; ROUND
        _ => {}
    }
    let mut fb = FontBuilder::new();
    fb.add_raw(Tag::new(b"prep"), prep);
    fb.copy_missing_tables(base);
    let bytes = fb.build();
    let font = FontRef::new(&bytes).unwrap();
    let outlines = font.outline_glyphs();
    let opts = HintingOptions { engine: Engine::Interpreter, ..Default::default() };
    let r = HintingInstance::new(&outlines, Size::new(16.0), LocationRef::default(), opts);
    println!("instance: {:?}", r.map(|_| ()).map_err(|e| e.to_string()));
}
