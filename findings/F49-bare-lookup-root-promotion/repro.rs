// F49: a bare PositionLookup (not inside a GPOS table) whose PairPos subtable is larger than 64k, compiled on its own
use write_fonts::{
    dump_table,
    tables::{
        gpos::{PairPos, PairSet, PairValueRecord, PositionLookup, ValueRecord},
        layout::{CoverageTable, Lookup, LookupFlag},
    },
    types::GlyphId16,
};
fn main() {
    for (sets, pairs) in [(10u16, 20u16), (100, 165)] {
        let pair_sets: Vec<PairSet> = (0..sets)
            .map(|i| {
                PairSet::new(
                    (0..pairs)
                        .map(|j| PairValueRecord::new(GlyphId16::new(j + 1), ValueRecord::new().with_x_advance((i * 7 + j) as i16), ValueRecord::new().with_x_advance(5)))
                        .collect(),
                )
            })
            .collect();
        let cov = CoverageTable::format_1((0..sets).map(|i| GlyphId16::new(i + 1)).collect());
        let lookup = Lookup::new(LookupFlag::empty(), vec![PairPos::format_1(cov, pair_sets)]);
        let r = dump_table(&PositionLookup::Pair(lookup));
        println!("{sets} pair sets x {pairs} pairs: {:?}", r.map(|b| b.len()).map_err(|e| e.to_string()));
    }
}
