use write_fonts::{
    dump_table,
    read::{tables::colr as rcolr, FontData, FontRead},
    tables::colr::*,
    types::GlyphId16,
};

fn main() {
    // A COLRv1 table whose only v1 field is the BaseGlyphList: glyph 1 = PaintGlyph(glyph 2, PaintSolid).
    // No PaintColrLayers, so no LayerList; no clips, no variations.
    let paint = Paint::glyph(Paint::solid(0, write_fonts::types::F2Dot14::ONE), GlyphId16::new(2));
    let list = BaseGlyphList::new(1, vec![BaseGlyphPaint::new(GlyphId16::new(1), paint)]);
    let colr = Colr {
        num_base_glyph_records: 0,
        base_glyph_records: Default::default(),
        layer_records: Default::default(),
        num_layer_records: 0,
        base_glyph_list: list.into(),
        layer_list: Default::default(),
        clip_list: Default::default(),
        var_index_map: Default::default(),
        item_variation_store: Default::default(),
    };
    use write_fonts::validate::Validate;
    assert!(colr.validate().is_ok(), "value passes validation");
    let bytes = dump_table(&colr).unwrap();
    let read = rcolr::Colr::read(FontData::new(&bytes)).unwrap();
    println!("written {} bytes, version read back = {}", bytes.len(), read.version());
    match read.base_glyph_list() {
        Some(Ok(l)) => println!("base_glyph_list read back with {} records", l.num_base_glyph_paint_records()),
        Some(Err(e)) => println!("base_glyph_list read error {e}"),
        None => {
            println!("DEFECT: base_glyph_list was set but is absent after compile + read");
            std::process::exit(1)
        }
    }
}
