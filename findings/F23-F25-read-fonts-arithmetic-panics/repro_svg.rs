// F23: SVG document record whose offset + length exceeds u32::MAX
use read_fonts::{tables::svg::Svg, types::GlyphId, FontData, FontRead};
fn main() {
    let mut b: Vec<u8> = vec![];
    b.extend(0u16.to_be_bytes()); // version
    b.extend(10u32.to_be_bytes()); // svgDocumentListOffset
    b.extend(0u32.to_be_bytes()); // reserved
    b.extend(1u16.to_be_bytes()); // numEntries
    b.extend(1u16.to_be_bytes()); // startGlyphID
    b.extend(1u16.to_be_bytes()); // endGlyphID
    b.extend(0xFFFF_FFFFu32.to_be_bytes()); // svgDocOffset
    b.extend(1u32.to_be_bytes()); // svgDocLength
    let svg = Svg::read(FontData::new(&b)).unwrap();
    let r = svg.glyph_data(GlyphId::new(1));
    println!("glyph_data -> {:?}", r.map(|o| o.map(|d| d.len())));
}
