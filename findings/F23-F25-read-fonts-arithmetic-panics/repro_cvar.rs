// F25: two cvar tuples whose deltas for one CVT entry add up to more than i32::MAX in 16.16
use read_fonts::{tables::cvar::Cvar, types::F2Dot14, FontData, FontRead};
fn main() {
    let mut data: Vec<u8> = vec![];
    // per-tuple serialized data: private point numbers (1 point: #0), one word delta 32767
    let tuple_data: [u8; 6] = [1, 0, 0, 0x40, 0x7F, 0xFF];
    let mut hdr: Vec<u8> = vec![];
    for _ in 0..2 {
        hdr.extend((tuple_data.len() as u16).to_be_bytes()); // variationDataSize
        hdr.extend((0x8000u16 | 0x2000).to_be_bytes()); // embedded peak | private points
        hdr.extend(F2Dot14::from_f32(1.0).to_bits().to_be_bytes()); // peak, axis 0
    }
    data.extend(1u16.to_be_bytes()); data.extend(0u16.to_be_bytes()); // version 1.0
    data.extend(2u16.to_be_bytes()); // tupleVariationCount
    data.extend(((8 + hdr.len()) as u16).to_be_bytes()); // dataOffset
    data.extend(&hdr);
    data.extend(tuple_data); data.extend(tuple_data);
    let cvar = Cvar::read(FontData::new(&data)).unwrap();
    let mut deltas = [0i32; 1];
    let r = cvar.deltas(1, &[F2Dot14::from_f32(1.0)], &mut deltas);
    println!("deltas -> {r:?} {deltas:?}");
}
