// F24: simple glyph whose first flag has REPEAT_FLAG with a repeat count of 255
use read_fonts::{tables::glyf::SimpleGlyph, FontData, FontRead};
fn main() {
    let mut b: Vec<u8> = vec![];
    b.extend(1i16.to_be_bytes()); // numberOfContours
    for _ in 0..4 { b.extend(0i16.to_be_bytes()); } // bbox
    b.extend(299u16.to_be_bytes()); // endPtsOfContours[0] -> 300 points
    b.extend(0u16.to_be_bytes()); // instructionLength
    // flags: on-curve | x-short... keep it simple: ON_CURVE|REPEAT|X_SAME|Y_SAME (no coordinate bytes needed)
    let flag = 0x01u8 | 0x08 | 0x10 | 0x20;
    b.push(flag); b.push(255); // 256 points
    b.push(flag); b.push(43);  // 44 more points
    let g = SimpleGlyph::read(FontData::new(&b)).unwrap();
    println!("num_points = {}", g.num_points());
    let n = g.points().count();
    println!("points() yielded {n}");
}
