use write_fonts::tables::stat::{AxisRecord, Stat};
use write_fonts::tables::gvar::Gvar;
use write_fonts::{dump_table, validate::Validate};
use font_types::{NameId, Tag};

fn main() {
    let which = std::env::args().nth(1).unwrap_or_default();
    let n: usize = std::env::args().nth(2).and_then(|s| s.parse().ok()).unwrap_or(70000);
    if which == "stat" {
        let axes: Vec<AxisRecord> = (0..n).map(|i| AxisRecord::new(Tag::new(b"wght"), NameId::new(256), i as u16)).collect();
        let stat = Stat::new(axes, vec![], NameId::new(2));
        println!("validate: {:?}", stat.validate().is_ok());
        let r = dump_table(&stat);
        println!("dump_table: {:?}", r.map(|b| b.len()).map_err(|e| e.to_string()));
    }
}
