// F46: FontBuilder::build with 4096 (one byte) tables
use read_fonts::{types::Tag, FontRef, TableProvider};
use write_fonts::FontBuilder;
fn main() {
    for n in [4095u32, 4096, 65535, 65536] {
        let mut fb = FontBuilder::new();
        for i in 0..n {
            let tag = Tag::new(&[b'A' + (i >> 12) as u8, b'a' + ((i >> 8) & 15) as u8, b'a' + ((i >> 4) & 15) as u8, b'a' + (i & 15) as u8]);
            fb.add_raw(tag, vec![i as u8]);
        }
        let bytes = fb.build();
        let font = FontRef::new(&bytes).unwrap();
        let td = &font.table_directory;
        let last = Tag::new(&[b'A' + ((n - 1) >> 12) as u8, b'a' + (((n - 1) >> 8) & 15) as u8, b'a' + (((n - 1) >> 4) & 15) as u8, b'a' + ((n - 1) & 15) as u8]);
        println!("{n} tables: opens, num_tables {}, searchRange {}, entrySelector {}, rangeShift {}, last table = {:?}",
            td.num_tables(), td.search_range(), td.entry_selector(), td.range_shift(), font.table_data(last).map(|d| d.as_bytes().to_vec()));
    }
}
