#!/usr/bin/env python3
"""Regenerates MANIFEST.json from the table below and validates it against the schema."""
import json, os, sys
HERE = os.path.dirname(os.path.abspath(__file__))

CHECKS = {
 "C01": dict(
    technique="interval/relational abstract interpretation of MIR (zone discharge and whole-crate panic-site census against a baseline), inferred struct-field invariants, path-sensitive iterator-progress typestate, dominating-guard + who-may-construct queries, layout/trait facts from rustc, call-graph SCC recognisers, purity census with pointer-cast value flow, explicit-panic inventory",
    design_ref="DESIGN.md §4 C01",
    text="Claimed in part. Decides: (a) in the core reader modules every arithmetic/bounds Assert is discharged for all inputs "
         "and no panicking call exists; (b) a TableRef can only come out of Cursor::finish after check_in_bounds(pos)? or be "
         "re-wrapped from an existing one, and Cursor.pos only advances by saturating_add -- the single gate that licenses the "
         "generated getters' unwraps; (c) every type instantiating the zero-copy reads has alignment 1 and every packed record "
         "has size == RAW_BYTE_LEN, and no type alias or field type instantiates a generic reader that casts bytes to a bare type "
         "parameter with a native multi-byte number (F35: ExtendedStateTableU16, repaired); (e) every call-graph cycle in read-fonts is depth-bounded (stack-overflow clause); (f) "
         "read-fonts has no unsafe code, no mutable/interior-mutable statics, no time/env/random/thread observation and every "
         "pointer-to-integer cast feeds only address differences (purity for every call, thread and address); (g) the explicit "
         "unwrap/expect/panic! inventory of hand-written readers equals the confirmed 39 sites, and the one whose guard lives in its "
         "caller (parse_entry's unreachable!() for the blend operator) has that guard checked; (h) census of every indexing / "
         "slicing / split / copy / division site in hand-written font-types and read-fonts code: each is proved safe for every "
         "input by the interval analysis (guards, lengths, struct-field invariants inferred on every run) or is on the baseline of "
         "sites that existed on the pinned tree (listed per function as confirmed or untriaged = not claimed) -- a new unproven "
         "site, or the loss of a guard that made one provable, is a violation; (i) every hand-written Iterator::next mutates the "
         "iterator on every path that yields Some (an iterator that can yield without progress never terminates); (j) loop "
         "census: every natural loop of hand-written font-types / read-fonts code is paced -- each trip advances an iterator that is "
         "finite by construction, caller-supplied or repo-defined (delegated), or moves a counter by a constant towards a bound the "
         "loop cannot change, with the exit test on every trip -- or is on the baseline of loops that existed on the pinned tree "
         "(every unpaced loop on today's baseline was read and carries a termination argument); no loop has a trip that skips every "
         "exit test or a trip that writes nothing the loop's branches depend on (a step left out of one arm); a new unpaced loop, a "
         "loop that lost its pacing or a `continue` that bypasses the exit test is a violation. "
         "Closed functions (restricted visibility, never used as a value) are analysed under the facts every call site establishes "
         "for their parameters; calls through a trait the crate does not export use the hull of the impls' return summaries. A "
         "baseline entry confirmed by reading carries, where its reason is structural, a witness that is re-evaluated on every run "
         "(the guard call still dominates the site, the caller still makes the call the reason names, a helper still returns 0 for "
         "the formats that would divide by zero): removing the guard in front of a tolerated site voids the confirmation. Genuine "
         "defects found by triaging baseline entries were repaired (F15-F18, F21-F25). Not decided: the baseline's untriaged "
         "sites, finiteness of repo-defined iterators, the linear-time clause.",
    note="Trusted: rustc layout/MIR, bytemuck's own checks, confirmed per-function reasons in rules/confirmed_panics_read_fonts.json (read by hand). C01-d (generated shape agreement) is reported under C04's engine when built.",
 ),
 "C02": dict(
    technique="call-graph SCC recognisers, who-may-write-a-field queries with interval bounds, dominating-guard / must-pass-through path rules, result-fate queries, explicit-panic inventory, panic-site census by interval/relational abstract interpretation with inferred field invariants and call-site entry facts, iterator-progress typestate, natural-loop pacing census",
    design_ref="DESIGN.md §4 C02",
    text="Claimed in part. Decides: no unsafe code in skrifa / IFT; every call-graph cycle in skrifa, IFT, the brotli wrapper and "
         "the read-fonts code they reach is depth bounded (composites, paint graphs, charstring subroutines, GSUB nesting, IFT entry "
         "trees: stack-exhaustion clause); the TrueType program counter is written only by the decoder, do_jump and leave, every "
         "backward jump / loop call / call is charged to its budget or bounded stack before it takes effect, and the dispatch loop "
         "leaves for good once MAX_RUN_INSTRUCTIONS is exceeded (runaway-program clause); a too-small scratch buffer becomes "
         "InsufficientMemory and alloc_slice splits only after testing the re-aligned buffer's length; decode results are "
         "propagated with the patch's own size cap and the sparse-bit-set height guard dominates node decoding; the explicit "
         "unwrap/expect/panic! inventory equals the confirmed 35 sites; every value ever stored into the interpreter's loop counter "
         "is at most 0xFFFF (looped instructions run inside one dispatch, outside every budget); census of every indexing / "
         "slicing / split / copy / division site in skrifa, IFT and the brotli wrapper against the baseline (as C01-h: proved, or "
         "listed as existing on the pinned tree and not claimed; anything new is a violation); every hand-written Iterator::next "
         "makes progress on every yielding path; loop census over skrifa / IFT / the brotli wrapper (as C01-j: 281 of 308 loops paced "
         "automatically, the others read and confirmed with a termination argument except the Newton iteration of normalize14 and "
         "the FFI loop around the C brotli decoder; no trip skips every exit test or leaves untouched everything the loop's branches "
         "depend on -- the first is the rule that came out of F30, an endless walk "
         "in the auto-hinter's blue-zone search, repaired); confirmed baseline entries carry re-evaluated witnesses as in C01 "
         "(including: every stack_mem::<N> call passes a size within N). One genuine defect is a known finding (F5); F19, F20, "
         "F30, F31 (2^n re-traversal of nested PaintGlyphs) and the checked-build panics F26-F29, F32 were repaired. Not decided: "
         "the baseline's untriaged sites (scaler buffer slicing, autohinter indexing), non-finite floats.",
    note="Trusted: rustc MIR, call-graph construction (A-CB), confirmed per-function reasons in rules/confirmed_panics_client.json, the brotli FFI.",
 ),
 "C04": dict(
    technique="syn-level agreement analysis between generated reader, shape marker, getters, writer and validator (finite statement grammar, fail closed); three-valued abstract interpretation of compute_version MIR against the writer's version gates",
    design_ref="DESIGN.md §4 C04, C01-d",
    text="Decides sibling agreement for every generated table/record: read() and the marker's byte-range functions walk the same "
         "fields in the same order with the same widths and version/flag conditions (254 markers, ~1150 getters); each getter reads "
         "the width and optionality of its slot and an open-ended getter is on the last field; every unwrap in a generated reader "
         "file is a recognised getter form; for ~200 reader/writer type pairs the writer emits the same wire fields in the same "
         "order, width and condition (schema #[compile(skip)] fields need a confirmed reason); the count a reader uses to size an "
         "array is written from that array's length; every array-length unwrap in write_into is covered by a length report in "
         "validate_impl (6 known findings, F11); for the 9 hand-written compute_version functions, every version that can be "
         "returned while a version-gated field is Some satisfies that field's gate in the generated writer (three-valued "
         "abstract interpretation of the MIR, 35 field obligations). Oracle = sibling agreement, not round-trip execution; the "
         "other hand-written compute_* values, FromObjRef conversions and idempotence are not decided.",
    note="Trusted: syn parsing; the statement grammar enumerated from font-codegen (anything else fails closed); rustc MIR for C04-e. Genuine defects repaired: F2 (generator), F14 (Colr::compute_version).",
 ),
 "C05": dict(
    technique="path-sensitive typestate {dirty,clean} over MIR, dominating-guard and who-may-call queries, cast census, sibling-predicate agreement, derive/field-observation query on the de-duplication key types",
    design_ref="DESIGN.md §4 C05",
    text="Decides for all CFG paths: pack_objects/basic_sort return true only when no call taking &mut Graph lies between the last "
         "overflow query that reported none and the return; Graph::serialize is called only from dump_table under the true edge of "
         "pack_objects() with no mutation in between and the false edge returns PackingFailed; write_offset narrows only through "
         "u16::try_from / Uint24::checked_new (no `as` truncation, failure panics rather than defaulting); has_overflows and "
         "find_overflows test identical normalised conditions; the object store's de-duplication key observes every byte and every "
         "field of every offset record (TableData's hand-written Hash/PartialEq read `bytes` and `offsets`; OffsetRecord, OffsetLen, "
         "ObjectId derive them). Does not decide that node positions equal final byte offsets, nor "
         "duplication / splitting / promotion arithmetic (value level) -- the hook named in the property is not needed because "
         "nothing is executed.",
    note="Trusted: rustc MIR, fact dumper, explorer. The overflow predicate itself (max_value(len) < child.pos - parent.pos) is taken as the definition of 'fits'.",
 ),
 "C06": dict(
    technique="dominating-guard analysis (loop aware), ADT field-type query, sort-key closure inspection, def-use shape of the directory-record arguments, must-execute-per-iteration (back-edge dominance) and must-pass-through path rules in build(), interval-analysis census of panic-capable sites and loop-pacing census over the container writer",
    design_ref="DESIGN.md §4 C06",
    text="Decides: no new panic-capable indexing / arithmetic site that the interval analysis cannot prove and no new unpaced loop in font_builder.rs / util.rs (build() has no error channel; 15 existing unproven sites are tolerated as untriaged, not claimed); copy_missing_tables inserts only under the not-present edge of tables.contains_key(tag) for the same tag (a "
         "supplied table is never overridden, whatever its length); FontBuilder.tables is BTreeMap<Tag,_>, directory records are "
         "sorted by record.tag before TableDirectory::from_table_records and nothing is pushed afterwards; ordered_tags' sort "
         "key ends in the tag itself (total order => result independent of insertion order); every constant-range slice of table "
         "bytes in build() is dominated by a covering length test (head shorter than 12 bytes cannot panic); supplied bytes are "
         "altered (Cow::to_mut) or emitted piecewise only under the guard tag == 'head' (every other table comes back byte for "
         "byte); each directory record is built from the tag, checksum_and_padding(data), the running position accumulator and "
         "data.len() with no case-dependent offset; the table checksum is pushed onto the folded accumulator on every trip of the "
         "table loop (no table is left out of the file sum) and the directory's after it; on the head path every route to "
         "checksum_and_padding passes, in the same trip, the store that clears bytes 8..12 whatever the Cow variant; every insertion "
         "into the table map is keyed by the supplied tag itself (a parameter, a constant or the source record's tag), never a "
         "function of it. The padding / checksum / 0xB1B0AFBA arithmetic itself is value level and not decided.",
    note="Trusted: rustc MIR, fact dumper. The reader side (FontRef::table_data binary search) is covered by C01's core-zone rules only.",
 ),
 "C07": dict(
    technique="effect/purity analysis over MIR: statics census, who-may-read a field, iterator-sink classification for hash-ordered containers, inter-procedural pointer-cast value flow",
    design_ref="DESIGN.md §4 C07",
    text="Decides that write-fonts/klippa compilation cannot observe anything but its input: the only interior-mutable static is "
         "the 64-bit object counter; ObjectId's integer is produced only by fetch_add in ObjectId::next and read only by derived "
         "Ord/Eq/Hash (a finite set of orderings identical in every run and under every interleaving); every iteration over a "
         "RandomState-hashed container or a hashed container keyed by ObjectId ends in an order-insensitive consumer (22 sites "
         "classified; 11 by confirmed reason); no time/env/random/thread-id calls and no split/test by memory-address alignment "
         "(align_to, pod_align_to, align_offset) in the compilers or the reader crates they call; no use of the result of an atomic "
         "read-modify-write outside ObjectId::next and no available_parallelism; every pointer-to-integer cast "
         "flows only into address differences, alignment masks or unread fields. Holds for every hash seed, thread interleaving, "
         "prior history and placement of the input bytes.",
    note="Trusted: dependencies' determinism (std, indexmap, kurbo, log); sort-key totality at the two sorted-vec sites; confirmed reasons were read by hand and are keyed per function.",
 ),
 "C08": dict(
    technique="interval-checked conversion census (T-CAST: fallible conversions in the builder, narrowing casts in the readers) plus one dominating-guard rule",
    design_ref="DESIGN.md §4 C08",
    text="Claimed for three structural clauses only. (a) 'building succeeds for every conflict-free mapping': in the cmap builder "
         "every try_from/try_into whose failure becomes a panic, and every explicit panic, is infallible by interval analysis, "
         "has a confirmed reason, or is a known finding (F9: mappings that one format-4 subtable cannot express); the i16 idDelta "
         "defect (F3) was repaired. (b) skrifa's symbol-font fallback (retry at codepoint+0xF000) is dominated by the is_symbol "
         "test. (c) narrowing-cast census over skrifa/src/charmap.rs and read-fonts/src/tables/cmap.rs: every integer cast to a narrower "
         "type is proved lossless by the interval analysis (a range test dominates it) or is one of eight confirmed sites (spec-defined "
         "modulo-65536 arithmetic, indices of u16-counted arrays, ranges built from u16/u32 bounds); a new truncating cast of a code "
         "point or glyph id, or the loss of the guard in front of one, is a violation. Lookup correctness, segment boundaries, "
         "enumeration and variation sequences are value level and not decided (F33, an off-by-one that hid U+10FFFF from "
         "enumeration, and F36, re-enumeration of overlapping format 12 groups, were found by seeding agents and repaired).",
    note="Trusted: interval domain; glyph ids are 16-bit (asserted at entry, part of the property's quantifier).",
 ),
 "C12": dict(
    technique="must-reset field analysis over MIR (fields enumerated from the ADT), deep interior-mutability type walk with who-writes / what-is-stored queries on the one memo, path-sensitive {Closed,Open} pen automaton with callee summaries, who-may-call, linear-form agreement between advertised and carved buffer sizes, write-before-read ordering rules",
    design_ref="DESIGN.md §4 C12",
    text="Decides: every field of glyf::HintInstance is re-derived by setup() on every path (Vec fields cleared before grown, "
         "scalars assigned; `instructions` via the checked chain reconfigure -> run_program(Font) -> Engine::reset -> both "
         "DefinitionMap::reset -> fill); every field of HintingInstance is re-derived before every Ok of reconfigure() and `kind` "
         "is None at every Err exit, and reconfigure() reads no field of the instance before writing it (reuse == fresh for every reconfigure history); draw entry points take &self and the only "
         "interior mutability reachable from the shared types is the autohint metrics memo, written only by its getter and only "
         "with Some(compute_unscaled_style_metrics(..)) (a memo of a pure function: no history/thread dependence); "
         "to_path/contour_to_path/emit/finish emit move (seg)* close on every non-Err path; hinting configuration reads the "
         "location only through effective_coords(); for each (hinted, has_variations) case the bytes carved by the scratch-memory "
         "constructors equal (FreeType layout) or are below (HarfBuzz layout) the advertised size and the advertised slack "
         "covers the total worst-case alignment padding, which rests on slices being carved at align_of::<T>() (checked on the rounding calls); scratch delta buffers are zero-filled before accumulation and "
         "composite deltas are read only where they were written. Not decided: finiteness of coordinates, initialisation of "
         "the remaining scratch buffers.",
    note="Trusted: rustc MIR/type facts. Rust's borrow rules give 'draw(&self) cannot mutate non-interior fields'.",
 ),
 "C13": dict(
    technique="path-sensitive typestate over MIR (push/pop stack automaton), dominator guards, recursion-idiom recogniser, instance-level call-graph SCCs over the colour code, symbolic-argument comparison of recursive calls (descend-once rule), result-fate dataflow",
    design_ref="DESIGN.md §4 C13",
    text="All CFG paths of traverse_with_callbacks / ColorGlyph::paint / traverse_v0_range / ColorPainter default methods: "
         "every exit not classified Err has an empty LIFO-matched push/pop stack over the client painter (nested traversals "
         "balanced on Ok by induction); the glyph-fill optimiser forwards only fill_glyph; recursion depth parameter is "
         "guarded by a constant and incremented at all 7 self calls; calls on new paint-graph edges pass a guard from "
         "Decycler::enter(..)?, whose write is bounds-guarded and whose guard drop decrements; every call-graph cycle touching "
         "skrifa::color, the decycler or read-fonts' COLR code matches a bounded-recursion idiom (a new recursion that bypasses the "
         "depth counter and the decycler is a violation); no path descends into the same child twice except as a probe that is cut "
         "off at nested occurrences (otherwise 2^depth visits: F31, repaired); the Result of every nested traversal is propagated "
         "or returned. Decides these structural clauses for every paint graph; the number of visited nodes is bounded by twice "
         "the number of (path-distinct) nodes within depth <= 64, not by the table size (shared sub-graphs are revisited per path).",
    note="Trusted: rustc MIR construction, the fact dumper, the explorer. The embedder's painter is a black box (A-CB).",
 ),
 "C14": dict(
    technique="instance-level call-graph reachability from the decoder entry points + interval/relational abstract interpretation of every panic-capable site in that set (no untriaged site allowed), explicit-panic inventory, dominating-guard rule; who-reads query on Hash/PartialEq of IntSet",
    design_ref="DESIGN.md §9.7 C14",
    text="Claimed for two structural clauses only. (a) 'decoding arbitrary bytes never panics': in every read-fonts function "
         "reachable from IntSet::<u32>::from_sparse_bit_set(_bounded) each indexing / slicing / division / Vec::insert site is "
         "proved safe for every input or carries a confirmed reason (an untriaged site inside the decoder is a violation), "
         "explicit panics are the confirmed dead arms, the reachable set has no call-graph cycle, and the height rejection "
         "dominates every decode_sparse_bit_set_nodes call. (b) hash/equality agreement: Hash for IntSet observes the set "
         "only through member observers (iter_ranges/iter), never the membership mode or the raw pages, and the mixed-mode arm "
         "of PartialEq::eq compares iter_ranges() of both sides. Not decided: membership, size, ordering and iteration after "
         "operation histories, the mode-case tables of union/intersect/subtract, RangeSet merging, encode/decode round trip and "
         "agreement with the specification's decoding algorithm (model equivalence, value level); overflow-checked arithmetic "
         "inside the decoder is covered by C20's census only as 'no new unproven site'.",
    note="Trusted: call-graph construction (A-CB), the two confirmed reasons for the decoder's slices (rules/site_reasons.json), the dead-arm reasons in rules/confirmed_panics_read_fonts.json.",
 ),
 "C18": dict(
    technique="dominating-guard analysis, who-may-call over resolved callees, path-sensitive no-error-exit-after-mutation (T-AFTER), result-fate query, path-sensitive must-pass-through (decoder call before any non-error exit)",
    design_ref="DESIGN.md §4 C18",
    text="Decides for all CFG paths: both apply entry points are gated by the two compatibility-id comparisons whose mismatch "
         "edge returns IncompatiblePatch, and the appliers/decoder have no other callers (no decoding for a mismatched id); in "
         "apply_next_patches_with_decoder no exit other than Ok is reachable after any store to a UriStatus and every store "
         "writes Applied, a call receiving &mut UriStatus counts as a store (atomic bookkeeping for a decoder failing at any call); every decode/applier result is propagated; a "
         "REPLACE_TABLE entry is decoded without a dictionary; in the glyph-keyed applier a tag is marked processed only after a "
         "call that received the new font's builder (untouched tables are copied); each brotli backend returns a non-error result only "
         "on paths that handed the stream to the decoder (no early Ok for special cases). Does not decide which bytes change, "
         "which of two duplicate entries wins, glyph-keyed order independence or offset widening arithmetic (value level).",
    note="Trusted: rustc MIR, fact dumper, explorer; the brotli decoder (incl. FFI) is a black box returning Ok/Err.",
 ),
 "C19": dict(
    technique="ADT shape query (type-level invariants), path-sensitive progress automaton, instance-level call-graph SCCs with bounded-recursion recognisers",
    design_ref="DESIGN.md §4 C19",
    text="Decides: the selected-group types cannot represent two invalidating patches per table, anything beside a full "
         "invalidation, or a URI twice in a scope (payload shapes + map keyed by the URI string at the only insertion sites); "
         "every non-Err exit of apply_next_patches_with_decoder has flipped a Pending entry or passed the non-empty test of a "
         "list filled only from Pending entries (progress => extension terminates); every call-graph cycle in the IFT crates "
         "is bounded (the entry-intersection recursion by memoised in-order evaluation over strictly prior child indices); the "
         "preference key IntersectionInfo is computed without wrapping fixed-point operators (F34, repaired: a wide design-space "
         "segment made the smaller intersection win). "
         "Does not decide intersection semantics, tie-breaking or monotonicity (value level).",
    note="Trusted: rustc MIR/type facts, call-graph construction (A-CB: no edges for embedder type parameters / std callbacks).",
 ),
 "C20": dict(
    technique="interval/relational abstract interpretation of MIR (Assert terminators, overflow-inheriting std calls, debug assertions): full discharge inside declared zones, whole-crate site census against a per-function baseline elsewhere; inferred struct-field invariants and who-writes counter census",
    design_ref="DESIGN.md §4 C20",
    text="Two layers, both in the strict profile (-Coverflow-checks=on -Cdebug-assertions=on, mir-opt-level=0). (1) Declared zones "
         "(the fixed-point operator impls and mul_div in font-types, the core reader modules of read-fonts, the TrueType "
         "interpreter's arithmetic helpers hint/math.rs, engine/arith.rs, engine/round.rs): every overflow/negate/shift/div/bounds "
         "Assert and every overflow-inheriting std arithmetic call is discharged for every input value. (2) Census of every "
         "overflow/negate/shift Assert, abs/pow-style call and debug assertion in hand-written font-types, read-fonts, skrifa and "
         "IFT code: each site is proved by the interval/relational analysis (type ranges, widening casts, guards, lengths, "
         "counting loops, inferred struct-field invariants, 64-bit monotone counters under assumption A-STEPS) or is on the "
         "baseline of sites that existed on the pinned tree (per function; untriaged = NOT claimed safe, many are genuinely "
         "reachable overflows in the autohinter / CFF hinter / scaler) -- a new unproven site, or the loss of the guard that made "
         "one provable, is a violation. Entries confirmed by reading (a guard the analysis cannot see: binary-search postcondition, "
         "range test, sortedness check, height limit, sign test at the only call site) carry witnesses re-evaluated on every run, so "
         "removing such a guard voids the confirmation. The untriaged part of the baseline was read module by module (read-fonts "
         "tables, IFT, int_set, TrueType interpreter) and the auto-hinter probed: 18 genuine overflow defects were repaired "
         "(F15-F21, F23-F29, F32). So the check decides 'no new unchecked arithmetic on unbounded values, and no confirmed guard "
         "removed', not the absence of overflow in the remaining untriaged sites (auto-hinter and scaler arithmetic whose bound is "
         "geometric).",
    note="Trusted: rustc's placement of Assert terminators; the interval domain (sound over-approximation, widening at loop heads). Two genuine defects in the zones were repaired (F7, F8).",
 ),
}

NOT_APPLICABLE = {
 "C03": "numeric equality with FreeType over glyphs x sizes x modes; no clause is visible in code shape",
 "C09": "glyf/loca round-trip and shortest-encoding are value-level facts about delta magnitudes and run lengths",
 "C10": "IUP tolerance, run-length packing and scalar computation are numerical; optimiser correctness is a DP invariant over runtime data",
 "C11": "delta-set retrieval after row merging, tent scalars and axis normalisation are arithmetic identities over runtime values",
 "C15": "exact rounding/conversion identities over all values; the structural facts (wrapping Add/Sub, derived raw-bit Ord) are checked under C20",
 "C16": "first-match lookup equivalence after splitting depends on index arithmetic at split points (values)",
 "C17": "subset vs original on outlines/metrics/cmap is behavioural equivalence of two fonts",
}
PENDING = {}  # properties whose checks are designed (DESIGN.md) but not built yet

ALL = ["C%02d" % i for i in range(1, 21)]

def main():
    pend = {p: "check designed in DESIGN.md §4 but not yet built in this tree; not claimed until it is" for p in ALL
            if p not in CHECKS and p not in NOT_APPLICABLE}
    m = {
      "version": 1,
      "setup_cmd": "./fv setup",
      "hooks": {
        "guard": "googlefonts_fontations_verif",
        "enable": "none needed: nothing is instrumented or executed; checks compile /repo with `cargo +nightly check` through the fvdriver RUSTC_WORKSPACE_WRAPPER",
        "baseline_off_cmd": "cd /repo && cargo test --workspace --no-fail-fast --offline",
        "source_commits": [],
        "add_only": True,
      },
      "engines": [
        {"name": "fvdriver", "path": "driver/", "serves_properties": sorted(CHECKS), "kind_free_text": "rustc_private driver dumping type-checked MIR, ADT/impl/layout/static facts and an instance-level call graph as JSON"},
        {"name": "gencheck", "path": "gencheck/", "serves_properties": ["C01", "C04", "C20"], "kind_free_text": "syn-based dumper of generated reader/writer files (statement-level token strings); agreement logic in fvlib/gen.py and rules/c04*.py"},
        {"name": "fvlib", "path": "fvlib/", "serves_properties": sorted(CHECKS), "kind_free_text": "python analyses over the facts: dominators, path-sensitive typestate, must-write dataflow, intervals, call-graph SCCs, who-may-call queries"},
      ],
      "checks": [],
      "not_applicable": [],
      "notes": "Static analysis only; every check inspects /repo's current source on each run (facts cached by a hash of the tree). See DESIGN.md.",
    }
    for pid in sorted(CHECKS):
        c = CHECKS[pid]
        m["checks"].append({
          "property_id": pid,
          "quick_cmd": f"./fv check {pid} --tier quick",
          "thorough_cmd": f"./fv check {pid} --tier thorough",
          "evidence_file": f"evidence/{pid}.json",
          "replay_cmd_template": "cat {path}",
          "engine": "fvdriver+fvlib",
          "level_claimed": {"category": "other", "text": c["text"], "design_ref": c["design_ref"]},
          "level_note": c["note"],
          "technique": c["technique"],
        })
    for pid in ALL:
        if pid in NOT_APPLICABLE:
            m["not_applicable"].append({"property_id": pid, "reason": NOT_APPLICABLE[pid]})
        elif pid in pend:
            m["not_applicable"].append({"property_id": pid, "reason": pend[pid]})
    json.dump(m, open(os.path.join(HERE, "MANIFEST.json"), "w"), indent=1)
    try:
        import jsonschema
        jsonschema.validate(m, json.load(open("/root/.vp/MANIFEST.schema.json")))
        print("MANIFEST.json valid;", len(m["checks"]), "checks")
    except ImportError:
        print("jsonschema not available; wrote MANIFEST.json unvalidated")

if __name__ == "__main__":
    main()
