#!/bin/bash
# ./run_all.sh [quick|thorough] : run every claimed check, print one line each
cd "$(dirname "$0")"
tier=${1:-quick}
rc=0
for p in $(python3 -c "import json; print(' '.join(c['property_id'] for c in json.load(open('MANIFEST.json'))['checks']))"); do
  out=$(./fv check $p --tier $tier 2>&1); r=$?
  echo "$out" | grep -E "^\[fv\] C|^VIOLATION" | grep -v facts
  [ $r -ne 0 ] && rc=1
done
exit $rc
