//! Engine fixture: every `pub fn bad_*` contains exactly one panic-capable site that is NOT safe for every input and
//! must stay undischarged (a trap for an unsound shortcut of the interval engine); every `pub fn good_*` contains
//! sites that ARE safe and that the engine is expected to prove.  Checked on every run of C01/C02/C20.
#![allow(clippy::all, unused)]

pub struct Stack {
    values: [i32; 16],
    top: usize,
    data: &'static [u8],
}

pub struct Weird;
impl Weird {
    pub fn len(&self) -> i32 {
        -5
    }
}

// ---------------------------------------------------------------- traps
pub fn bad_guard_on_other_slice(a: &[u8], b: &[u8], i: usize) -> u8 {
    if i < a.len() {
        b[i]
    } else {
        0
    }
}

pub fn bad_guard_then_pop(v: &mut Vec<u8>, i: usize) -> u8 {
    if i < v.len() {
        v.pop();
        v[i]
    } else {
        0
    }
}

impl Stack {
    fn shrink(&mut self) {
        self.top = 100;
    }
    pub fn bad_stale_field_bound(&mut self) -> i32 {
        if self.top < 16 {
            self.shrink();
            self.values[self.top]
        } else {
            0
        }
    }
    pub fn bad_pointer_reload(&mut self, other: &'static [u8], i: usize) -> u8 {
        let d = self.data;
        if i < d.len() {
            self.data = other;
            self.data[i]
        } else {
            0
        }
    }
    pub fn values(&self) -> &[i32] {
        &self.values[..self.top.min(16)]
    }
    pub fn bad_pure_call_on_mut_self(&mut self, i: usize) -> i32 {
        if i < self.values().len() {
            self.top = 0;
            self.values()[i]
        } else {
            0
        }
    }
}

pub fn bad_loop_other_slice(a: &[u8], b: &[u8]) -> u32 {
    let mut s = 0u32;
    for i in 0..a.len() {
        s = s.wrapping_add(b[i] as u32);
    }
    s
}

pub fn bad_user_len(w: &Weird, v: &[u8; 4]) -> u8 {
    let n = w.len();
    if n < 0 {
        v[(n.wrapping_neg()) as usize]
    } else {
        0
    }
}

pub fn bad_sub_unguarded(x: usize) -> usize {
    x - 1
}

pub fn bad_abs_min(x: i8) -> i8 {
    x.abs()
}

pub fn bad_signed_match(a: i32, b: i32, v: &[u8]) -> u8 {
    match a.cmp(&b) {
        core::cmp::Ordering::Less => v[0],
        core::cmp::Ordering::Equal => 1,
        core::cmp::Ordering::Greater => 2,
    }
}

pub fn bad_div_other_var(a: u32, b: u32, c: u32) -> u32 {
    if b != 0 {
        a / c
    } else {
        0
    }
}

pub fn bad_get_then_index_other(a: &[u8], b: &[u8], i: usize) -> u8 {
    if a.get(i).is_some() {
        b[i]
    } else {
        0
    }
}

pub fn bad_off_by_one(v: &[u8]) -> u32 {
    let mut i = 0;
    let mut s = 0u32;
    while i <= v.len() {
        s = s.wrapping_add(v[i] as u32);
        i += 1;
    }
    s
}

pub fn bad_binary_search_other(a: &[u32], b: &[u32], k: u32) -> u32 {
    match a.binary_search(&k) {
        Ok(ix) => b[ix],
        Err(_) => 0,
    }
}

pub fn bad_add_u8(a: u8) -> u8 {
    a + 1
}

pub fn bad_range_to(v: &[u8], n: usize) -> &[u8] {
    &v[..n]
}

pub fn bad_split_at(v: &[u8], n: usize) -> (&[u8], &[u8]) {
    if n <= v.len() + 1 {
        v.split_at(n)
    } else {
        (v, v)
    }
}

pub fn bad_two_mut(a: &mut [u8], b: &mut [u8], i: usize) {
    if i < a.len() {
        b[i] = 1;
    }
}

pub fn bad_counter_u32(n: &[u8]) -> u32 {
    let mut c: u32 = u32::MAX - 2;
    for _ in n {
        c += 1;
    }
    c
}

// ---------------------------------------------------------------- idioms that must be proved
pub fn good_guarded_index(v: &[u8], i: usize) -> u8 {
    if i < v.len() {
        v[i]
    } else {
        0
    }
}

pub fn good_loop(v: &[u8]) -> u32 {
    let mut s = 0u32;
    for i in 0..v.len() {
        s = s.wrapping_add(v[i] as u32);
    }
    s
}

pub fn good_get_then_index(v: &[u8], i: usize) -> u8 {
    if v.get(i).is_some() {
        v[i]
    } else {
        0
    }
}

pub fn good_widening(a: u16, b: u8) -> u32 {
    a as u32 * 4 + b as u32 + 1
}

pub fn good_binary_search(a: &[u32], k: u32) -> u32 {
    match a.binary_search(&k) {
        Ok(ix) => a[ix],
        Err(_) => 0,
    }
}

pub fn good_range_to(v: &[u8], n: usize) -> &[u8] {
    if n <= v.len() {
        &v[..n]
    } else {
        v
    }
}

pub fn good_sub_guarded(a: usize, b: usize) -> usize {
    if b <= a {
        a - b
    } else {
        0
    }
}

impl Stack {
    pub fn good_push(&mut self, x: i32) -> bool {
        if self.top >= 16 {
            return false;
        }
        self.values[self.top] = x;
        self.top += 1;
        true
    }
}

pub fn good_counter(n: &[u8]) -> usize {
    let mut c = 0usize;
    for _ in n {
        c += 1;
    }
    c
}

pub fn good_div(a: u32, b: u32) -> u32 {
    if b == 0 {
        0
    } else {
        a / b
    }
}

// ---- entry facts established by every call site (argsum) ---------------------------------------------------------

// closed (private, direct calls only), every caller guards: the index is proved from the callers' states
fn good_entry_guarded(v: &[u8], i: usize) -> u8 {
    v[i]
}

pub fn entry_caller_a(v: &[u8], i: usize) -> u8 {
    if i < v.len() {
        good_entry_guarded(v, i)
    } else {
        0
    }
}

pub fn entry_caller_b(v: &[u8]) -> u8 {
    if v.len() > 3 {
        good_entry_guarded(v, 3)
    } else {
        0
    }
}

// closed, but one of two callers does not guard
fn bad_entry_one_unguarded(v: &[u8], i: usize) -> u8 {
    v[i]
}

pub fn entry_caller_c(v: &[u8], i: usize) -> u8 {
    if i < v.len() {
        bad_entry_one_unguarded(v, i)
    } else {
        0
    }
}

pub fn entry_caller_d(v: &[u8], i: usize) -> u8 {
    bad_entry_one_unguarded(v, i)
}

// every direct caller guards, but the function also escapes as a value: not closed
fn bad_entry_fn_value(v: &[u8], i: usize) -> u8 {
    v[i]
}

pub fn entry_caller_e(v: &[u8], i: usize) -> u8 {
    if i < v.len() {
        bad_entry_fn_value(v, i)
    } else {
        0
    }
}

pub fn entry_escape() -> fn(&[u8], usize) -> u8 {
    bad_entry_fn_value
}

// every caller in this crate guards, but the function is public: callers outside the crate are unknown
pub fn bad_entry_public(v: &[u8], i: usize) -> u8 {
    v[i]
}

pub fn entry_caller_f(v: &[u8], i: usize) -> u8 {
    if i < v.len() {
        bad_entry_public(v, i)
    } else {
        0
    }
}

// the guard in the caller is about another slice
fn bad_entry_other_slice(v: &[u8], i: usize) -> u8 {
    v[i]
}

pub fn entry_caller_g(v: &[u8], w: &[u8], i: usize) -> u8 {
    if i < w.len() {
        bad_entry_other_slice(v, i)
    } else {
        0
    }
}

// the parameter is reassigned before use: the entry fact must not survive the assignment
fn bad_entry_param_reassigned(v: &[u8], mut i: usize) -> u8 {
    i = i.wrapping_mul(3);
    v[i]
}

pub fn entry_caller_h(v: &[u8], i: usize) -> u8 {
    if i < v.len() {
        bad_entry_param_reassigned(v, i)
    } else {
        0
    }
}

// subtraction proved by an ordering fact that holds at the only call site; recursion keeps it
fn good_entry_ordered(lo: u32, hi: u32, depth: u8) -> u32 {
    if depth > 0 {
        good_entry_ordered(lo, hi, depth - 1)
    } else {
        hi - lo
    }
}

pub fn entry_caller_i(a: u32, b: u32) -> u32 {
    if a <= b {
        good_entry_ordered(a, b, 3)
    } else {
        0
    }
}

// recursion that breaks the fact it relies on
fn bad_entry_recursion_breaks(lo: u32, hi: u32) -> u32 {
    if hi > 10 {
        bad_entry_recursion_breaks(lo, hi / 2)
    } else {
        hi - lo
    }
}

pub fn entry_caller_j(a: u32, b: u32) -> u32 {
    if a <= b {
        bad_entry_recursion_breaks(a, b)
    } else {
        0
    }
}

// a trait method can be reached through dispatch: never closed
pub trait EntryTrait {
    fn bad_entry_trait_method(&self, v: &[u8], i: usize) -> u8;
}

pub struct EntryImpl;

impl EntryTrait for EntryImpl {
    fn bad_entry_trait_method(&self, v: &[u8], i: usize) -> u8 {
        v[i]
    }
}

pub fn entry_caller_k(v: &[u8], i: usize) -> u8 {
    if i < v.len() {
        EntryImpl.bad_entry_trait_method(v, i)
    } else {
        0
    }
}
