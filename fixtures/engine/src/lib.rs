//! Engine fixture: every `pub fn bad_*` contains exactly one panic-capable site that is NOT safe for every input and
//! must stay undischarged (a trap for an unsound shortcut of the interval engine); every `pub fn good_*` contains
//! sites that ARE safe and that the engine is expected to prove.  Checked on every run of C01/C02/C20.
#![allow(clippy::all, unused)]

pub struct Stack {
    values: [i32; 16],
    top: usize,
    data: &'static [u8],
}

pub struct Weird;
impl Weird {
    pub fn len(&self) -> i32 {
        -5
    }
}

// ---------------------------------------------------------------- traps
pub fn bad_guard_on_other_slice(a: &[u8], b: &[u8], i: usize) -> u8 {
    if i < a.len() {
        b[i]
    } else {
        0
    }
}

pub fn bad_guard_then_pop(v: &mut Vec<u8>, i: usize) -> u8 {
    if i < v.len() {
        v.pop();
        v[i]
    } else {
        0
    }
}

impl Stack {
    fn shrink(&mut self) {
        self.top = 100;
    }
    pub fn bad_stale_field_bound(&mut self) -> i32 {
        if self.top < 16 {
            self.shrink();
            self.values[self.top]
        } else {
            0
        }
    }
    pub fn bad_pointer_reload(&mut self, other: &'static [u8], i: usize) -> u8 {
        let d = self.data;
        if i < d.len() {
            self.data = other;
            self.data[i]
        } else {
            0
        }
    }
    pub fn values(&self) -> &[i32] {
        &self.values[..self.top.min(16)]
    }
    pub fn bad_pure_call_on_mut_self(&mut self, i: usize) -> i32 {
        if i < self.values().len() {
            self.top = 0;
            self.values()[i]
        } else {
            0
        }
    }
}

pub fn bad_loop_other_slice(a: &[u8], b: &[u8]) -> u32 {
    let mut s = 0u32;
    for i in 0..a.len() {
        s = s.wrapping_add(b[i] as u32);
    }
    s
}

pub fn bad_user_len(w: &Weird, v: &[u8; 4]) -> u8 {
    let n = w.len();
    if n < 0 {
        v[(n.wrapping_neg()) as usize]
    } else {
        0
    }
}

pub fn bad_sub_unguarded(x: usize) -> usize {
    x - 1
}

pub fn bad_abs_min(x: i8) -> i8 {
    x.abs()
}

pub fn bad_signed_match(a: i32, b: i32, v: &[u8]) -> u8 {
    match a.cmp(&b) {
        core::cmp::Ordering::Less => v[0],
        core::cmp::Ordering::Equal => 1,
        core::cmp::Ordering::Greater => 2,
    }
}

pub fn bad_div_other_var(a: u32, b: u32, c: u32) -> u32 {
    if b != 0 {
        a / c
    } else {
        0
    }
}

pub fn bad_get_then_index_other(a: &[u8], b: &[u8], i: usize) -> u8 {
    if a.get(i).is_some() {
        b[i]
    } else {
        0
    }
}

pub fn bad_off_by_one(v: &[u8]) -> u32 {
    let mut i = 0;
    let mut s = 0u32;
    while i <= v.len() {
        s = s.wrapping_add(v[i] as u32);
        i += 1;
    }
    s
}

pub fn bad_binary_search_other(a: &[u32], b: &[u32], k: u32) -> u32 {
    match a.binary_search(&k) {
        Ok(ix) => b[ix],
        Err(_) => 0,
    }
}

pub fn bad_add_u8(a: u8) -> u8 {
    a + 1
}

pub fn bad_range_to(v: &[u8], n: usize) -> &[u8] {
    &v[..n]
}

pub fn bad_split_at(v: &[u8], n: usize) -> (&[u8], &[u8]) {
    if n <= v.len() + 1 {
        v.split_at(n)
    } else {
        (v, v)
    }
}

pub fn bad_two_mut(a: &mut [u8], b: &mut [u8], i: usize) {
    if i < a.len() {
        b[i] = 1;
    }
}

pub fn bad_counter_u32(n: &[u8]) -> u32 {
    let mut c: u32 = u32::MAX - 2;
    for _ in n {
        c += 1;
    }
    c
}

// ---------------------------------------------------------------- idioms that must be proved
pub fn good_guarded_index(v: &[u8], i: usize) -> u8 {
    if i < v.len() {
        v[i]
    } else {
        0
    }
}

pub fn good_loop(v: &[u8]) -> u32 {
    let mut s = 0u32;
    for i in 0..v.len() {
        s = s.wrapping_add(v[i] as u32);
    }
    s
}

pub fn good_get_then_index(v: &[u8], i: usize) -> u8 {
    if v.get(i).is_some() {
        v[i]
    } else {
        0
    }
}

pub fn good_widening(a: u16, b: u8) -> u32 {
    a as u32 * 4 + b as u32 + 1
}

pub fn good_binary_search(a: &[u32], k: u32) -> u32 {
    match a.binary_search(&k) {
        Ok(ix) => a[ix],
        Err(_) => 0,
    }
}

pub fn good_range_to(v: &[u8], n: usize) -> &[u8] {
    if n <= v.len() {
        &v[..n]
    } else {
        v
    }
}

pub fn good_sub_guarded(a: usize, b: usize) -> usize {
    if b <= a {
        a - b
    } else {
        0
    }
}

impl Stack {
    pub fn good_push(&mut self, x: i32) -> bool {
        if self.top >= 16 {
            return false;
        }
        self.values[self.top] = x;
        self.top += 1;
        true
    }
}

pub fn good_counter(n: &[u8]) -> usize {
    let mut c = 0usize;
    for _ in n {
        c += 1;
    }
    c
}

pub fn good_div(a: u32, b: u32) -> u32 {
    if b == 0 {
        0
    } else {
        a / b
    }
}

// ---- entry facts established by every call site (argsum) ---------------------------------------------------------

// closed (private, direct calls only), every caller guards: the index is proved from the callers' states
fn good_entry_guarded(v: &[u8], i: usize) -> u8 {
    v[i]
}

pub fn entry_caller_a(v: &[u8], i: usize) -> u8 {
    if i < v.len() {
        good_entry_guarded(v, i)
    } else {
        0
    }
}

pub fn entry_caller_b(v: &[u8]) -> u8 {
    if v.len() > 3 {
        good_entry_guarded(v, 3)
    } else {
        0
    }
}

// closed, but one of two callers does not guard
fn bad_entry_one_unguarded(v: &[u8], i: usize) -> u8 {
    v[i]
}

pub fn entry_caller_c(v: &[u8], i: usize) -> u8 {
    if i < v.len() {
        bad_entry_one_unguarded(v, i)
    } else {
        0
    }
}

pub fn entry_caller_d(v: &[u8], i: usize) -> u8 {
    bad_entry_one_unguarded(v, i)
}

// every direct caller guards, but the function also escapes as a value: not closed
fn bad_entry_fn_value(v: &[u8], i: usize) -> u8 {
    v[i]
}

pub fn entry_caller_e(v: &[u8], i: usize) -> u8 {
    if i < v.len() {
        bad_entry_fn_value(v, i)
    } else {
        0
    }
}

pub fn entry_escape() -> fn(&[u8], usize) -> u8 {
    bad_entry_fn_value
}

// every caller in this crate guards, but the function is public: callers outside the crate are unknown
pub fn bad_entry_public(v: &[u8], i: usize) -> u8 {
    v[i]
}

pub fn entry_caller_f(v: &[u8], i: usize) -> u8 {
    if i < v.len() {
        bad_entry_public(v, i)
    } else {
        0
    }
}

// the guard in the caller is about another slice
fn bad_entry_other_slice(v: &[u8], i: usize) -> u8 {
    v[i]
}

pub fn entry_caller_g(v: &[u8], w: &[u8], i: usize) -> u8 {
    if i < w.len() {
        bad_entry_other_slice(v, i)
    } else {
        0
    }
}

// the parameter is reassigned before use: the entry fact must not survive the assignment
fn bad_entry_param_reassigned(v: &[u8], mut i: usize) -> u8 {
    i = i.wrapping_mul(3);
    v[i]
}

pub fn entry_caller_h(v: &[u8], i: usize) -> u8 {
    if i < v.len() {
        bad_entry_param_reassigned(v, i)
    } else {
        0
    }
}

// subtraction proved by an ordering fact that holds at the only call site; recursion keeps it
fn good_entry_ordered(lo: u32, hi: u32, depth: u8) -> u32 {
    if depth > 0 {
        good_entry_ordered(lo, hi, depth - 1)
    } else {
        hi - lo
    }
}

pub fn entry_caller_i(a: u32, b: u32) -> u32 {
    if a <= b {
        good_entry_ordered(a, b, 3)
    } else {
        0
    }
}

// recursion that breaks the fact it relies on
fn bad_entry_recursion_breaks(lo: u32, hi: u32) -> u32 {
    if hi > 10 {
        bad_entry_recursion_breaks(lo, hi / 2)
    } else {
        hi - lo
    }
}

pub fn entry_caller_j(a: u32, b: u32) -> u32 {
    if a <= b {
        bad_entry_recursion_breaks(a, b)
    } else {
        0
    }
}

// a trait method can be reached through dispatch: never closed
pub trait EntryTrait {
    fn bad_entry_trait_method(&self, v: &[u8], i: usize) -> u8;
}

pub struct EntryImpl;

impl EntryTrait for EntryImpl {
    fn bad_entry_trait_method(&self, v: &[u8], i: usize) -> u8 {
        v[i]
    }
}

pub fn entry_caller_k(v: &[u8], i: usize) -> u8 {
    if i < v.len() {
        EntryImpl.bad_entry_trait_method(v, i)
    } else {
        0
    }
}

// ---- getters, products and the window idiom ------------------------------------------------------------------------

pub struct Fifo {
    items: [u8; 32],
    top: usize,
}

impl Fifo {
    pub fn len(&self) -> usize {
        self.top
    }

    pub fn good_fifo_push(&mut self, x: u8) -> bool {
        if self.top == 32 {
            return false;
        }
        self.items[self.top] = x;
        self.top += 1;
        true
    }

    pub fn reset(&mut self) {
        self.top = 0;
    }

    // `top` is only ever 0..=32 (push / reset / shrink), so the prefix is in range
    pub fn good_live(&self) -> &[u8] {
        &self.items[..self.top]
    }

    // the getter is the field: the guard on `len()` bounds `n`, the window arithmetic keeps `top` within the array
    pub fn good_shrink(&mut self, n: usize, keep: usize) {
        if n == 0 || n > 8 || keep == 0 || keep > 4 {
            return;
        }
        let total = n * keep;
        if self.len() < total {
            return;
        }
        let start = self.len() - total;
        self.top = start + n;
    }

    // the getter was read before the field changed: the old relation must not be used for the new value
    pub fn bad_getter_then_write(&mut self, i: usize) -> u8 {
        let n = self.len();
        if i < n {
            self.top = 0;
            let m = self.len();
            if m > 0 {
                return 0;
            }
            return self.items[i + 31];
        }
        0
    }
}

pub fn good_window(v: &[u8], n: usize) -> &[u8] {
    if n > v.len() {
        return v;
    }
    let start = v.len() - n;
    let end = start + n;
    &v[start..end]
}

// the added amount is not related to the subtracted one
pub fn bad_window_unrelated(v: &[u8], n: usize, m: usize) -> &[u8] {
    if n > v.len() || m > v.len() {
        return v;
    }
    let start = v.len() - n;
    let end = start + m;
    &v[start..end]
}

// the minuend changed between the subtraction and the addition
pub fn bad_window_stale(v: &mut Vec<u8>, n: usize) -> u8 {
    if n > v.len() || n == 0 {
        return 0;
    }
    let start = v.len() - n;
    v.truncate(1);
    let end = start + n;
    v[end - 1]
}

// a product is at least its factor only if the other factor is at least one
pub fn bad_mul_by_zero(v: &[u8], a: usize, b: usize) -> u8 {
    let p = match a.checked_mul(b) {
        Some(p) => p,
        None => return 0,
    };
    let q = a * b;
    if q < v.len() && p == q {
        v[a]
    } else {
        0
    }
}

pub fn good_mul_at_least(v: &[u8], a: usize, b: usize) -> u8 {
    if b == 0 || b > 16 || a > 4096 {
        return 0;
    }
    let q = a * b;
    if q < v.len() {
        v[a]
    } else {
        0
    }
}

// signed: (x - y) + c with c <= y is at most x, but it can fall below MIN
pub fn bad_signed_window(x: i32, y: i32, c: i32) -> i32 {
    let d = match x.checked_sub(y) {
        Some(d) => d,
        None => return 0,
    };
    let e = x - y;
    if c <= y && d == e {
        c + e
    } else {
        0
    }
}

// ---- available expressions ---------------------------------------------------------------------------------------

// the guard computes the same sum that is stored afterwards
pub struct Slots {
    used: usize,
    data: [u8; 24],
}

impl Slots {
    pub fn good_reserve(&mut self, n: usize) -> bool {
        if n > 2 {
            return false;
        }
        if self.used + n > 24 {
            return false;
        }
        self.used += n;
        true
    }

    pub fn good_slots_live(&self) -> &[u8] {
        &self.data[..self.used]
    }

    pub fn slots_reset(&mut self) {
        self.used = 0;
    }
}

// an operand changed between the two sums
pub fn bad_avail_operand_changed(v: &[u8], mut a: usize, b: usize) -> u8 {
    if a > 1000 || b > 1000 {
        return 0;
    }
    if a + b >= v.len() {
        return 0;
    }
    a *= 2;
    v[a + b]
}

// the field operand changed between the two sums
pub struct Cell2 {
    pos: usize,
}

impl Cell2 {
    pub fn bad_avail_field_changed(&mut self, v: &[u8], b: usize) -> u8 {
        if self.pos > 1000 || b > 1000 {
            return 0;
        }
        if self.pos + b >= v.len() {
            return 0;
        }
        self.bump();
        v[self.pos + b]
    }

    fn bump(&mut self) {
        self.pos = self.pos.wrapping_mul(3);
    }
}

// y + c with c <= x - y
pub fn good_clamped_run(flags: &mut [u8], n: usize, mut i: usize, want: usize) {
    if flags.len() != n || i > n {
        return;
    }
    let count = want.min(n - i);
    for f in &mut flags[i..i + count] {
        *f = 1;
    }
    i += count;
    let _ = i;
}

pub fn bad_unclamped_run(flags: &mut [u8], n: usize, i: usize, want: usize) {
    if flags.len() != n || i > n || want > 300 {
        return;
    }
    let _room = n - i;
    for f in &mut flags[i..i + want] {
        *f = 1;
    }
}

// `available = MAX - used` with a constant minuend
pub struct NameBuf {
    bytes: [u8; 40],
    used: u8,
}

impl NameBuf {
    pub fn good_name_append(&mut self, n: usize) {
        let start = self.used as usize;
        let available = 40 - start;
        let take = available.min(n);
        for b in &mut self.bytes[start..start + take] {
            *b = 1;
        }
        self.used = (start + take) as u8;
    }

    pub fn good_name_live(&self) -> &[u8] {
        &self.bytes[..self.used as usize]
    }

    pub fn name_clear(&mut self) {
        self.used = 0;
    }
}

pub struct NameBuf2 {
    bytes: [u8; 40],
    used: u8,
}

impl NameBuf2 {
    // the amount added is not clamped to what is available
    pub fn name_append_unclamped(&mut self, n: usize) {
        let start = self.used as usize;
        if start > 40 || n > 50 {
            return;
        }
        let _available = 40 - start;
        self.used = (start + n) as u8;
    }

    pub fn bad_name_live(&self) -> &[u8] {
        &self.bytes[..self.used as usize]
    }
}

// ---- loop pacing ---------------------------------------------------------------------------------------------------
// `loopgood_*`: every loop is paced; `loopbad_*`: one loop has no recognised reason to terminate.

pub fn loopgood_for_range(v: &[u8]) -> u32 {
    let mut s = 0u32;
    for i in 0..v.len() {
        s = s.wrapping_add(v[i] as u32);
    }
    for x in v.iter().rev().take(3) {
        s = s.wrapping_add(*x as u32);
    }
    s
}

pub fn loopgood_while_counter(v: &[u8]) -> u32 {
    let mut i = 0;
    let mut s = 0u32;
    while i < v.len() {
        s = s.wrapping_add(v[i] as u32);
        i += 2;
    }
    s
}

pub fn loopgood_count_down(mut n: u32) -> u32 {
    let mut s = 0u32;
    while n > 0 {
        s = s.wrapping_add(n);
        n -= 1;
    }
    s
}

pub fn loopgood_caller_iterator(it: impl Iterator<Item = u8>) -> u32 {
    let mut s = 0u32;
    for x in it {
        s = s.wrapping_add(x as u32);
    }
    s
}

// the step happens only on some trips
pub fn loopbad_conditional_step(v: &[u8]) -> u32 {
    let mut i = 0;
    let mut s = 0u32;
    while i < v.len() {
        s = s.wrapping_add(v[i] as u32);
        if v[i] != 0 {
            i += 1;
        }
    }
    s
}

// the bound moves with the counter
pub fn loopbad_moving_bound(v: &[u8]) -> u32 {
    let mut i = 0usize;
    let mut end = v.len();
    let mut s = 0u32;
    while i < end {
        s = s.wrapping_add(1);
        i += 1;
        end += 1;
    }
    s
}

// an infinite source with nothing finite zipped to it
pub fn loopbad_repeat(v: &[u8]) -> u32 {
    let mut s = 0u32;
    for x in core::iter::repeat(1u32) {
        s = s.wrapping_add(x);
        if s as usize > v.len() {
            break;
        }
    }
    s
}

// the counter runs away from the bound
pub fn loopbad_wrong_direction(v: &[u8]) -> u32 {
    let mut i = v.len();
    let mut s = 0u32;
    while i > 0 {
        s = s.wrapping_add(1);
        i += 1;
    }
    s
}

// the counter is reset inside the loop
pub fn loopbad_reset(v: &[u8]) -> u32 {
    let mut i = 0;
    let mut s = 0u32;
    while i < v.len() {
        s = s.wrapping_add(1);
        i += 1;
        if v[i - 1] == 7 {
            i = 0;
        }
    }
    s
}

// a worklist that can grow
pub fn loopbad_worklist(mut work: Vec<u32>) -> u32 {
    let mut s = 0u32;
    while let Some(x) = work.pop() {
        s = s.wrapping_add(x);
        if x % 3 == 1 {
            work.push(x / 3);
        }
    }
    s
}

// the iterator is rebuilt on every trip
pub fn loopbad_iterator_rebuilt(v: &[u8]) -> u32 {
    let mut s = 0u32;
    loop {
        let mut it = v.iter();
        match it.next() {
            Some(x) if *x == 0 => break,
            Some(x) => s = s.wrapping_add(*x as u32),
            None => break,
        }
    }
    s
}

pub fn loopgood_bisect(v: &[u32], key: u32) -> usize {
    let mut lo = 0usize;
    let mut hi = v.len();
    while lo < hi {
        let mid = (lo + hi) / 2;
        if v[mid] < key {
            lo = mid + 1;
        } else {
            hi = mid;
        }
    }
    lo
}

// `lo = mid` makes no progress once hi == lo + 1
pub fn loopbad_bisect_lo_mid(v: &[u32], key: u32) -> usize {
    let mut lo = 0usize;
    let mut hi = v.len();
    while lo < hi {
        let mid = (lo + hi) / 2;
        if v[mid] < key {
            lo = mid;
        } else {
            hi = mid;
        }
    }
    lo
}

// the rounded-up midpoint can equal hi: `hi = mid` makes no progress
pub fn loopbad_bisect_ceil(v: &[u32], key: u32) -> usize {
    let mut lo = 0usize;
    let mut hi = v.len();
    while lo < hi {
        let mid = (lo + hi + 1) / 2;
        if mid < v.len() && v[mid] < key {
            lo = mid + 1;
        } else {
            hi = mid;
        }
    }
    lo
}

// ---- bounds through a sign-reinterpreting cast -------------------------------------------------------------------

pub fn good_cast_guard(v: &[u8; 8], n: i32) -> u8 {
    if n as u32 > 6 {
        return 0;
    }
    v[n as usize]
}

// the source changed after the cast
pub fn bad_cast_guard_stale(v: &[u8; 8], mut n: i32) -> u8 {
    let t = n as u32;
    n = n.wrapping_mul(3);
    if t > 6 {
        return 0;
    }
    v[(n as u32 as usize) & 0xFFFF]
}

// a narrowing cast tells nothing about the source
pub fn bad_cast_narrowing(v: &[u8; 8], n: u32) -> u8 {
    if (n as u8) > 6 {
        return 0;
    }
    v[n as usize]
}

// positive example for the hash-iteration scanner (C01-f): the first key of a std HashMap is returned
pub fn hash_order_observed(m: &std::collections::HashMap<u16, u16>) -> u16 {
    let mut first = 0;
    for k in m.keys() {
        first = *k;
        break;
    }
    first
}

// a guard whose operands are known under other names on the first trip round the loop (the relation must survive the join)
pub fn good_guard_alias(total: u16, reps: &[u8]) -> u32 {
    let mut left = u32::from(total);
    let mut i = 0;
    while left > 0 {
        let r = if i < reps.len() {
            u32::from(reps[i]) + 1
        } else {
            1
        };
        if r > left {
            return 0;
        }
        left -= r;
        i += 1;
    }
    left
}

// a work list that is only drained
pub fn loopgood_drain(mut work: Vec<u32>, out: &mut Vec<u32>) -> u32 {
    let mut s = 0u32;
    while let Some(x) = work.pop() {
        s = s.wrapping_add(x);
        out.push(x);
    }
    s
}

// ---- range `contains` guards -------------------------------------------------------------------------------------

pub fn good_contains_guard(v: &[u8; 8], n: i32) -> u8 {
    if !(0..=6).contains(&n) {
        return 0;
    }
    v[n as usize]
}

pub fn good_contains_half_open(v: &[u8; 8], n: usize) -> u8 {
    if (0..8).contains(&n) {
        v[n]
    } else {
        0
    }
}

pub fn bad_contains_too_wide(v: &[u8; 8], n: i32) -> u8 {
    if !(0..=8).contains(&n) {
        return 0;
    }
    v[n as usize]
}

pub fn bad_contains_other_variable(v: &[u8; 8], n: usize, m: usize) -> u8 {
    if (0..8).contains(&m) {
        v[n]
    } else {
        0
    }
}

pub fn loopgood_bisect_loop_form(v: &[u32], key: u32) -> usize {
    let mut lo = 0usize;
    let mut hi = v.len();
    loop {
        if lo >= hi {
            break lo;
        }
        let mid = lo + (hi - lo) / 2;
        if key < v[mid] {
            hi = mid;
        } else if key > v[mid] {
            lo = mid + 1;
        } else {
            return mid;
        }
    }
}

// ---- position() over a prefix ---------------------------------------------------------------------------------------

pub fn good_position_prefix(v: &[u32; 16], n: usize, key: u32) -> u32 {
    if n > 15 {
        return 0;
    }
    let ix = v[..n].iter().position(|x| *x >= key).unwrap_or(n);
    v[ix]
}

// the position comes from another, longer slice
pub fn bad_position_other_slice(v: &[u32; 16], w: &[u32], n: usize, key: u32) -> u32 {
    if n > 15 {
        return 0;
    }
    let ix = w.iter().position(|x| *x >= key).unwrap_or(n);
    v[ix]
}

// the default is not bounded
pub fn bad_position_default(v: &[u32; 16], n: usize, d: usize, key: u32) -> u32 {
    if n > 15 {
        return 0;
    }
    let ix = v[..n].iter().position(|x| *x >= key).unwrap_or(d);
    v[ix]
}

// a + c <= x + c for an available x + c: fine for the upper end, not for a signed lower end
pub fn bad_signed_monotone_sum(a: i32, x: i32, c: i32) -> i32 {
    let s = match x.checked_add(c) {
        Some(s) => s,
        None => return 0,
    };
    let t = x + c;
    if a <= x && s == t {
        a + c
    } else {
        0
    }
}

pub fn good_monotone_sum(v: &[u8; 32], len: usize, k: usize, i: usize) -> u8 {
    if k > 2 || len > 32 {
        return 0;
    }
    if len + k > 32 {
        return 0;
    }
    if i < len {
        v[i + k]
    } else {
        0
    }
}

// ---- clamp asserts min <= max ------------------------------------------------------------------------------------------

pub fn good_clamp_literals(x: f32, n: i32) -> (f32, i32) {
    (x.clamp(0.0, 1.0), n.clamp(-4, 14))
}

pub fn bad_clamp_font_bounds(x: f32, min: f32, max: f32) -> f32 {
    x.clamp(min, max)
}

pub fn bad_clamp_int_bounds(x: i32, min: i32, max: i32) -> i32 {
    x.clamp(min, max)
}

pub fn good_clamp_ordered(x: i32, min: i32, max: i32) -> i32 {
    if min <= max {
        x.clamp(min, max)
    } else {
        x
    }
}

// ---- a trip that skips the exit test (do-while ported as `loop` + `continue`) ----------------------------------------

// the `continue` jumps over the only exit test: a run of far-away points at the wrap-around keeps the walk going forever
pub fn loopbad_exit_continue_skips_test(ys: &[i32], start: usize, threshold: i32) -> usize {
    if ys.is_empty() || start >= ys.len() {
        return 0;
    }
    let mut last = start;
    let mut first = start;
    let mut seen = 0usize;
    loop {
        first = last;
        if last < ys.len() - 1 {
            last += 1;
        } else {
            last = 0;
        }
        if (ys[start] - ys[first]).abs() > threshold {
            continue;
        }
        seen += 1;
        if last == start {
            break;
        }
    }
    seen
}

// the same walk with the exit test repeated in front of the `continue`: every trip can end the loop
pub fn loopgood_exit_continue_checks_test(ys: &[i32], start: usize, threshold: i32) -> usize {
    if ys.is_empty() || start >= ys.len() {
        return 0;
    }
    let mut last = start;
    let mut first = start;
    let mut seen = 0usize;
    loop {
        first = last;
        if last < ys.len() - 1 {
            last += 1;
        } else {
            last = 0;
        }
        if (ys[start] - ys[first]).abs() > threshold {
            if last == start {
                break;
            }
            continue;
        }
        seen += 1;
        if last == start {
            break;
        }
    }
    seen
}

// ---- return summaries of trait methods: closed (crate-private) traits only ---------------------------------------------

mod closed_trait {
    pub trait Width {
        fn width(&self) -> u32;
    }
    pub struct Narrow(pub u8);
    pub struct Wide(pub u16);
    impl Width for Narrow {
        fn width(&self) -> u32 {
            self.0 as u32
        }
    }
    impl Width for Wide {
        fn width(&self) -> u32 {
            self.0 as u32
        }
    }
}

// the trait cannot be named outside this crate: every impl is in sight, each returns at most 65535
fn good_closed_trait_plus_one_impl<T: closed_trait::Width>(x: &T) -> u32 {
    x.width() + 1
}

pub fn closed_trait_entry(a: u8, b: u16) -> u32 {
    good_closed_trait_plus_one_impl(&closed_trait::Narrow(a)).wrapping_add(good_closed_trait_plus_one_impl(&closed_trait::Wide(b)))
}

// an exported trait can be implemented downstream with any return value
pub trait OpenWidth {
    fn width(&self) -> u32;
}

impl OpenWidth for u8 {
    fn width(&self) -> u32 {
        *self as u32
    }
}

pub fn bad_open_trait_plus_one<T: OpenWidth>(x: &T) -> u32 {
    x.width() + 1
}

// ---- `x != 0` on a value whose range spans zero ------------------------------------------------------------------------

pub fn good_div_guarded_by_ne(n: i32, d: i32) -> i32 {
    if d != 0 {
        (n >> 1) / d
    } else {
        0
    }
}

// the divisor is changed between the test and the division
pub fn bad_div_changed_after_ne(n: i32, mut d: i32) -> i32 {
    if d != 0 {
        d = d.wrapping_sub(1);
        (n >> 1) / d
    } else {
        0
    }
}

// ---- return facts that relate a payload component to an integer parameter -----------------------------------------------

fn checked_inclusive_range(ends: &[u16], ix: usize, n: usize) -> Option<(usize, usize)> {
    if ix >= ends.len() {
        return None;
    }
    let start = if ix > 0 { ends[ix - 1] as usize + 1 } else { 0 };
    let end = ends[ix] as usize;
    if end < start || end >= n {
        return None;
    }
    Some((start, end))
}

pub fn good_range_from_helper(points: &[u32], ends: &[u16], ix: usize) -> Option<u32> {
    let (start, end) = checked_inclusive_range(ends, ix, points.len())?;
    let s = &points[start..=end];
    s.first().copied()
}

// the helper was told the length of a different slice
pub fn bad_range_from_helper_other_len(points: &[u32], other: &[u32], ends: &[u16], ix: usize) -> Option<u32> {
    let (start, end) = checked_inclusive_range(ends, ix, other.len())?;
    let s = &points[start..=end];
    s.first().copied()
}

// ---- a trip that changes nothing the loop's branches look at ------------------------------------------------------------

// merge of two sorted lists: the `Greater` arm forgets to step `j`
pub fn loopbad_stutter_merge_arm_without_step(a: &[u32], b: &[u32]) -> u32 {
    let (mut i, mut j, mut n) = (0usize, 0usize, 0u32);
    while i < a.len() && j < b.len() {
        if a[i] == b[j] {
            n = n.wrapping_add(1);
            i += 1;
            j += 1;
        } else if a[i] < b[j] {
            i += 1;
        } else {
            n = n.wrapping_add(2);
        }
    }
    n
}

pub fn loopgood_stutter_merge(a: &[u32], b: &[u32]) -> u32 {
    let (mut i, mut j, mut n) = (0usize, 0usize, 0u32);
    while i < a.len() && j < b.len() {
        if a[i] == b[j] {
            n = n.wrapping_add(1);
            i += 1;
            j += 1;
        } else if a[i] < b[j] {
            i += 1;
        } else {
            j += 1;
        }
    }
    n
}

// an arm that produces the absence leaves through `?`: it is not a trip that repeats
pub enum TwoSources<'a> {
    Nothing,
    Bytes(core::slice::Iter<'a, u8>),
}

pub fn loopgood_stutter_none_arm_leaves(src: &mut TwoSources) -> Option<u8> {
    loop {
        let item = match src {
            TwoSources::Nothing => None,
            TwoSources::Bytes(it) => it.next().copied(),
        }?;
        if item != 0 {
            return Some(item);
        }
    }
}

// ---- `Err(e)?;` as an early return: the value built as Err cannot take the Continue arm of `?` -------------------------

pub fn good_mul_after_err_question(index: usize, count: u32, size: u8) -> Result<usize, ()> {
    if index > count as usize {
        Err(())?;
    }
    Ok(index * size as usize)
}

pub fn good_mul_after_none_question(index: usize, count: u32, size: u8) -> Option<usize> {
    if index > count as usize {
        None?;
    }
    Some(index * size as usize)
}

// `Ok(())?` does not leave: the test bounds nothing
pub fn bad_mul_after_ok_question(index: usize, count: u32, size: u8) -> Result<usize, ()> {
    if index > count as usize {
        Ok::<(), ()>(())?;
    }
    Ok(index * size as usize)
}

// the tested result is not a constant variant
pub fn bad_mul_after_unknown_question(index: usize, count: u32, size: u8, r: Result<(), ()>) -> Result<usize, ()> {
    if index > count as usize {
        r?;
    }
    Ok(index * size as usize)
}
